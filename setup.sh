#!/bin/sh
# Offline setup: the framework is pure Python (stdlib only). Verify the interpreter and byte-compile nothing to disk.
set -e
cd "$(dirname "$0")"
if command -v python3-vt >/dev/null 2>&1; then PY=python3-vt; else PY=python3; fi
PYTHONDONTWRITEBYTECODE=1 "$PY" -c "import ast, sys; assert sys.version_info >= (3, 9); import kpsa.cli, kpsa.model; print('kpsa ready on', sys.version.split()[0])"
mkdir -p evidence
