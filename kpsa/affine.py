"""Affine normal forms of integer expressions, with case splits on conditional expressions."""
from __future__ import annotations

import ast
from typing import Callable, Dict, List, Optional, Tuple

from . import guards as G
from .astutil import clone


class NotAffine(Exception):
    pass


class Aff:
    __slots__ = ('terms', 'const')

    def __init__(self, terms=None, const=0):
        self.terms: Dict[str, int] = {k: v for k, v in (terms or {}).items() if v != 0}
        self.const = const

    def __add__(self, o):
        t = dict(self.terms)
        for k, v in o.terms.items():
            t[k] = t.get(k, 0) + v
        return Aff(t, self.const + o.const)

    def scale(self, c):
        return Aff({k: v * c for k, v in self.terms.items()}, self.const * c)

    def __sub__(self, o):
        return self + o.scale(-1)

    def is_const(self):
        return not self.terms

    def __eq__(self, o):
        return isinstance(o, Aff) and self.terms == o.terms and self.const == o.const

    def __hash__(self):
        return hash(self.key())

    def key(self) -> str:
        parts = [f'{v}*{k}' for k, v in sorted(self.terms.items())]
        if self.const or not parts:
            parts.append(str(self.const))
        return ' + '.join(parts)

    def coef(self, term):
        return self.terms.get(term, 0)

    def __repr__(self):
        return f'Aff({self.key()})'


def affine(node, const: Optional[Callable] = None, term: Optional[Callable] = None) -> Aff:
    """const(node) -> (ok, value) evaluates constant sub-expressions (names, class constants);
    term(node) -> str|None may rename a leaf term (e.g. map an origin to a symbol)."""
    if isinstance(node, ast.Constant):
        if isinstance(node.value, bool) or not isinstance(node.value, int):
            raise NotAffine(f'non-integer constant {node.value!r}')
        return Aff({}, node.value)
    if isinstance(node, ast.UnaryOp) and isinstance(node.op, ast.USub):
        return affine(node.operand, const, term).scale(-1)
    if isinstance(node, ast.UnaryOp) and isinstance(node.op, ast.UAdd):
        return affine(node.operand, const, term)
    if isinstance(node, ast.BinOp):
        if isinstance(node.op, ast.Add):
            return affine(node.left, const, term) + affine(node.right, const, term)
        if isinstance(node.op, ast.Sub):
            return affine(node.left, const, term) - affine(node.right, const, term)
        if isinstance(node.op, ast.Mult):
            l, r = affine(node.left, const, term), affine(node.right, const, term)
            if l.is_const():
                return r.scale(l.const)
            if r.is_const():
                return l.scale(r.const)
            raise NotAffine('product of two non-constant terms')
        if isinstance(node.op, (ast.FloorDiv, ast.Mod)):
            l, r = affine(node.left, const, term), affine(node.right, const, term)
            if not r.is_const() or r.const == 0:
                raise NotAffine('division by non-constant')
            c = r.const
            if l.is_const():
                return Aff({}, l.const // c if isinstance(node.op, ast.FloorDiv) else l.const % c)
            if isinstance(node.op, ast.FloorDiv) and all(v % c == 0 for v in l.terms.values()) and l.const % c == 0:
                return Aff({k: v // c for k, v in l.terms.items()}, l.const // c)
            name = 'div' if isinstance(node.op, ast.FloorDiv) else 'mod'
            return Aff({f'{name}({l.key()}, {c})': 1}, 0)
    if isinstance(node, ast.Call) and isinstance(node.func, ast.Name) and node.func.id == 'int' and len(node.args) == 1:
        try:
            return affine(node.args[0], const, term)
        except NotAffine:
            pass
    if const is not None:
        ok, v = const(node)
        if ok and isinstance(v, int) and not isinstance(v, bool):
            return Aff({}, v)
    if term is not None:
        t = term(node)
        if t is not None:
            return Aff({t: 1}, 0)
    if isinstance(node, (ast.Name, ast.Attribute, ast.Subscript, ast.Call)):
        return Aff({ast.unparse(node): 1}, 0)
    raise NotAffine(ast.unparse(node))


def split_cases(node) -> List[Tuple[tuple, ast.AST]]:
    """Expand conditional expressions: [(guard formula, expression without IfExp)]."""

    def find_ifexp(n):
        for s in ast.walk(n):
            if isinstance(s, ast.IfExp):
                return s
        return None
    work = [(('const', True), node)]
    out = []
    while work:
        g, n = work.pop()
        ie = find_ifexp(n)
        if ie is None:
            out.append((g, n))
            continue
        if len(out) + len(work) > 64:
            raise NotAffine('too many cases')
        f = G._formula(ie.test)
        for truth, branch in ((True, ie.body), (False, ie.orelse)):
            n2 = _replace(n, ie, branch)
            g2 = G.conj([g, f if truth else ('not', f)]) if g != ('const', True) else (f if truth else ('not', f))
            work.append((g2, n2))
    return out


def _replace(root, old, new):
    """Structural copy of `root` with the node `old` (by identity) replaced by a copy of `new`."""
    def rec(n):
        if n is old:
            return clone(new)
        if isinstance(n, ast.AST):
            c = n.__class__()
            for f, v in ast.iter_fields(n):
                setattr(c, f, rec(v))
            for a in ('lineno', 'col_offset', 'end_lineno', 'end_col_offset'):
                if getattr(n, a, None) is not None:
                    setattr(c, a, getattr(n, a))
            return c
        if isinstance(n, list):
            return [rec(x) for x in n]
        return n
    return rec(root)
