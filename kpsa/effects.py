"""Interprocedural effect summaries (who may write what), flow-insensitive inside a function.

Abstract value = set of (root, level).  root: ('p', i) i-th parameter | ('g', qualified module constant)
| ('cls', class qualname).  level: ('R', n) an object of the root reached through n links (0 = the object
itself, capped at 3 = 'three or more'), ('F', k) a fresh object from which objects of the root are k links away
(minimum, capped).  An empty set is an immutable or entirely fresh value.
A store through a value with level S/D is an EFFECT on that root; a store into a fresh object only
adds content.  Summaries map effects on formals to the actuals at every resolved call site."""
from __future__ import annotations

import ast
from typing import Dict, List, Optional, Set, Tuple

from .errors import AnalysisError
from .model import Program, FuncInfo, ClassInfo, walk_local, src
from .typing_ import Types

MUTATORS = {'append', 'extend', 'insert', 'pop', 'remove', 'clear', 'sort', 'reverse', 'update', 'add', 'discard',
            'setdefault', 'popitem', 'put', 'put_nowait', 'appendleft', 'popleft', 'extendleft', 'write', 'writelines',
            'close', 'intersection_update', 'difference_update', 'symmetric_difference_update', '__setitem__',
            '__delitem__', '__setattr__', '__iadd__', 'truncate', 'seek', 'flush', 'get_nowait', 'task_done',
            'rotate', 'move_to_end'}
READ_THROUGH = {'get', 'pop', 'popitem', 'setdefault', 'popleft', '__getitem__', 'get_nowait'}
COPYING = {'copy', 'values', 'items', 'keys', 'union', 'difference', 'intersection', 'symmetric_difference',
           '__iter__', 'most_common'}
PURE_METHODS = {
    'startswith', 'endswith', 'strip', 'lstrip', 'rstrip', 'split', 'rsplit', 'splitlines', 'join', 'replace', 'lower', 'upper',
    'format', 'isdigit', 'isalpha', 'islower', 'isupper', 'isnumeric', 'isalnum', 'isspace', 'count', 'index', 'find',
    'rfind', 'encode', 'decode', 'title', 'capitalize', 'partition', 'rpartition', 'zfill', 'ljust', 'rjust', 'center',
    'issubset', 'issuperset', 'isdisjoint', 'empty', 'qsize', 'full', 'read', 'readline', 'readlines',
    'with_suffix', 'is_file', 'is_dir', 'exists', 'absolute', 'glob', 'rglob', 'resolve', 'as_posix', 'relative_to',
    'bit_length', 'casefold', 'swapcase', 'expandtabs', 'translate', 'removeprefix', 'removesuffix', 'hex',
    'total_seconds', 'fromkeys', 'mkdir', 'getText', 'getChild', 'getChildCount', 'getChildren', 'getTokens',
}
IO_METHODS = {'write', 'writelines', 'close', 'flush', 'mkdir', 'read', 'readline', 'readlines'}
PURE_EXTERNALS_PREFIX = ('os.path.', 'pathlib.', 'typing.', 'functools.', 'abc.', 'enum.', 'collections.', 'itertools.',
                         'warnings.', 'math.', 'copy.', 'queue.', 're.', 'json.', 'string.', 'unicodedata.', 'sys.')
IO_EXTERNALS = {'os.makedirs', 'os.mkdir', 'os.remove', 'os.rename', 'builtins.open', 'shutil.'}
COPY_BUILTINS = {'list', 'set', 'dict', 'tuple', 'sorted', 'reversed', 'enumerate', 'zip', 'filter', 'map', 'iter',
                 'frozenset', 'defaultdict', 'deque'}
DEEP_BUILTINS = {'getattr', 'next', 'min', 'max', 'vars', 'sum'}

Val = frozenset
IMMUTABLE_TAGS = {'str', 'int', 'bool', 'float', 'none', 'range'}


CAP = 3


def R(n):
    return ('R', min(n, CAP))


def Fr(k):
    return ('F', max(1, min(k, CAP)))


def deep(v) -> Val:
    """value read through v (attribute / element / iteration)."""
    out = set()
    for r, l in v:
        if l[0] == 'R':
            out.add((r, R(l[1] + 1)))
        elif l[1] <= 1:
            out.add((r, R(CAP)))
        else:
            out.add((r, Fr(l[1] - 1)))
    return frozenset(out)


def content(v, extra=0) -> Val:
    """a fresh object that holds v, `extra` further links away (extra=0: directly)."""
    out = set()
    for r, l in v:
        if l[0] == 'R':
            out.add((r, Fr(1 + extra)))
        else:
            out.add((r, Fr(l[1] + 1 + extra)))
    return frozenset(out)


def recopy(v) -> Val:
    """a fresh container with the same elements as v (list(x), sorted(x), x[:], x.copy())."""
    out = set()
    for r, l in v:
        if l[0] == 'R':
            out.add((r, Fr(1)))
        else:
            out.add((r, l))
    return frozenset(out)


def compose(actual, cl):
    """callee-relative level `cl` of a formal, seen through the caller's actual value."""
    out = set()
    for r, al in actual:
        if cl[0] == 'R':
            n = cl[1]
            if al[0] == 'R':
                out.add((r, R(al[1] + n)))
            elif n >= al[1]:
                out.add((r, R(CAP)))
            else:
                out.add((r, Fr(al[1] - n)))
        else:
            k = cl[1]
            if al[0] == 'R':
                out.add((r, Fr(k)))
            else:
                out.add((r, Fr(k + al[1])))
    return out


def links(expr) -> int:
    n = 0
    while isinstance(expr, (ast.Attribute, ast.Subscript)):
        n += 1
        expr = expr.value
    return n


class Effect:
    __slots__ = ('root', 'depth', 'what', 'loc', 'func', 'sources', 'chain')

    def __init__(self, root, depth, what, loc, func, sources=frozenset(), chain=()):
        self.root, self.depth, self.what, self.loc, self.func = root, depth, what, loc, func
        self.sources = sources
        self.chain = chain

    def key(self):
        return (self.root, self.depth, self.what, self.loc)

    def __repr__(self):
        return f'<Effect {self.root} {self.depth} {self.what} @{self.loc} via {"->".join(self.chain)}>'


class Summary:
    def __init__(self):
        self.effects: Dict[tuple, Effect] = {}
        self.ret: Set = set()
        self.io: Dict[str, str] = {}
        self.ext: Dict[str, str] = {}
        self.unresolved: Dict[str, str] = {}
        self.callees: Set[str] = set()

    def size(self):
        return (len(self.effects), len(self.ret), len(self.io), len(self.ext), len(self.unresolved), len(self.callees))


class Effects:
    def __init__(self, prog: Program, types: Optional[Types] = None):
        self.prog = prog
        self.types = types or Types(prog)
        self.summaries: Dict[int, Summary] = {}
        self.funcs: Dict[int, FuncInfo] = {}
        self.stats = {'calls': 0, 'typed': 0, 'cha': 0, 'builtin': 0, 'callable_value': 0, 'external': 0, 'unresolved': 0}
        self._mutable_globals: Dict[str, bool] = {}
        self.callable_values_pure = True
        self._in_progress: Set[int] = set()
        self.changed = False

    # ------------------------------------------------------------------ driver
    def analyse(self, entries: List[FuncInfo], rounds=12):
        for _ in range(rounds):
            self.changed = False
            self._done_round: Set[int] = set()
            for f in entries:
                self.summary(f)
            if not self.changed:
                break
        else:
            raise AnalysisError('effect fixpoint did not converge')
        return self

    def summary(self, f: FuncInfo) -> Summary:
        k = id(f.node)
        if k not in self.summaries:
            self.summaries[k] = Summary()
            self.funcs[k] = f
        if k in self._in_progress or k in getattr(self, '_done_round', set()):
            return self.summaries[k]
        self._in_progress.add(k)
        try:
            before = self.summaries[k].size()
            _FuncAnalysis(self, f, self.summaries[k]).run()
            if self.summaries[k].size() != before:
                self.changed = True
        finally:
            self._in_progress.discard(k)
            self._done_round.add(k)
        return self.summaries[k]

    def is_mutable_global(self, mod, name) -> Optional[str]:
        b = self.prog.resolve(mod, name)
        if b is None or b.kind != 'assign':
            return None
        v = b.value
        q = f'{b.module.name}.{name}'
        if isinstance(v, (ast.Dict, ast.Set, ast.List, ast.DictComp, ast.SetComp, ast.ListComp)):
            return q
        if isinstance(v, ast.Call):
            fn = src(v.func)
            if fn in ('sorted', 'list', 'dict', 'set', 'deepcopy', 'copy.deepcopy', 'defaultdict', 'OrderedDict') \
                    or fn[:1].isupper():
                return q
        return None

    def reachable(self, f: FuncInfo) -> List[FuncInfo]:
        seen, todo, out = set(), [id(f.node)], []
        while todo:
            k = todo.pop()
            if k in seen or k not in self.summaries:
                continue
            seen.add(k)
            out.append(self.funcs[k])
            for q in self.summaries[k].callees:
                todo.append(q)
        return out


class _FuncAnalysis:
    def __init__(self, eng: Effects, f: FuncInfo, summ: Summary):
        self.eng, self.f, self.s = eng, f, summ
        self.prog = eng.prog
        self.env: Dict[str, Set] = {}
        self.types = eng.types
        self.tenv = self.types.local_types(f)
        self.globals_decl: Set[str] = set()
        a = f.node.args
        self.param_names = [x.arg for x in a.posonlyargs + a.args + a.kwonlyargs]
        if a.vararg:
            self.param_names.append(a.vararg.arg)
        if a.kwarg:
            self.param_names.append(a.kwarg.arg)
        for i, p in enumerate(self.param_names):
            if i == 0 and f.kind == 'classmethod' and f.cls is not None:
                self.env[p] = {(('cls', f.cls.qualname), R(0))}
            else:
                self.env[p] = {(('p', i), R(0))}

    def loc(self, node):
        return f'{self.f.module.relpath}:{getattr(node, "lineno", self.f.node.lineno)}'

    # ------------------------------------------------------------------ run
    def run(self):
        body = self.f.body
        for _ in range(6):
            before = {k: len(v) for k, v in self.env.items()}
            nb = (len(self.s.effects), len(self.s.ret))
            self.block(body)
            after = {k: len(v) for k, v in self.env.items()}
            if before == after and nb == (len(self.s.effects), len(self.s.ret)):
                break

    def all_env(self) -> Val:
        out = set()
        for v in self.env.values():
            out |= set(deep(v))
        return frozenset(out)

    # ------------------------------------------------------------------ statements
    def block(self, body):
        for st in body:
            self.stmt(st)

    def bind(self, target, v):
        if isinstance(target, ast.Name):
            if target.id in self.globals_decl:
                self.effect_on(frozenset({(('g', f'{self.f.module.name}.{target.id}'), R(0))}), 'rebinds global', target, v)
            self.env.setdefault(target.id, set()).update(v)
        elif isinstance(target, (ast.Tuple, ast.List)):
            dv = deep(v)
            for e in target.elts:
                self.bind(e, dv)
        elif isinstance(target, ast.Starred):
            self.bind(target.value, v)
        elif isinstance(target, (ast.Attribute, ast.Subscript)):
            self.store(target, v, 'assigns')

    def store(self, target, v, what):
        base = self.val(target.value)
        if isinstance(target, ast.Subscript):
            self.val(target.slice)
        if isinstance(target.value, (ast.Name, ast.Attribute)) and not (
                isinstance(target.value, ast.Name) and target.value.id in self.env):
            r = self.prog.resolve_expr(self.f.module, target.value, None)
            if r and r[0] == 'class':
                base = frozenset(base | {(('cls', r[1].qualname), R(0))})
        t = src(target)
        self.effect_on(base, f'{what} `{t[:60]}`', target, v)
        self.add_content(target.value, v)

    def add_content(self, recv_expr, v, extra=0):
        """values v become reachable one link (+extra) below the object denoted by recv_expr: its base local gains content."""
        n = links(recv_expr) + extra
        b = recv_expr
        while isinstance(b, (ast.Attribute, ast.Subscript)):
            b = b.value
        if isinstance(b, ast.Name) and v:
            self.env.setdefault(b.id, set()).update(content(v, n))

    def effect_on(self, target_val, what, node, sources=frozenset(), chain=None):
        a = self.f.node.args if not isinstance(self.f.node, ast.Lambda) else None
        star = set()
        if a is not None:
            for x in (a.vararg, a.kwarg):
                if x is not None and x.arg in self.param_names:
                    star.add(self.param_names.index(x.arg))
        for root, lvl in target_val:
            if lvl[0] != 'R':
                continue
            if root[0] == 'p' and root[1] in star and lvl[1] == 0:
                continue        # the **kwargs dict / *args tuple itself is created by the call: changing it is not visible outside
            e = Effect(root, lvl[1], what, self.loc(node), self.f.qualname,
                       frozenset(sources), chain or (self.f.qualname,))
            self.s.effects.setdefault(e.key(), e)

    def stmt(self, st):
        if isinstance(st, ast.Assign):
            v = self.val(st.value)
            for t in st.targets:
                self.bind(t, v)
        elif isinstance(st, ast.AnnAssign):
            if st.value is not None:
                self.bind(st.target, self.val(st.value))
        elif isinstance(st, ast.AugAssign):
            v = self.val(st.value)
            if isinstance(st.target, ast.Name):
                cur = frozenset(self.env.get(st.target.id, set()))
                if st.target.id in self.globals_decl:
                    self.effect_on(frozenset({(('g', f'{self.f.module.name}.{st.target.id}'), R(0))}), 'updates global', st)
                ts = self.tenv.get(st.target.id, set())
                immut = bool(ts) and ts <= {'int', 'str', 'bool', 'float', 'tuple', 'none'}
                if not immut and not isinstance(st.value, (ast.Constant, ast.JoinedStr)) and \
                        isinstance(st.value, (ast.List, ast.Set, ast.Dict, ast.ListComp, ast.Name, ast.Call, ast.Attribute)) \
                        and ('list' in ts or 'set' in ts or 'dict' in ts):
                    self.effect_on(cur, f'in-place `{src(st)[:60]}`', st, v)
                self.env.setdefault(st.target.id, set()).update(content(v) if not immut else set())
            else:
                self.store(st.target, v, 'updates')
        elif isinstance(st, ast.Expr):
            self.val(st.value)
        elif isinstance(st, ast.Return):
            if st.value is not None:
                self.s.ret |= set(self.val(st.value))
        elif isinstance(st, ast.Raise):
            if st.exc is not None:
                self.val(st.exc)
        elif isinstance(st, ast.If):
            self.val(st.test)
            self.block(st.body)
            self.block(st.orelse)
        elif isinstance(st, (ast.For, ast.AsyncFor)):
            it = self.val(st.iter)
            self.bind(st.target, deep(it))
            self.block(st.body)
            self.block(st.orelse)
        elif isinstance(st, ast.While):
            self.val(st.test)
            self.block(st.body)
            self.block(st.orelse)
        elif isinstance(st, ast.Try):
            self.block(st.body)
            for h in st.handlers:
                self.block(h.body)
            self.block(st.orelse)
            self.block(st.finalbody)
        elif isinstance(st, (ast.With, ast.AsyncWith)):
            for it in st.items:
                v = self.val(it.context_expr)
                if it.optional_vars is not None:
                    self.bind(it.optional_vars, v)
            self.block(st.body)
        elif isinstance(st, ast.Delete):
            for t in st.targets:
                if isinstance(t, (ast.Attribute, ast.Subscript)):
                    self.store(t, frozenset(), 'deletes')
        elif isinstance(st, (ast.FunctionDef, ast.AsyncFunctionDef)):
            self.nested(st)
        elif isinstance(st, ast.Global):
            self.globals_decl.update(st.names)
        elif isinstance(st, ast.Assert):
            self.val(st.test)
        elif isinstance(st, (ast.Pass, ast.Break, ast.Continue, ast.Import, ast.ImportFrom, ast.Nonlocal, ast.ClassDef)):
            pass
        elif isinstance(st, ast.Match):
            raise AnalysisError(f'{self.loc(st)}: match statement not modelled')

    def nested(self, node):
        """A nested function / lambda: analysed in the closure environment, its own parameters bound to
        'anything the enclosing function can reach' (sound for calls through callable values)."""
        allv = self.all_env()
        a = node.args
        names = [x.arg for x in a.posonlyargs + a.args + a.kwonlyargs]
        if a.vararg:
            names.append(a.vararg.arg)
        if a.kwarg:
            names.append(a.kwarg.arg)
        saved = {n: self.env.get(n) for n in names}
        for n in names:
            self.env[n] = set(allv)
        ne = len(self.s.effects)
        if isinstance(node, ast.Lambda):
            self.val(node.body)
        else:
            self.block(node.body)
        for n, v in saved.items():
            if v is None:
                self.env.pop(n, None)
            else:
                self.env[n] = v

    # ------------------------------------------------------------------ expressions
    def val(self, node) -> Val:
        if node is None:
            return frozenset()
        if isinstance(node, ast.Constant):
            return frozenset()
        if isinstance(node, ast.Name):
            if node.id in self.env:
                return frozenset(self.env[node.id])
            r = self.prog.resolve_expr(self.f.module, node, None)
            if r:
                if r[0] == 'class':
                    if self.prog.is_enum(r[1]):
                        return frozenset()
                    return frozenset({(('cls', r[1].qualname), R(0))})
                if r[0] == 'assign':
                    q = self.eng.is_mutable_global(self.f.module, node.id)
                    if q:
                        return frozenset({(('g', q), R(0))})
            return frozenset()
        if isinstance(node, ast.Attribute):
            base = self.val(node.value)
            if node.attr == '__class__' and self.f.cls is not None:
                return frozenset({(('cls', self.f.cls.qualname), R(0))})
            return deep(base)
        if isinstance(node, ast.Subscript):
            base = self.val(node.value)
            self.val(node.slice)
            if isinstance(node.slice, ast.Slice):
                return recopy(base)
            return deep(base)
        if isinstance(node, ast.Slice):
            for x in (node.lower, node.upper, node.step):
                self.val(x)
            return frozenset()
        if isinstance(node, ast.Call):
            return self.call(node)
        if isinstance(node, (ast.List, ast.Tuple, ast.Set)):
            out = set()
            for e in node.elts:
                out |= set(content(self.val(e.value if isinstance(e, ast.Starred) else e)))
            return frozenset(out)
        if isinstance(node, ast.Dict):
            out = set()
            for k, v in zip(node.keys, node.values):
                if k is not None:
                    out |= set(content(self.val(k)))
                out |= set(content(self.val(v)))
            return frozenset(out)
        if isinstance(node, (ast.ListComp, ast.SetComp, ast.GeneratorExp, ast.DictComp)):
            for g in node.generators:
                self.bind(g.target, deep(self.val(g.iter)))
                for c in g.ifs:
                    self.val(c)
            if isinstance(node, ast.DictComp):
                return frozenset(content(self.val(node.key)) | content(self.val(node.value)))
            return content(self.val(node.elt))
        if isinstance(node, ast.BoolOp):
            out = set()
            for v in node.values:
                out |= set(self.val(v))
            return frozenset(out)
        if isinstance(node, ast.IfExp):
            self.val(node.test)
            return frozenset(self.val(node.body) | self.val(node.orelse))
        if isinstance(node, ast.BinOp):
            l, r = self.val(node.left), self.val(node.right)
            return frozenset(recopy(l) | recopy(r))
        if isinstance(node, ast.UnaryOp):
            self.val(node.operand)
            return frozenset()
        if isinstance(node, ast.Compare):
            self.val(node.left)
            for c in node.comparators:
                self.val(c)
            return frozenset()
        if isinstance(node, ast.JoinedStr):
            for v in node.values:
                if isinstance(v, ast.FormattedValue):
                    self.val(v.value)
            return frozenset()
        if isinstance(node, ast.FormattedValue):
            self.val(node.value)
            return frozenset()
        if isinstance(node, ast.Lambda):
            self.nested(node)
            return frozenset()
        if isinstance(node, ast.Starred):
            return self.val(node.value)
        if isinstance(node, ast.NamedExpr):
            v = self.val(node.value)
            self.bind(node.target, v)
            return v
        if isinstance(node, (ast.Await, ast.Yield, ast.YieldFrom)):
            return self.val(getattr(node, 'value', None))
        return frozenset()

    # ------------------------------------------------------------------ calls
    def call(self, node: ast.Call) -> Val:
        st = self.eng.stats
        st['calls'] += 1
        argv = [self.val(a) for a in node.args]
        kwv = {k.arg: self.val(k.value) for k in node.keywords}
        allargs = frozenset().union(*argv, *kwv.values()) if (argv or kwv) else frozenset()
        recv = self.val(node.func.value) if isinstance(node.func, ast.Attribute) else frozenset()
        targets = self.types.resolve_call(node, self.f, self.tenv)
        out = set()
        kinds = {t[0] for t in targets}
        if 'func' in kinds or 'class' in kinds:
            cha = any(t[0] == 'method-builtin' and t[2] is None for t in targets)
            st['cha' if cha else 'typed'] += 1
        for t in targets:
            k = t[0]
            if k == 'func':
                out |= set(self.apply(node, t[1], recv, argv, kwv))
            elif k == 'class':
                out |= set(self.construct(node, t[1], argv, kwv))
            elif k == 'builtin':
                st['builtin'] += 1
                name = (t[2] if len(t) > 2 else '') or ''
                tail = name.rpartition('.')[2]
                if tail in COPY_BUILTINS or name in ('copy.copy',):
                    out |= set(recopy(allargs))
                elif name == 'copy.deepcopy':
                    self.copy_protocol(node, '__deepcopy__', argv)
                elif tail in DEEP_BUILTINS:
                    out |= set(deep(allargs))
                elif tail == 'setattr' and node.args:
                    self.effect_on(argv[0], f'setattr `{src(node)[:60]}`', node, allargs)
                    self.add_content(node.args[0], allargs)
                elif tail == 'delattr' and node.args:
                    self.effect_on(argv[0], f'delattr `{src(node)[:60]}`', node)
                elif tail == 'print':
                    self.s.io.setdefault(self.loc(node), 'print')
                elif tail == 'open':
                    self.s.io.setdefault(self.loc(node), f'open {src(node)[:50]}')
            elif k == 'method-builtin':
                name, rt = t[1], t[2]
                if name in MUTATORS and not (name == 'get'):
                    if rt == 'file' or (name in IO_METHODS and rt is None and not recv):
                        self.s.io.setdefault(self.loc(node), f'{name} on file')
                    if rt not in ('str', 'int', 'bool', 'float', 'tuple', 'path', 'range'):
                        self.effect_on(recv, f'{name}() on `{src(node.func.value)[:50]}`', node, allargs)
                        self.add_content(node.func.value, allargs)
                if name == 'get' and rt == 'queue':
                    self.effect_on(recv, f'get() on queue `{src(node.func.value)[:50]}`', node)
                if name in READ_THROUGH:
                    out |= set(deep(recv))
                elif name in COPYING:
                    out |= set(recopy(recv) | recopy(allargs))
                elif name in MUTATORS or name in PURE_METHODS:
                    pass
                elif rt is None:
                    if not any(x[0] == 'func' for x in targets):
                        self.s.unresolved.setdefault(self.loc(node), src(node.func)[:60])
                        st['unresolved'] += 1
                else:
                    # method of a known builtin type that is not modelled: treat as pure read
                    out |= set(deep(recv))
            elif k == 'external':
                st['external'] += 1
                name = t[1]
                if name in ('copy.copy',):
                    out |= set(recopy(deep(allargs)) | recopy(allargs))
                    self.copy_protocol(node, '__copy__', argv)
                elif name == 'copy.deepcopy':
                    self.copy_protocol(node, '__deepcopy__', argv)
                elif any(name.startswith(p) for p in IO_EXTERNALS) or name in IO_EXTERNALS:
                    self.s.io.setdefault(self.loc(node), name)
                elif any(name.startswith(p) for p in PURE_EXTERNALS_PREFIX) or name.split('.')[0] in (
                        'Path', 'Enum', 'ABC', 'str', 'int', 'Exception', 'ValueError', 'TypeError', 'NotImplementedError',
                        'ConsoleErrorListener', 'object'):
                    out |= set(content(allargs))
                else:
                    self.s.ext.setdefault(self.loc(node), name)
            elif k == 'callable-value':
                st['callable_value'] += 1
                if not self.eng.callable_values_pure:
                    self.effect_on(deep(allargs), f'call through callable value `{src(node.func)[:40]}`', node)
                out |= set(deep(allargs))
            elif k == 'unresolved':
                name = t[1]
                if name in ('Exception', 'ValueError', 'TypeError', 'NotImplementedError', 'KeyError', 'IndexError',
                            'RuntimeError', 'StopIteration', 'AttributeError', 'super', 'object'):
                    continue
                st['unresolved'] += 1
                self.s.unresolved.setdefault(self.loc(node), name)
        if out:
            rts = self.types.call_types(node, self.f, self.tenv)
            if rts and rts <= IMMUTABLE_TAGS:
                return frozenset()
        return frozenset(out)

    def copy_protocol(self, node, dunder, argv):
        """copy.copy / copy.deepcopy call the class's __copy__ / __deepcopy__ when the argument may be a kernpy object."""
        if not node.args or not argv:
            return
        ts = self.types.expr_types(node.args[0], self.f, self.tenv)
        classes = [t for t in ts if isinstance(t, ClassInfo)]
        containers_of_args = bool(ts) and all(not isinstance(t, ClassInfo) for t in ts) and \
            not any(r[0] == 'p' for r, _ in argv[0])
        if containers_of_args:
            return
        for c in self.prog.classes.values():
            if c.module.generated or c.module.legacy or dunder not in c.methods:
                continue
            if classes and not any(self.prog.is_subclass(c, k) or self.prog.is_subclass(k, c) for k in classes) \
                    and dunder == '__copy__':
                continue
            self.apply(node, c.methods[dunder], deep(argv[0]) | argv[0], [], {})

    def construct(self, node, ci: ClassInfo, argv, kwv) -> Val:
        init = self.prog.find_method(ci, '__init__')
        allargs = frozenset().union(*argv, *kwv.values()) if (argv or kwv) else frozenset()
        if init is not None:
            self.apply(node, init, frozenset(), argv, kwv, constructing=True)
        return content(allargs)

    def apply(self, node, target: FuncInfo, recv: Val, argv, kwv, constructing=False) -> Val:
        summ = self.eng.summary(target)
        self.s.callees.add(id(target.node))
        a = target.node.args
        formals = [x.arg for x in a.posonlyargs + a.args]
        kwonly = [x.arg for x in a.kwonlyargs]
        allnames = formals + kwonly
        if a.vararg:
            allnames.append(a.vararg.arg)
        if a.kwarg:
            allnames.append(a.kwarg.arg)
        actual: Dict[int, Val] = {}
        shift = 0
        if target.kind in ('method', 'property', 'setter') and target.cls is not None:
            via_class = isinstance(node.func, ast.Attribute) and any(
                r == 'cls' for (r, _), _ in [(x, 0) for x in recv]) and not constructing and False
            actual[0] = recv if not constructing else frozenset()
            shift = 1
            # explicit unbound call Class.method(obj, ...): receiver is the class object
            if isinstance(node.func, ast.Attribute) and not constructing:
                r = self.prog.resolve_expr(self.f.module, node.func.value, None) \
                    if isinstance(node.func.value, (ast.Name, ast.Attribute)) and not (
                        isinstance(node.func.value, ast.Name) and node.func.value.id in self.env) else None
                if r and r[0] == 'class':
                    shift = 0
                    actual.pop(0, None)
        elif target.kind == 'classmethod':
            actual[0] = frozenset()
            shift = 1
        for i, v in enumerate(argv):
            j = i + shift
            if j < len(formals):
                actual[j] = frozenset(actual.get(j, frozenset()) | v)
            elif a.vararg:
                j = allnames.index(a.vararg.arg)
                actual[j] = frozenset(actual.get(j, frozenset()) | content(v))
        for kname, v in kwv.items():
            if kname is None:
                # **mapping: may feed any keyword parameter
                for j, nm in enumerate(allnames):
                    if j >= shift:
                        actual[j] = frozenset(actual.get(j, frozenset()) | deep(v))
            elif kname in allnames:
                j = allnames.index(kname)
                actual[j] = frozenset(actual.get(j, frozenset()) | v)
            elif a.kwarg:
                j = allnames.index(a.kwarg.arg)
                actual[j] = frozenset(actual.get(j, frozenset()) | content(v))
        # effects
        for e in list(summ.effects.values()):
            mapped_sources = set()
            for sr, sl in e.sources:
                if sr[0] == 'p':
                    mapped_sources |= compose(actual.get(sr[1], frozenset()), sl)
                else:
                    mapped_sources.add((sr, sl))
            mapped_sources = frozenset(mapped_sources)
            if e.root[0] == 'p':
                av = actual.get(e.root[1], frozenset())
                n = e.depth
                for root, al in av:
                    if al[0] == 'R':
                        d = min(al[1] + n, CAP)
                    elif n >= al[1]:
                        d = CAP
                    else:
                        continue
                    ne = Effect(root, d, e.what, e.loc, e.func, mapped_sources, (self.f.qualname,) + e.chain)
                    self.s.effects.setdefault(ne.key(), ne)
                if mapped_sources:
                    expr = self._actual_expr(node, target, e.root[1], shift, allnames)
                    if expr is not None:
                        self.add_content(expr, mapped_sources, n)
            else:
                ne = Effect(e.root, e.depth, e.what, e.loc, e.func, mapped_sources, (self.f.qualname,) + e.chain)
                self.s.effects.setdefault(ne.key(), ne)
        for k, v in summ.io.items():
            self.s.io.setdefault(k, v)
        for k, v in summ.ext.items():
            self.s.ext.setdefault(k, v)
        for k, v in summ.unresolved.items():
            self.s.unresolved.setdefault(k, v)
        # return value
        out = set()
        for root, lvl in summ.ret:
            if root[0] == 'p':
                out |= compose(actual.get(root[1], frozenset()), lvl)
            else:
                out.add((root, lvl))
        return frozenset(out)

    def _actual_expr(self, node, target, j, shift, allnames):
        if j == 0 and shift == 1 and isinstance(node.func, ast.Attribute):
            return node.func.value
        i = j - shift
        if 0 <= i < len(node.args):
            return node.args[i]
        nm = allnames[j] if j < len(allnames) else None
        for k in node.keywords:
            if k.arg == nm:
                return k.value
        return None
