"""Per-property claim metadata (what MANIFEST.json states). Kept next to the rules so that a rule change and its claim change together."""
CHECKS = {}
NOT_APPLICABLE = {}

CHECKS['C09'] = dict(
    category='proof',
    technique='constant-table evaluation against an independent letter/semitone model + affine normal forms + call-chain origin check',
    text='All obligations are finite and enumerated completely on every run: 39 chroma entries and 40 interval entries against an '
         'independent model, inverse tables, the affine form of get_chroma, the (mod, div, sign) structure of to_transposed for both '
         'directions, and the delegation chain of transpose. Together they imply the statement for every pitch/interval/direction.',
    note='Trusted: Python int arithmetic and dict lookup, the kpsa constant evaluator / affine normaliser. Not decided here: the string codec (C16).',
)
