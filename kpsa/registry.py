"""Per-property claim metadata (what MANIFEST.json states). Kept next to the rules so that a rule change and its claim change together."""
CHECKS = {}
NOT_APPLICABLE = {}

CHECKS['C09'] = dict(
    category='proof',
    technique='constant-table evaluation against an independent letter/semitone model + affine normal forms + call-chain origin check',
    text='All obligations are finite and enumerated completely on every run: 39 chroma entries and 40 interval entries against an '
         'independent model, inverse tables, the affine form of get_chroma, the (mod, div, sign) structure of to_transposed for both '
         'directions, and the delegation chain of transpose. Together they imply the statement for every pitch/interval/direction.',
    note='Trusted: Python int arithmetic and dict lookup, the kpsa constant evaluator / affine normaliser. Not decided here: the string codec (C16).',
)

CHECKS['C11'] = dict(
    category='other',
    technique='constant evaluation of the hierarchy literal vs enum and README tree; root-lookup dataflow (deep-locator rule); set-algebra shape of valid/match; facade argument binding',
    text='Decides, for all categories at once, that the hierarchy literal is a forest over exactly the enum members, equals the documented '
         'tree, that no query reachable from the public API looks a caller-supplied category up at the root level only, that the recursive '
         'helpers visit every child, and that valid/match/is_child have the closure(include) - closure(exclude) / reflexive shapes.',
    note='Decides necessary structural clauses, not full functional correctness of the recursive helpers on all include/exclude pairs. '
         'Trusted: CPython set/dict semantics, README parser (box-drawing block).',
)

CHECKS['C18'] = dict(
    category='other',
    technique='sibling cross-check on facts extracted by symbolic path enumeration (catch-all, accepted set closure, polarity/identity, fallback category) + dispatch-table extraction + grammar start-rule anchoring',
    text='Decides the dispatch rule of the six non-kern importers for every cell text: the kern parse is wrapped in a catch-all, the accepted '
         'set (closed under the hierarchy) contains the shared structure and no note material, accepted tokens are returned as produced, '
         'all others become SimpleToken(raw cell, OWN) with one OWN per importer, all siblings agree on the polarity, createImporter maps '
         'each supported header to its importer. Whole-cell consumption (F3) is reported as a known finding.',
    note='The generated ALL(*) parser is not analysed: which texts parse as kern tokens is outside this check. Trusted: the frozen table of own '
         'categories per spine type (text=LYRICS, dynam/dyn=DYNAMICS, harm=HARMONY, mxhm=HARMONY|MHXM, fing=FINGERING, unknown=OTHER).',
)

CHECKS['C14'] = dict(
    category='other',
    technique='interprocedural effect (mutation) analysis over a typed call graph with fresh-object nesting levels; lemmas on dunder methods, property getters and callable values',
    text='For each of the ~60 read-only entry points (export/query API, category algebra, pitch helpers) the analysis shows that no function reachable from it writes to anything reachable from '
         'an argument (document, self, caller-supplied option lists), from a module-level mutable or from a class attribute; file output '
         'only where the API promises it. Because there is no write at all, the result holds for every document, option set and call '
         'history, including calls that raise half-way.',
    note='Decides the mutation clause. Not decided: indistinguishability of two imports through outputs that print identities (graph). '
         'Trusted: CPython semantics of stores and of the mutating methods of built-in containers; return annotations `-> str/int/bool` '
         '(values of those types carry no aliases); calls that the typed resolution cannot resolve fall back to class-hierarchy analysis '
         'on the method name, an unresolved call on an analysed path ends the run with exit 2.',
)

CHECKS['C16'] = dict(
    category='other',
    technique='effect analysis on the codec entry points + affine inverse-map check of the octave codec + character-map extraction for the accidental alphabets',
    text='Decides that export_pitch/import_pitch never write through their argument, that importer and exporter octave formulas are inverse '
         'affine maps with one threshold and agreeing constants, and that the accidental alphabets are inverse character maps, for every '
         'spelling with homogeneous accidentals.',
    note='Trusted: Python str semantics (replace, join, lower/upper, repetition). Mixed accidental runs are outside the quantified domain.',
)

CHECKS['C15'] = dict(
    category='other',
    technique='effect analysis of Document.to_transposed (write to the source through the shallow clone) + call-argument origin check of the transpose delegation + class-coverage of the isinstance dispatch read from the listener',
    text='Decides the structural clauses of C15: no write to the source (today violated: known finding F10), interval/direction delegation '
         'to transposer.transpose with Humdrum formats, carry-over of non-pitch sub-tokens and signifiers, ValueError validation before any '
         'work, coverage of every pitch-bearing token class (ChordToken missing: F11a) and participation of the accidental (F11b).',
    note='The arithmetic is C09 + C16. Not decided: grid equality on all documents. The three known findings are the classes the property text itself tracks.',
)

CHECKS['C12'] = dict(
    category='other',
    technique='must-reset-before-use path rule on the error collector (typestate), path counting in the failure handler of Importer.run, origin checks of the ErrorToken arguments, grammar start-rule anchoring',
    text='Decides the mechanism clauses for every document: the error state that decides a cell is per-call (history independence), the '
         'token-building listener is per-call, the failure handler builds exactly one ErrorToken(raw cell, row, message), records it once '
         'and keeps it as the node token, ErrorToken stores and exports the cell verbatim, both ANTLR sinks collect and the parser bails '
         'out. Whole-cell consumption (F3) is a known finding.',
    note='Not decided: which texts the generated parser rejects, hence the exact error count. The ANTLR runtime is trusted to notify the '
         'registered listener and to honour BailErrorStrategy.',
)

CHECKS['C02'] = dict(
    category='other',
    technique='csv dialect check at every reader call; all-paths-raise rule on the surplus-cell guards; per-path occurrence counting of add_node / continuation pushes (helpers summarised); guard truth table of the *v join; origin (provenance) check of every add_node argument',
    text='Decides the propagation mechanism of the importer for every layout: literal tab-separated cells, surplus cells always raise, exactly one '
         'node per cell on every path, node coordinates taken from the parent of the same column, spine-operator arity table (0/2/2/guarded 1/raise), '
         'stage counter once per non-empty row, add_node/Node bookkeeping.',
    note='Not decided: equality of the whole tree with an independent spine-path model. Trusted: csv.reader dialect semantics, CPython list semantics.',
)

CHECKS['C06'] = dict(
    category='other',
    technique='guard truth table of the spine gate over canonical atoms (symbolic path enumeration of append_row) with per-path append counting; origin check of header propagation in the importer; derivation check of the spine-type query',
    text='Decides, for every node and option set, that append_row exports a node iff its header identity is known and selected by type and id, '
         'appends nothing for an unselected spine and exactly one cell otherwise, depends on nothing else, that every node of every exported '
         'stage is offered to it in order, that header identity propagates parent -> child in the importer, and that the spine-type query is '
         'the first line of a HEADER-only export with the same selection.',
    note='Not decided: the projection equality on all split/join layouts; the excerpt preamble (from_measure) bypasses append_row (C08.R4, known finding F16).',
)

CHECKS['C05'] = dict(
    category='other',
    technique='origin check of the selected set; descendant-closure proof (constant evaluation) of every category set that reaches ExportOptions; guard truth table of the category gate; placeholder/null-row table agreement; per-element filter shape in the token exporters and tokenizers',
    text='Decides the mechanism clauses: the selected set is valid(include, exclude) with unswapped origins and cannot be overwritten; every '
         'category set handed to the exporter by API or CLI is descendant-closed; the category gate is `not hidden and (complex or category '
         'selected)` with the right placeholder; placeholders and null-row tables agree; every sub-token of every list goes through the '
         'membership predicate in all six tokenizers.',
    note='Not decided: equality with the reference filter on whole documents. C11 decides that valid is closure(include) - closure(exclude).',
)

CHECKS['C07'] = dict(
    category='other',
    technique='region enumeration of difference-bound guards (validator, range-to-stage if-tree) with affine normal forms of the selected expressions; guard truth table of the measure-start flag; path/placement rule for the index append; iteration protocol shape',
    text='Decides for every document: the validator rejects exactly the three out-of-range cases with ValueError and runs first; the upper stage '
         'bound is index[b] on the whole region 1 <= b <= L-1 and the last stage otherwise, the lower bound index[a-1] / 0, the loop includes '
         'the closing barline; the measure index gets one entry per row under `BARLINES or (CORE and index empty)`; iteration yields 1..count.',
    note='Regions are enumerated with a representative measure count (the guards compare b with L+c, a with 0 and b with a only: anything '
         'else is outside the fragment and ends with exit 2). Not decided: whether the barlines found are the intended measure boundaries.',
)

CHECKS['C04'] = dict(
    category='other',
    technique='origin check plain = strip(extended) with a character-absence abstract domain; truncation-site rule (note-by-note removal); dispatch-table extraction for Encoding.prefix and TokenizerFactory.create; sibling agreement of the export predicates',
    text='Decides for every token and option set: each plain tokenizer is its extended counterpart (same configuration) with only the two '
         'separator characters deleted (an omitted deletion is justified by a proof that the counterpart never returns the character); the basic '
         'encoding removes signifiers per chord note; headers are ** + prefix + type with prefix+kern == value for the six members; the factory '
         'is exhaustive; chord export covers all notes and forwards the options; non-note export is verbatim.',
    note='Not decided: cells whose own text contains the separator characters. Trusted: Python str.replace/split/join semantics.',
)

CHECKS['C20'] = dict(
    category='other',
    technique='writer/reader agreement checks (csv dialect, record splitting, text encoding at every open site); sibling comparison on extracted facts (dump/dumps option maps, read/create, the two CLI handlers through a correspondence table); origin checks of store/_write/converters',
    text='Decides the plumbing clauses for every text and option set: both readers split records and cells identically, every open() names the '
         'reader\'s encoding, dump and dumps build the same options and store writes exactly the export once after creating directories, '
         'load/loads are sibling functions, the two CLI handlers are mirror images that call the API converters once per input, the converter '
         'exports with a closed category set in the extended encoding, get_kern_from_ekern undoes exactly the header prefix and the separators.',
    note='Not decided: byte equality on all texts; the ekern -> kern -> ekern round trip (C01). Trusted: csv/io/open semantics, pathlib glob/rglob.',
)

CHECKS['C17'] = dict(
    category='other',
    technique='work-list discipline rule (LIFO + reversed children, visit-before-push) on the traversal loop; visitor guards as truth tables with per-path append sets; sibling comparison of the derived queries on symbolic return values; monophony truth table',
    text='Decides for every tree: the traversal is pre-order depth-first left-to-right with one visit per node; the token visitor lists a token iff '
         '`token and (not unique or not seen) and category in filter` and records encodings exactly when unique; all/unique listings differ only '
         'in the flag and close the filter with valid(include=...); encodings, frequencies, header and spine-id queries are derived from them '
         '(one count per listed token); the comment query keeps order and filters by key prefix; is_monophonic has the stated truth table.',
    note='Not decided: the listing order through arbitrary split/join trees (needs C02 as well). Trusted: list.pop/extend/reversed semantics.',
)

CHECKS['C01'] = dict(
    category='other',
    technique='order-taint dataflow to every str.join of NoteRestToken.export; who-may-write + dominance rule on the listener\'s decoration list; sort-key evaluation on FIRST sets read from the ANTLR grammar (grammar model); separator/placeholder table agreement',
    text='Decides necessary structural conditions of idempotent, canonical normalisation: every joined sub-token sequence is sorted by a key of the '
         'element only (total on signifiers), the decoration list is de-duplicated by a dominating guard and reset per cell, the exported order '
         'agrees with the grammar order (category ranks; no reordering inside DURATION, evaluated on the grammar\'s FIRST sets), the plain '
         'encoding and get_kern_from_ekern erase exactly the separators, placeholder and null-row tables agree.',
    note='Claims these clauses only - NOT the fixed-point behaviour itself: the generated ALL(*) parser is not analysed, so import(export(x)) == x '
         'on all documents is not decided by this family.',
)

CHECKS['C03'] = dict(
    category='other',
    technique='grammar model (least fixpoint "every derivation assigns a token"; child-rule coverage of the note/rest/duration/chord handlers; handler-overrides-generated-listener), origin checks of verbatim encodings, no-drop dataflow to the joins, grid assembly shape, start-rule anchoring',
    text='Decides necessary structural conditions of conservation: the listener assigns a token on every derivation of every field alternative and '
         'every handler is really called; every component the grammar allows under note/rest/duration/chord is captured into a sub-token; non-note '
         'tokens keep ctx.getText() / the raw cell and export it verbatim; the note export joins every filtered sub-token with its encoding '
         'unchanged; rows and cells are assembled in order. Whole-cell consumption (F3) is a known finding.',
    note='Claims these clauses only - NOT cell-for-cell equality of export and source: the generated parser is not analysed.',
)

CHECKS['C10'] = dict(
    category='other',
    technique='constant tables; affine normal form of compute_position; writer/reader codec agreement by parity case-split enumeration of the extracted integer expressions; sibling agreement with HumdrumPitchExporter; grammar alphabet vs importer alphabet on the conversion path; non-interference of the clef octave marks; writer/reader key agreement for the clef in force',
    text='Decides, relative to the bottom-line constants: the staff position is an affine translation with coefficient 1 per diatonic step and 7 per '
         'octave, accidentals do not move it; T@n/S@n writer and reader are inverse up to the constant 2 for both parities and signs; steps map '
         'to kern letters exactly like the Humdrum exporter; bottom line -> e, identity under G2; the conversion input contains only characters '
         'the pitch importer understands and the accidental text reaches the output; octave marks do not change the clef; the clef in force is '
         'read under the key the importer writes.',
    note='Integer expressions extracted from line()/space()/is_line()/gkern_to_g_clef_pitch are evaluated by the checker over -30..30 (two full '
         'periods of the mod-2 / mod-7 structure in both signs); repository code is never executed. Not decided: musical truth of the bottom-line constants.',
)

CHECKS['C08'] = dict(
    category='other',
    technique='origin checks of the signature-context plumbing (clone-on-create, update-on-signature, per-node lookup); guard truth table and affine form of the terminator synthesis; who-emits-cells rule (one spine predicate) on the excerpt preamble',
    text='Decides ONLY the plumbing clauses without which an excerpt cannot carry its context: each node stores a clone of the inherited signature '
         'context (the clone copies the dict), the importer updates it for signature tokens, the preamble reads it per node of from_stage, one '
         'terminator row of affine length is synthesised under the stated guard, options are validated first, and every cell-emitting site of '
         'export_string uses append_row\'s spine predicate (today violated by the preamble: known finding F16).',
    note='Weak claim by design: header-first, consistent cell counts, terminated spines, error-free re-import and equivalent governing signatures of '
         'excerpts are NOT decided by this family (they depend on the whole tree history and on is_signature_cancelled).',
)

CHECKS['C13'] = dict(
    category='other',
    technique='option-field partition: guard truth tables of append_row over canonical atoms (unknown atom = dependence violation), per-method read/write sets of option fields, placement of the null-row test; field-by-field constant evaluation of ExportOptions() vs ExportOptions.default(); None-skip and option-map checks',
    text='Decides the structural clauses of independence for every cell and option set: each gate and the tokenizer choice depend only on their own '
         'option fields, no option is assigned on the export path, null rows are suppressed after all gates without reading options; and explicit '
         'default == omitted: None-defaults in dump/dumps, None skipped, ExportOptions() and default() agree on all eight fields.',
    note='Weak claim by design: commutation of the three text transformations on whole documents is NOT decided by this family.',
)

CHECKS['C19'] = dict(
    category='other',
    technique='symbolic execution of one iteration of the fragment loop of Generic.concat with loop-carried variables as symbols; origin and affine checks of the (low, high) bookkeeping',
    text='Decides the bookkeeping clauses for every fragment list: one unconditional path per fragment, prefix text = previous + separator + fragment, '
         'one pair per fragment with high = measure count of the prefix import, next low = high + 1, first low = 0, the returned document is the '
         'import of the full text, separator=None is a newline, the public wrapper forwards unchanged.',
    note='Weak claim by design: that exporting pair i reproduces fragment i is NOT decided (needs C07 on every prefix document).',
)


# ---- rules added in the third build round (shared across sibling properties, or new); appended to the claim text of each check
_ROUND3 = {
    'C01': 'Also decided: every token reaches the text through the tokenizer of the requested encoding (no raw-text bypass: C04.R4/R5 run here as '
           'R8), the duration figure sub-token carries the grammar text unchanged (R3), and the signifier sort key has the encoding itself as a '
           'component.',
    'C02': 'Also decided: the string and the file reader iterate the text itself, nothing strips or repairs a record before it is split (C20.R1 as R7); '
           'stage and row counters are decided per path through one turn of the row loop.',
    'C03': 'Also decided: per cell, what is written depends on the spine and category selection only (the gate rules of C05/C06/C13 as R10); the '
           'duration figure is kept as written.',
    'C04': 'Also decided: an export writes nothing to the document (effect analysis from dumps as R8), so the next encoding sees the same document.',
    'C07': 'Also decided: an export leaves nothing behind (no cached rows, no state) for the export of another range (effect analysis as R5).',
    'C08': 'Also decided: the stage arithmetic the excerpt and the signature search share (C07.R2 as R9); recording a signature stores one entry and '
           'removes none.',
    'C09': 'Also decided here since round 3: the Humdrum spelling codec transpose() reads and writes with is an exact inverse pair (C16.R2/R3 as R5).',
    'C10': 'Also decided: the conversion callback reaches every note of a chord (C04.R6 as R8); the clef context only records.',
    'C12': 'Also decided: records reach the importer as written (C20.R1 as R9).',
    'C13': 'Also decided: the basic encodings are the extended ones with the separators removed, note by note, for every selection (C04.R1/R3 as R4).',
    'C14': 'Also decided: no set built on a read-only path is iterated to produce a sequence (its order depends on identities / hash seeds, R3); no '
           'object keeps a one-shot iterator in its state (R2).',
    'C15': 'Also decided: AgnosticPitch.to_transposed moves up exactly when the direction equals "up" (C09.R3 as R7).',
    'C16': 'Also decided: import_pitch returns a pitch constructed by the call; no pitch object keeps a one-shot iterator.',
    'C17': 'Also decided: every listing frequencies takes forwards its filter; is_monophonic lists CHORD / NOTE_REST only.',
    'C18': 'Also decided: nodes(c) is computed afresh from the hierarchy (C11.R5 as R9); a plain-membership accepted set must list its descendants.',
    'C19': 'Also decided: a path of concat that does not run the fragment loop still returns (document, pairs).',
}
for _k, _v in _ROUND3.items():
    if _k in CHECKS:
        CHECKS[_k]['text'] = CHECKS[_k]['text'].rstrip() + ' ' + _v


# ---- rules added in the fourth round (build session 3)
_ROUND4 = {
    'C01': 'Round 4: what the listener captures of a note / rest is what is exported (C03.R2 as R9, the BarToken constructor included).',
    'C02': 'Round 4: no token class and no step of Importer.run rewrites the text of a cell (R8); a global comment is one node (R9); the text handed '
           'to the line reader is the caller\'s (R7).',
    'C03': 'Round 4: signifiers are dropped only by equality de-duplication (C01.R2 as R11); token constructors and record cells keep the text as '
           'written; the stage loop runs to its last stage.',
    'C04': 'Round 4: writer / reader agreement on the decoration separator (R3 separator-marks-signifiers); no exported note text is filtered out '
           'of a chord.',
    'C05': 'Round 4: what is left after the filter keeps the canonical order (C01.R1 as R7), every cell of every line goes through the gate (R8), every '
           'note of a chord keeps its place (R9).',
    'C06': 'Round 4: the options the caller gave reach the exporter unchanged (C14.R2 as R6).',
    'C07': 'Round 4: the stage loop is never left early; the measure index only grows (no entry rewritten).',
    'C08': 'Round 4: preamble cells come from the spines alive at from_stage (R10); get_last_spine_operator truth table (R11); who may write a '
           'signature context (R1).',
    'C09': 'Round 4: tables generated by pure functions are computed by the checker\'s own interpreter and checked like literal tables.',
    'C10': 'Round 4: which sub-spine a join continues (C02.R3/R5 as R9) and per-node copies of the signature context (R6) decide the clef in force.',
    'C12': 'Round 4: no constructor in the chain of ErrorToken can raise; cells reach the importer as written.',
    'C14': 'Round 4: no mutable default value is kept, changed or handed out (R4).',
    'C15': 'Round 4: exports leave nothing on the nodes shared with the source (R8); a walk over the stage table takes every node (R6).',
    'C16': 'Round 4: the accidentals text is computed for every name the name setter accepts (up to three sharps / flats), not only for the table.',
    'C18': 'Round 4: accepted categories beyond the shared structure that the kern listener builds from the matched prefix (R2); the line reader and '
           'token constructors keep the cell text (R10); no unpacked split outside the catch-all (R1).',
    'C19': 'Round 4: the measure index only grows, so prefix counts agree with the index of the whole text.',
    'C20': 'Round 4: dump written as dumps + write is followed (R3); conversions leave nothing behind for the next file (R7).',
}
for _k, _v in _ROUND4.items():
    if _k in CHECKS:
        CHECKS[_k]['text'] = CHECKS[_k]['text'].rstrip() + ' ' + _v


# ---- rules added in the fifth round
_ROUND5 = {
    'C01': 'Round 5: the line reader does not interpret quotes (C02.R1 as R10); every selected spine contributes one cell to every row (gate truth tables as R11).',
    'C03': 'Round 5: spine-operator arity (C02.R3/R5 as R12); the listener hides barlines only.',
    'C09': 'Round 5: the American spelling reader is evaluated by the interpreter on its whole domain (630 spellings, R6).',
    'C10': 'Round 5: every tokenizer receives the same category set (C04.R5 as R10).',
    'C12': 'Round 5: no importer-lifetime object other than the reset error collector is plugged into the per-call parser (R1).',
    'C13': 'Round 5: the selection is closure(include) - closure(exclude) (C11.R5 as R5).',
    'C15': 'Round 5: the kern pitch codec is an inverse pair (C16.R2 as R9); the export gate does not depend on the token text (R10).',
    'C17': 'Round 5: the class tested by the comment visitor has no subclass (R2).',
    'C18': 'Round 5: a row opens a measure whatever the spine type (C07.R3 as R11); no class test on the parsed token before the category test (R3).',
    'C19': 'Round 5: the validator accepts every pair concat hands out (C07.R1 as R3).',
}
for _k, _v in _ROUND5.items():
    if _k in CHECKS:
        CHECKS[_k]['text'] = CHECKS[_k]['text'].rstrip() + ' ' + _v


# ---- rules added in the sixth round
_ROUND6 = {
    'C01': 'Round 6: DURATION sub-tokens are built by the duration rule only; nothing but the category predicate filters a sub-token list (R12).',
    'C03': 'Round 6: the token of a cell comes from the importer of its own spine (C18.R7 as R13).',
    'C05': 'Round 6: composed sub-token filters (R5 subtoken-extra-filter).',
    'C06': 'Round 6: the caller\'s selection is only read (R7); HEADERS holds every header the importer dispatches on (R8).',
    'C07': 'Round 6: copied nodes keep their stage; no identity comparison of numbers in the range arithmetic.',
    'C09': 'Round 6: no memoised function returns a mutable pitch (R4).',
    'C11': 'Round 6: valid does not filter the closure difference again (R5); no shared mutable default (R6).',
    'C12': 'Round 6: the importers of note spines (**kern, **root) let parse errors out (R3).',
    'C14': 'Round 6: every token is built by the call that imports its cell (R5); an in-place sort of an aliased list is an effect.',
    'C17': 'Round 6: token queries leave nothing behind (R6); monophony counts the **kern spines (R5).',
    'C20': 'Round 6: makedirs only when the path has a directory part (R3).',
}
for _k, _v in _ROUND6.items():
    if _k in CHECKS:
        CHECKS[_k]['text'] = CHECKS[_k]['text'].rstrip() + ' ' + _v
