"""Program model: loader, scopes, import resolution, class table (no repo code is executed)."""
from __future__ import annotations

import ast
import os
from typing import Dict, List, Optional, Tuple

from .errors import AnalysisError

PKG = 'kernpy'
GENERATED_DIR = 'kernpy/core/generated/'
LEGACY = {'kernpy/core/import_humdrum_old.py'}


class Module:
    def __init__(self, name: str, relpath: str, src: str, is_pkg: bool):
        self.name = name
        self.relpath = relpath
        self.src = src
        self.is_pkg = is_pkg
        try:
            self.tree = ast.parse(src, filename=relpath)
        except SyntaxError as e:  # a tree that does not compile is not a verdict about a property
            raise AnalysisError(f'{relpath}: does not parse: {e}')
        self.generated = relpath.startswith(GENERATED_DIR)
        self.legacy = relpath in LEGACY
        self.scope: Dict[str, list] = {}      # name -> list of bindings in order of appearance
        self.star_imports: List[str] = []
        self._parents = None

    def parent(self, node):
        if self._parents is None:
            self._parents = {}
            for n in ast.walk(self.tree):
                for c in ast.iter_child_nodes(n):
                    self._parents[id(c)] = n
        return self._parents.get(id(node))

    @property
    def package(self) -> str:
        return self.name if self.is_pkg else self.name.rpartition('.')[0]

    def __repr__(self):
        return f'<Module {self.name}>'


class FuncInfo:
    def __init__(self, module: Module, node, cls: Optional['ClassInfo'], outer: Optional['FuncInfo'] = None):
        self.module = module
        self.node = node
        self.cls = cls
        self.outer = outer
        self.name = node.name if not isinstance(node, ast.Lambda) else f'<lambda:{node.lineno}>'
        self.kind = 'function' if (cls is None or outer is not None) else 'method'
        self.decorators = []
        if not isinstance(node, ast.Lambda):
            for d in node.decorator_list:
                s = ast.unparse(d)
                self.decorators.append(s)
                if s == 'classmethod':
                    self.kind = 'classmethod'
                elif s == 'staticmethod':
                    self.kind = 'staticmethod'
                elif s == 'property':
                    self.kind = 'property'
                elif s.endswith('.setter'):
                    self.kind = 'setter'
        if outer is not None:
            self.qualname = f'{outer.qualname}.<locals>.{self.name}'
        elif cls is not None:
            self.qualname = f'{cls.qualname}.{self.name}'
        else:
            self.qualname = f'{module.name}.{self.name}'

    @property
    def is_abstract(self):
        return 'abstractmethod' in self.decorators

    @property
    def params(self) -> List[str]:
        a = self.node.args
        return [x.arg for x in a.posonlyargs + a.args]

    @property
    def kwonly(self) -> List[str]:
        return [x.arg for x in self.node.args.kwonlyargs]

    @property
    def all_params(self) -> List[str]:
        a = self.node.args
        out = [x.arg for x in a.posonlyargs + a.args + a.kwonlyargs]
        if a.vararg:
            out.append(a.vararg.arg)
        if a.kwarg:
            out.append(a.kwarg.arg)
        return out

    def annotation(self, pname: str):
        a = self.node.args
        for x in a.posonlyargs + a.args + a.kwonlyargs:
            if x.arg == pname:
                return x.annotation
        return None

    @property
    def body(self):
        if isinstance(self.node, ast.Lambda):
            return [ast.Return(value=self.node.body, lineno=self.node.lineno, col_offset=0)]
        return self.node.body

    @property
    def loc(self) -> str:
        return f'{self.module.relpath}:{self.node.lineno}'

    def __repr__(self):
        return f'<Func {self.qualname}>'


class ClassInfo:
    def __init__(self, module: Module, node: ast.ClassDef, outer: Optional['ClassInfo'] = None):
        self.module = module
        self.node = node
        self.name = node.name
        self.outer = outer
        self.qualname = f'{outer.qualname}.{node.name}' if outer else f'{module.name}.{node.name}'
        self.methods: Dict[str, FuncInfo] = {}
        self.setters: Dict[str, FuncInfo] = {}
        self.attrs: Dict[str, ast.AST] = {}      # class-level assignments name -> value node (last wins)
        self.attr_nodes: Dict[str, ast.AST] = {}
        self.nested: Dict[str, 'ClassInfo'] = {}
        self._bases: Optional[List['ClassInfo']] = None
        self._mro = None

    @property
    def loc(self):
        return f'{self.module.relpath}:{self.node.lineno}'

    def __repr__(self):
        return f'<Class {self.qualname}>'


class Binding:
    """kind in: def, class, assign, module, from, external"""
    def __init__(self, kind, value, node=None, module=None):
        self.kind = kind
        self.value = value
        self.node = node
        self.module = module

    def __repr__(self):
        return f'<Binding {self.kind} {self.value!r}>'


def local_profile(fn) -> list:
    """[(local name, signature)] in order of first binding, for the locals of a function (parameters, comprehension variables and
    names of nested definitions excluded).  The signature is coarse on purpose: the kind of the first binding and the shape of what
    is bound (`assign:Call:append_row`, `assign:List`, `for:enumerate`, `with`, `aug`), with no local name in it."""
    if isinstance(fn, ast.Lambda):
        return []
    a = fn.args
    params = {x.arg for x in a.posonlyargs + a.args + a.kwonlyargs}
    if a.vararg:
        params.add(a.vararg.arg)
    if a.kwarg:
        params.add(a.kwarg.arg)
    out, seen, banned = [], set(), set()

    def shape(v):
        if v is None:
            return 'none'
        t = type(v).__name__
        if isinstance(v, ast.Call):
            f = v.func
            t += ':' + (f.attr if isinstance(f, ast.Attribute) else (f.id if isinstance(f, ast.Name) else '?'))
        elif isinstance(v, ast.Constant):
            t += ':' + repr(v.value)[:12]
        elif isinstance(v, ast.Attribute):
            t += ':' + v.attr
        elif isinstance(v, ast.BinOp):
            t += ':' + type(v.op).__name__
        return t

    def bind(target, kind, value):
        for n in ast.walk(target):
            if isinstance(n, ast.Name) and isinstance(n.ctx, (ast.Store, ast.Del)) and n.id not in params and n.id not in seen:
                seen.add(n.id)
                tup = '' if isinstance(target, ast.Name) else f'[{[x.id for x in ast.walk(target) if isinstance(x, ast.Name)].index(n.id)}]'
                out.append((n.id, f'{kind}{tup}:{shape(value)}'))

    def walk(stmts):
        for st in stmts:
            if isinstance(st, (ast.FunctionDef, ast.AsyncFunctionDef, ast.ClassDef)):
                seen.add(st.name)
                continue
            if isinstance(st, (ast.Global, ast.Nonlocal)):
                banned.update(st.names)
            if isinstance(st, ast.Assign):
                for t in st.targets:
                    bind(t, 'assign', st.value)
            elif isinstance(st, ast.AnnAssign):
                bind(st.target, 'assign', st.value)
            elif isinstance(st, ast.AugAssign):
                bind(st.target, 'aug', st.value)
            elif isinstance(st, (ast.For, ast.AsyncFor)):
                it = st.iter
                bind(st.target, 'for', it)
            elif isinstance(st, (ast.With, ast.AsyncWith)):
                for it in st.items:
                    if it.optional_vars is not None:
                        bind(it.optional_vars, 'with', it.context_expr)
            for n in ast.walk(st) if not isinstance(st, (ast.For, ast.AsyncFor, ast.While, ast.If, ast.Try, ast.With, ast.AsyncWith)) else []:
                if isinstance(n, ast.NamedExpr):
                    bind(n.target, 'walrus', n.value)
            for field in ('body', 'orelse', 'finalbody'):
                v = getattr(st, field, None)
                if isinstance(v, list) and v and isinstance(v[0], ast.stmt):
                    walk(v)
            if isinstance(st, ast.Try):
                for h in st.handlers:
                    if h.name and h.name not in seen:
                        seen.add(h.name)
                        out.append((h.name, 'except'))
                    walk(h.body)
    walk(fn.body)
    return [(n, sg) for n, sg in out if n not in banned]


class Program:
    def __init__(self, root: str = '/repo', overlay: Optional[Dict[str, str]] = None, normalize: bool = True):
        self.root = root
        self.overlay = overlay or {}
        self.modules: Dict[str, Module] = {}
        self.by_path: Dict[str, Module] = {}
        self.classes: Dict[str, ClassInfo] = {}
        self.functions: Dict[str, FuncInfo] = {}
        self._load()
        self._index()
        self.renamed_back = {}
        if normalize:
            self._recover_renames()
            self._recover_locals()
        self.normalizer = None
        if normalize:
            from .normalize import normalize_program
            self.normalizer = normalize_program(self)

    # ------------------------------------------------------------------ loading
    def read(self, relpath: str) -> str:
        if relpath in self.overlay:
            return self.overlay[relpath]
        p = os.path.join(self.root, relpath)
        if not os.path.exists(p):
            raise AnalysisError(f'anchor file vanished: {relpath}')
        with open(p, encoding='utf-8') as f:
            return f.read()

    def exists(self, relpath: str) -> bool:
        return relpath in self.overlay or os.path.exists(os.path.join(self.root, relpath))

    def _load(self):
        base = os.path.join(self.root, PKG)
        if not os.path.isdir(base):
            raise AnalysisError(f'package directory {base} not found')
        rels = set()
        for dp, dn, fn in os.walk(base):
            dn[:] = [d for d in dn if d != '__pycache__']
            for f in fn:
                if f.endswith('.py'):
                    rels.add(os.path.relpath(os.path.join(dp, f), self.root))
        rels.update(p for p in self.overlay if p.startswith(PKG + '/') and p.endswith('.py'))
        for rel in sorted(rels):
            parts = rel[:-3].split('/')
            is_pkg = parts[-1] == '__init__'
            if is_pkg:
                parts = parts[:-1]
            name = '.'.join(parts)
            m = Module(name, rel, self.read(rel), is_pkg)
            self.modules[name] = m
            self.by_path[rel] = m

    def _abs_module(self, mod: Module, level: int, name: Optional[str]) -> str:
        if level == 0:
            return name or ''
        pkg = mod.package.split('.')
        if level > 1:
            pkg = pkg[:-(level - 1)]
        base = '.'.join(pkg)
        return f'{base}.{name}' if name else base

    def _index(self):
        for m in self.modules.values():
            self._index_body(m, m.tree.body)

    def _bind(self, m: Module, name: str, b: Binding):
        m.scope.setdefault(name, []).append(b)

    def _index_body(self, m: Module, body):
        for st in body:
            if isinstance(st, (ast.FunctionDef, ast.AsyncFunctionDef)):
                fi = FuncInfo(m, st, None)
                self.functions[fi.qualname] = fi
                self._bind(m, st.name, Binding('def', fi, st, m))
            elif isinstance(st, ast.ClassDef):
                ci = self._index_class(m, st, None)
                self._bind(m, st.name, Binding('class', ci, st, m))
            elif isinstance(st, ast.Assign):
                for t in st.targets:
                    for nm in _target_names(t):
                        self._bind(m, nm, Binding('assign', st.value, st, m))
            elif isinstance(st, ast.AnnAssign) and isinstance(st.target, ast.Name) and st.value is not None:
                self._bind(m, st.target.id, Binding('assign', st.value, st, m))
            elif isinstance(st, ast.Import):
                for a in st.names:
                    if a.asname:
                        self._bind(m, a.asname, Binding('module', a.name, st, m))
                    else:
                        top = a.name.split('.')[0]
                        self._bind(m, top, Binding('module', top, st, m))
            elif isinstance(st, ast.ImportFrom):
                target = self._abs_module(m, st.level, st.module)
                for a in st.names:
                    if a.name == '*':
                        m.star_imports.append(target)
                    else:
                        self._bind(m, a.asname or a.name, Binding('from', (target, a.name), st, m))
            elif isinstance(st, (ast.If, ast.Try)):
                # module-level conditionals: index both arms (rare in this repo)
                for sub in ast.iter_child_nodes(st):
                    if isinstance(sub, ast.stmt):
                        self._index_body(m, [sub])

    def _index_class(self, m: Module, node: ast.ClassDef, outer: Optional[ClassInfo]) -> ClassInfo:
        ci = ClassInfo(m, node, outer)
        self.classes[ci.qualname] = ci
        for st in node.body:
            if isinstance(st, (ast.FunctionDef, ast.AsyncFunctionDef)):
                fi = FuncInfo(m, st, ci)
                if fi.kind == 'setter':
                    ci.setters[st.name] = fi
                    self.functions[fi.qualname + '.setter'] = fi
                else:
                    ci.methods[st.name] = fi
                    self.functions[fi.qualname] = fi
            elif isinstance(st, ast.ClassDef):
                ci.nested[st.name] = self._index_class(m, st, ci)
            elif isinstance(st, ast.Assign):
                for t in st.targets:
                    if isinstance(t, (ast.Tuple, ast.List)) and isinstance(st.value, (ast.Tuple, ast.List)) and len(t.elts) == len(st.value.elts) \
                            and all(isinstance(x, ast.Name) for x in t.elts) and not any(isinstance(x, ast.Starred) for x in st.value.elts):
                        for x, v in zip(t.elts, st.value.elts):     # a, b = 1, 2 at class level: element by element
                            ci.attrs[x.id] = v
                            ci.attr_nodes[x.id] = st
                        continue
                    for nm in _target_names(t):
                        ci.attrs[nm] = st.value
                        ci.attr_nodes[nm] = st
            elif isinstance(st, ast.AnnAssign) and isinstance(st.target, ast.Name) and st.value is not None:
                ci.attrs[st.target.id] = st.value
                ci.attr_nodes[st.target.id] = st
        # name = functools.partialmethod(method_of_this_class, a, b): the method with its leading parameters bound
        for st in node.body:
            if isinstance(st, ast.Assign) and len(st.targets) == 1 and isinstance(st.targets[0], ast.Name) and isinstance(st.value, ast.Call) \
                    and ast.unparse(st.value.func) in ('partialmethod', 'functools.partialmethod') and st.value.args \
                    and isinstance(st.value.args[0], ast.Name) and st.value.args[0].id in ci.methods \
                    and not any(isinstance(a, ast.Starred) for a in st.value.args) and all(k.arg for k in st.value.keywords):
                base = ci.methods[st.value.args[0].id]
                bn = base.node
                if bn.args.vararg or bn.args.kwarg or bn.args.posonlyargs or base.kind != 'method':
                    continue
                bound = st.value.args[1:]
                params = bn.args.args[1:]
                if len(bound) > len(params):
                    continue
                import copy as _copy
                new = _copy.deepcopy(bn)
                new.name = st.targets[0].id
                pre = []
                names = [p_.arg for p_ in params[:len(bound)]]
                for p_, a in zip(names, bound):
                    pre.append(ast.Assign(targets=[ast.Name(id=p_, ctx=ast.Store())], value=_copy.deepcopy(a)))
                kw = {k.arg: k.value for k in st.value.keywords}
                keep = []
                for p_ in new.args.args[1 + len(bound):]:
                    if p_.arg in kw:
                        pre.append(ast.Assign(targets=[ast.Name(id=p_.arg, ctx=ast.Store())], value=_copy.deepcopy(kw[p_.arg])))
                    else:
                        keep.append(p_)
                n_drop = len(new.args.args) - 1 - len(keep)
                new.args.args = [new.args.args[0]] + keep
                if new.args.defaults:
                    new.args.defaults = new.args.defaults[-len(keep):] if len(keep) and len(new.args.defaults) > len(keep) else \
                        (new.args.defaults if len(new.args.defaults) <= len(keep) else [])
                doc = [new.body[0]] if new.body and isinstance(new.body[0], ast.Expr) and isinstance(getattr(new.body[0], 'value', None), ast.Constant) \
                    and isinstance(new.body[0].value.value, str) else []
                new.body = doc + pre + new.body[len(doc):]
                for n_ in ast.walk(new):
                    if hasattr(n_, 'lineno'):
                        n_.lineno = st.lineno
                        n_.end_lineno = st.lineno
                ast.fix_missing_locations(new)
                fi = FuncInfo(m, new, ci)
                ci.methods[new.name] = fi
                self.functions[fi.qualname] = fi
                ci.attrs.pop(new.name, None)
        return ci

    # ------------------------------------------------------------------ renamed anchors
    @staticmethod
    def body_digest(node) -> str:
        """Digest of a function body (docstring dropped) with the function's own name abstracted: a pure rename keeps it."""
        import hashlib
        body = node.body
        if body and isinstance(body[0], ast.Expr) and isinstance(body[0].value, ast.Constant) and isinstance(body[0].value.value, str):
            body = body[1:]
        own = node.name
        parts = []
        for st in body:
            d = ast.dump(st)
            d = d.replace(f"attr='{own}'", "attr='@'").replace(f"id='{own}'", "id='@'")
            parts.append(d)
        a = node.args
        sig = ast.dump(a)
        return hashlib.sha1(('|'.join(parts) + '#' + sig).encode('utf-8')).hexdigest()[:16]

    def _recover_locals(self):
        """Local variables of a function the rules know (known_locals.txt) that were renamed get their old names back in the syntax
        tree: a pinned local that is gone is matched with a new local of the same function by the order and the coarse signature
        of the first binding (local_profile).  A rename of a local is not a verdict; anything ambiguous is left alone."""
        import os as _os
        path = _os.path.join(_os.path.dirname(_os.path.abspath(__file__)), 'known_locals.txt')
        if not _os.path.exists(path):
            return
        known = {}
        with open(path, encoding='utf-8') as f:
            for line in f:
                if line.strip() and not line.startswith('#'):
                    q, _, rest = line.rstrip('\n').partition('\t')
                    known[q] = [tuple(x.split('\x1f', 1)) for x in rest.split('\x1e') if x]
        n_fun = n_names = 0
        for q, prof in known.items():
            fi = self.functions.get(q)
            if fi is None or fi.module.generated or fi.module.legacy or isinstance(fi.node, ast.Lambda):
                continue
            cur = local_profile(fi.node)
            pn, cn = [n for n, _ in prof], [n for n, _ in cur]
            missing = [(n, sg) for n, sg in prof if n not in cn]
            new = [(n, sg) for n, sg in cur if n not in pn]
            if not missing or not new:
                continue
            used = {n.id for n in ast.walk(fi.node) if isinstance(n, ast.Name)} | {a.arg for n in ast.walk(fi.node) if isinstance(n, ast.arguments)
                                                                                      for a in n.args + n.kwonlyargs + n.posonlyargs}
            ren = {}
            if len(missing) == len(new):
                for (po, ps), (cn_, cs) in zip(missing, new):       # same order of first binding
                    if ps == cs:
                        ren[cn_] = po
            left_m = [(n, sg) for n, sg in missing if n not in ren.values()]
            left_n = [(n, sg) for n, sg in new if n not in ren]
            for po, ps in left_m:                                   # unique signature match among what is left
                c1 = [n for n, sg in left_n if sg == ps and n not in ren]
                c2 = [n for n, sg in left_m if sg == ps]
                if len(c1) == 1 and len(c2) == 1:
                    ren[c1[0]] = po
            ren = {c: p_ for c, p_ in ren.items() if p_ not in used}
            if not ren:
                continue

            def rename(node, ren_):
                for ch in ast.iter_child_nodes(node):
                    if isinstance(ch, (ast.FunctionDef, ast.AsyncFunctionDef, ast.Lambda)):
                        a_ = ch.args
                        shadow = {x.arg for x in a_.posonlyargs + a_.args + a_.kwonlyargs} | ({a_.vararg.arg} if a_.vararg else set()) \
                            | ({a_.kwarg.arg} if a_.kwarg else set())
                        sub = {k: v for k, v in ren_.items() if k not in shadow}
                        if sub:
                            rename(ch, sub)
                        continue
                    if isinstance(ch, ast.Name) and ch.id in ren_:
                        ch.id = ren_[ch.id]
                    if isinstance(ch, ast.ExceptHandler) and ch.name in ren_:
                        ch.name = ren_[ch.name]
                    rename(ch, ren_)
            rename(fi.node, ren)
            n_fun += 1
            n_names += len(ren)
        self.locals_renamed_back = (n_fun, n_names)

    def _recover_renames(self):
        """A function the rules know by name (known_digests.txt) that is gone, while the same module / class has ONE new function
        with the identical body and signature, was renamed: the old name is restored in the syntax trees (definition, attribute
        and name references, import aliases), so that a rename is not a verdict.  Iterated, because the body of one renamed
        function may call another."""
        import os as _os
        path = _os.path.join(_os.path.dirname(_os.path.abspath(__file__)), 'known_digests.txt')
        if not _os.path.exists(path):
            return
        known = {}
        with open(path, encoding='utf-8') as f:
            for line in f:
                if line.strip() and not line.startswith('#'):
                    q, _, d = line.rstrip('\n').partition('\t')
                    known[q] = d
        for _ in range(4):
            vanished = [q for q in known if q not in self.functions and q.rpartition('.')[0] in (set(self.modules) | set(self.classes))]
            if not vanished:
                return
            new = [f for q, f in self.functions.items() if q not in known and not q.endswith('.setter') and not f.module.generated
                   and not f.module.legacy and not isinstance(f.node, ast.Lambda)]
            taken_names = {q.rpartition('.')[2] for q in known}
            renames = {}
            for q in vanished:
                owner, _, old = q.rpartition('.')
                # only PRIVATE names: a public function, a dunder, a listener / visitor callback is found by its name from outside
                # (the ANTLR walker calls exitKeySignature by that very name) - renaming one of those changes behaviour
                if not old.startswith('_') or old.startswith('__'):
                    continue
                cands = [f for f in new if f.qualname.rpartition('.')[0] == owner and self.body_digest(f.node) == known[q]]
                if len(cands) == 1 and cands[0].name not in taken_names and cands[0].name not in renames \
                        and cands[0].name.startswith('_') and not cands[0].name.startswith('__'):
                    renames[cands[0].name] = old
            if not renames:
                return
            for m in self.modules.values():
                if m.generated or m.legacy:
                    continue
                for n in ast.walk(m.tree):
                    if isinstance(n, (ast.FunctionDef, ast.AsyncFunctionDef)) and n.name in renames:
                        n.name = renames[n.name]
                    elif isinstance(n, ast.Attribute) and n.attr in renames:
                        n.attr = renames[n.attr]
                    elif isinstance(n, ast.Name) and n.id in renames:
                        n.id = renames[n.id]
                    elif isinstance(n, ast.alias) and n.name in renames:
                        n.name = renames[n.name]
                    elif isinstance(n, ast.keyword) and False:
                        pass
                m.scope = {}
                m.star_imports = []
                m._parents = None
            self.renamed_back.update(renames)
            self.classes = {}
            self.functions = {}
            self._index()

    # ------------------------------------------------------------------ resolution
    def public_names(self, m: Module) -> List[str]:
        if '__all__' in m.scope:
            b = m.scope['__all__'][-1]
            try:
                return [e.value for e in b.value.elts]
            except Exception:
                pass
        names = [n for n in m.scope if not n.startswith('_')]
        for s in m.star_imports:
            sm = self.modules.get(s)
            if sm:
                names.extend(self.public_names(sm))
        return names

    def resolve(self, m: Module, name: str, _seen=None) -> Optional[Binding]:
        """Resolve a module-level name to its defining binding (def/class/assign/module/external)."""
        _seen = _seen or set()
        key = (m.name, name)
        if key in _seen:
            return None
        _seen.add(key)
        if name in m.scope:
            b = m.scope[name][-1]
            if b.kind == 'from':
                tmod, tname = b.value
                tm = self.modules.get(tmod)
                if tm is None:
                    if tmod.split('.')[0] == PKG:
                        return None
                    return Binding('external', f'{tmod}.{tname}', b.node, m)
                sub = self.modules.get(f'{tmod}.{tname}')
                r = self.resolve(tm, tname, _seen)
                if r is not None:
                    return r
                if sub is not None:
                    return Binding('module', sub.name, b.node, m)
                return None
            if b.kind == 'module':
                if b.value.split('.')[0] != PKG:
                    return Binding('external', b.value, b.node, m)
                return b
            return b
        for s in reversed(m.star_imports):
            sm = self.modules.get(s)
            if sm is None:
                continue
            if name in self.public_names(sm) or ('__all__' not in sm.scope and not name.startswith('_')):
                r = self.resolve(sm, name, _seen)
                if r is not None:
                    return r
        return None

    def resolve_expr(self, m: Module, node, cls: Optional[ClassInfo] = None):
        """Resolve Name / dotted Attribute to a Binding-like result; returns
        ('class', ClassInfo) | ('def', FuncInfo) | ('assign', valuenode, module, cls) | ('module', name) | ('external', dotted) | None"""
        if isinstance(node, ast.Name):
            if cls is not None and node.id in ('cls', 'self'):
                return ('class', cls)
            b = self.resolve(m, node.id)
            if b is None:
                return None
            if b.kind == 'def':
                return ('def', b.value)
            if b.kind == 'class':
                return ('class', b.value)
            if b.kind == 'assign':
                return ('assign', b.value, b.module, None)
            if b.kind == 'module':
                return ('module', b.value)
            if b.kind == 'external':
                return ('external', b.value)
            return None
        if isinstance(node, ast.Attribute):
            base = self.resolve_expr(m, node.value, cls)
            if base is None:
                return None
            if base[0] == 'module':
                tm = self.modules.get(base[1])
                if tm is None:
                    return ('external', f'{base[1]}.{node.attr}')
                sub = self.modules.get(f'{base[1]}.{node.attr}')
                b = self.resolve(tm, node.attr)
                if b is None:
                    return ('module', sub.name) if sub else None
                if b.kind == 'def':
                    return ('def', b.value)
                if b.kind == 'class':
                    return ('class', b.value)
                if b.kind == 'assign':
                    return ('assign', b.value, b.module, None)
                if b.kind == 'module':
                    return ('module', b.value)
                if b.kind == 'external':
                    return ('external', b.value)
                return None
            if base[0] == 'external':
                return ('external', f'{base[1]}.{node.attr}')
            if base[0] == 'class':
                ci = base[1]
                for c in self.mro(ci):
                    if node.attr in c.methods:
                        return ('def', c.methods[node.attr])
                    if node.attr in c.attrs:
                        return ('assign', c.attrs[node.attr], c.module, c)
                    if node.attr in c.nested:
                        return ('class', c.nested[node.attr])
                return None
        return None

    def bases(self, ci: ClassInfo) -> List[ClassInfo]:
        if ci._bases is None:
            out = []
            for b in ci.node.bases:
                r = self.resolve_expr(ci.module, b)
                if r and r[0] == 'class':
                    out.append(r[1])
            ci._bases = out
        return ci._bases

    def external_bases(self, ci: ClassInfo) -> List[str]:
        out = []
        for b in ci.node.bases:
            r = self.resolve_expr(ci.module, b)
            if not (r and r[0] == 'class'):
                out.append(ast.unparse(b))
        return out

    def mro(self, ci: ClassInfo) -> List[ClassInfo]:
        if ci._mro is None:
            seqs = [self.mro(b)[:] for b in self.bases(ci)] + [list(self.bases(ci))]
            res = [ci]
            while True:
                seqs = [s for s in seqs if s]
                if not seqs:
                    break
                for s in seqs:
                    cand = s[0]
                    if not any(cand in t[1:] for t in seqs):
                        break
                else:
                    cand = seqs[0][0]  # inconsistent hierarchy: fall back to DFS order
                res.append(cand)
                for s in seqs:
                    if s and s[0] is cand:
                        del s[0]
            ci._mro = res
        return ci._mro

    def is_subclass(self, ci: ClassInfo, other: ClassInfo) -> bool:
        return other in self.mro(ci)

    def subclasses(self, ci: ClassInfo, strict=False) -> List[ClassInfo]:
        return [c for c in self.classes.values() if ci in self.mro(c) and not (strict and c is ci)]

    def is_enum(self, ci: ClassInfo) -> bool:
        for c in self.mro(ci):
            if any(b in ('Enum', 'enum.Enum', 'IntEnum', 'enum.IntEnum') for b in self.external_bases(c)):
                return True
        return False

    def find_method(self, ci: ClassInfo, name: str) -> Optional[FuncInfo]:
        for c in self.mro(ci):
            if name in c.methods:
                return c.methods[name]
        return None

    def find_setter(self, ci: ClassInfo, name: str) -> Optional[FuncInfo]:
        for c in self.mro(ci):
            if name in c.setters:
                return c.setters[name]
        return None

    def find_class_attr(self, ci: ClassInfo, name: str):
        for c in self.mro(ci):
            if name in c.attrs:
                return c.attrs[name], c
        return None

    # ------------------------------------------------------------------ anchors
    def is_glue(self, fi: 'FuncInfo') -> bool:
        """A function the rules do not know by name (not in known_names.txt) whose every resolved call was replaced by its body
        by the normalising front end: its code is analysed inside its callers, never as a unit."""
        nz = self.normalizer
        return nz is not None and fi.qualname not in nz.known and fi.qualname in nz.inlined_names

    def is_anchor(self, fi: 'FuncInfo') -> bool:
        nz = self.normalizer
        return nz is None or fi.qualname in nz.known

    def module(self, name: str) -> Module:
        m = self.modules.get(name)
        if m is None:
            raise AnalysisError(f'anchor module vanished: {name}')
        return m

    def cls(self, qualname: str) -> ClassInfo:
        c = self.classes.get(qualname)
        if c is None:
            raise AnalysisError(f'anchor class vanished: {qualname}')
        return c

    def func(self, qualname: str) -> FuncInfo:
        f = self.functions.get(qualname)
        if f is None:
            # a method may be inherited
            head, _, tail = qualname.rpartition('.')
            c = self.classes.get(head)
            if c is not None:
                f = self.find_method(c, tail)
            if f is None:
                raise AnalysisError(f'anchor function vanished: {qualname}')
        return f

    def has_func(self, qualname: str) -> bool:
        try:
            self.func(qualname)
            return True
        except AnalysisError:
            return False

    def const_node(self, modname: str, name: str):
        m = self.module(modname)
        b = self.resolve(m, name)
        if b is None or b.kind != 'assign':
            raise AnalysisError(f'anchor constant vanished: {modname}.{name}')
        return b.value, b.module

    def app_modules(self) -> List[Module]:
        return [m for m in self.modules.values() if not m.generated and not m.legacy]

    def all_functions(self, include_generated=False):
        for f in self.functions.values():
            if not include_generated and (f.module.generated or f.module.legacy):
                continue
            yield f

    def nested_functions(self, fi: FuncInfo) -> Dict[str, FuncInfo]:
        out = {}
        for n in walk_local(fi.node):
            if isinstance(n, (ast.FunctionDef, ast.AsyncFunctionDef)) and n is not fi.node:
                out[n.name] = FuncInfo(fi.module, n, fi.cls, outer=fi)
        return out


def _target_names(t) -> List[str]:
    if isinstance(t, ast.Name):
        return [t.id]
    if isinstance(t, (ast.Tuple, ast.List)):
        out = []
        for e in t.elts:
            out.extend(_target_names(e))
        return out
    return []


def walk_local(fnode):
    """Walk a function body without descending into nested function/class definitions
    (the nested def node itself is yielded)."""
    todo = list(ast.iter_child_nodes(fnode))
    while todo:
        n = todo.pop()
        yield n
        if isinstance(n, (ast.FunctionDef, ast.AsyncFunctionDef, ast.ClassDef, ast.Lambda)):
            continue
        todo.extend(ast.iter_child_nodes(n))


def walk_all(node):
    return ast.walk(node)


def src(node) -> str:
    return ast.unparse(node) if node is not None else 'None'


def loc(mod: Module, node) -> str:
    return f'{mod.relpath}:{getattr(node, "lineno", 0)}'


def docstring_free(body):
    if body and isinstance(body[0], ast.Expr) and isinstance(body[0].value, ast.Constant) \
            and isinstance(body[0].value.value, str):
        return body[1:]
    return body
