"""Light receiver typing and call resolution (no external type checker is available in the image).
Types are sets of ClassInfo (kernpy classes) and builtin tags ('list','dict','set','str','int','tuple',
'bool','none','file','callable','ext')."""
from __future__ import annotations

import ast
from typing import Dict, List, Optional, Set

from .errors import AnalysisError
from .model import Program, FuncInfo, ClassInfo, walk_local, src

BUILTIN_TAGS = {'list', 'dict', 'set', 'str', 'int', 'tuple', 'bool', 'none', 'file', 'callable', 'ext', 'float',
                'queue', 'deque', 'path', 'range', 'iter'}
_ANN_BUILTINS = {'str': 'str', 'int': 'int', 'bool': 'bool', 'list': 'list', 'dict': 'dict', 'set': 'set', 'tuple': 'tuple',
                 'List': 'list', 'Dict': 'dict', 'Set': 'set', 'Tuple': 'tuple', 'Sequence': 'list', 'Iterable': 'list',
                 'float': 'float', 'Path': 'path', 'None': 'none', 'Any': None, 'Callable': 'callable'}
_CALL_BUILTINS = {'list': 'list', 'dict': 'dict', 'set': 'set', 'str': 'str', 'int': 'int', 'tuple': 'tuple', 'sorted': 'list',
                  'len': 'int', 'bool': 'bool', 'reversed': 'iter', 'enumerate': 'iter', 'range': 'range', 'open': 'file',
                  'isinstance': 'bool', 'any': 'bool', 'all': 'bool', 'sum': 'int', 'min': None, 'max': None, 'iter': 'iter',
                  'zip': 'iter', 'filter': 'iter', 'map': 'iter', 'frozenset': 'set', 'float': 'float', 'repr': 'str',
                  'hash': 'int', 'id': 'int', 'abs': 'int', 'type': 'ext', 'getattr': None, 'print': 'none', 'next': None,
                  'defaultdict': 'dict', 'deque': 'deque', 'Queue': 'queue', 'Path': 'path', 'format': 'str', 'chr': 'str',
                  'ord': 'int', 'setattr': 'none', 'delattr': 'none', 'divmod': 'tuple', 'round': 'int', 'vars': 'dict', 'callable': 'bool', 'hasattr': 'bool',
                  'issubclass': 'bool', 'super': 'ext', 'object': 'ext', 'bytes': 'str', 'bin': 'str', 'oct': 'str', 'hex': 'str',
                  'pow': 'int', 'slice': 'ext', 'staticmethod': 'callable', 'classmethod': 'callable', 'property': 'callable'}


class Types:
    def __init__(self, prog: Program):
        self.prog = prog
        self._attr_cache: Dict[tuple, Set] = {}
        self._ret_cache: Dict[str, Set] = {}
        self._local_cache: Dict[str, Dict[str, Set]] = {}
        self._busy = set()

    # ------------------------------------------------------------ annotations
    def ann_types(self, ann, fi_mod, cls=None) -> Set:
        out: Set = set()
        if ann is None:
            return out
        if isinstance(ann, ast.Constant) and isinstance(ann.value, str):
            try:
                ann = ast.parse(ann.value, mode='eval').body
            except SyntaxError:
                return out
        if isinstance(ann, ast.Constant) and ann.value is None:
            return {'none'}
        if isinstance(ann, ast.Subscript):
            head = src(ann.value).rpartition('.')[2]
            if head in ('Optional', 'Union'):
                elts = ann.slice.elts if isinstance(ann.slice, ast.Tuple) else [ann.slice]
                for e in elts:
                    out |= self.ann_types(e, fi_mod, cls)
                if head == 'Optional':
                    out.add('none')
                return out
            return self.ann_types(ann.value, fi_mod, cls)
        if isinstance(ann, ast.BinOp) and isinstance(ann.op, ast.BitOr):
            return self.ann_types(ann.left, fi_mod, cls) | self.ann_types(ann.right, fi_mod, cls)
        if isinstance(ann, (ast.Name, ast.Attribute)):
            r = self.prog.resolve_expr(fi_mod, ann, None)
            if r and r[0] == 'class':
                return {r[1]}
            tail = src(ann).rpartition('.')[2]
            t = _ANN_BUILTINS.get(tail)
            if t:
                return {t}
        if isinstance(ann, (ast.Tuple, ast.List)):
            return {'tuple' if isinstance(ann, ast.Tuple) else 'list'}
        return out

    # ------------------------------------------------------------ locals
    def local_types(self, fi: FuncInfo) -> Dict[str, Set]:
        key = fi.qualname + str(id(fi.node))
        if key in self._local_cache:
            return self._local_cache[key]
        env: Dict[str, Set] = {}
        self._local_cache[key] = env
        a = fi.node.args
        allp = a.posonlyargs + a.args + a.kwonlyargs
        for i, p in enumerate(allp):
            if i == 0 and fi.cls is not None and fi.outer is None and fi.kind in ('method', 'property', 'setter') and p in (a.posonlyargs + a.args):
                env[p.arg] = {fi.cls}
            elif i == 0 and fi.cls is not None and fi.outer is None and fi.kind == 'classmethod':
                env[p.arg] = {('classobj', fi.cls)}
            else:
                env[p.arg] = self.ann_types(p.annotation, fi.module, fi.cls)
        if a.kwarg:
            env[a.kwarg.arg] = {'dict'}
        if a.vararg:
            env[a.vararg.arg] = {'tuple'}
        if fi.outer is not None:
            for k, v in self.local_types(fi.outer).items():
                env.setdefault(k, set(v))
        if isinstance(fi.node, ast.Lambda):
            return env
        for _ in range(3):
            for n in walk_local(fi.node):
                if isinstance(n, ast.Assign):
                    t = self.expr_types(n.value, fi, env)
                    for tg in n.targets:
                        if isinstance(tg, ast.Name):
                            env.setdefault(tg.id, set()).update(t)
                        elif isinstance(tg, ast.Tuple) and all(isinstance(e_, ast.Name) for e_ in tg.elts):
                            # a, b = (x, y)  /  a, b = pair   where every value `pair` receives in this function is a display
                            rows = []
                            if isinstance(n.value, ast.Tuple):
                                rows = [n.value]
                            elif isinstance(n.value, ast.Name):
                                vals_ = [a_.value for a_ in walk_local(fi.node) if isinstance(a_, ast.Assign)
                                         and any(isinstance(x_, ast.Name) and x_.id == n.value.id for x_ in a_.targets)]
                                if vals_ and all(isinstance(v_, ast.Tuple) for v_ in vals_):
                                    rows = vals_
                            for row in rows:
                                if len(row.elts) == len(tg.elts):
                                    for e_, v_ in zip(tg.elts, row.elts):
                                        env.setdefault(e_.id, set()).update(self.expr_types(v_, fi, env))
                elif isinstance(n, ast.AnnAssign) and isinstance(n.target, ast.Name):
                    env.setdefault(n.target.id, set()).update(self.ann_types(n.annotation, fi.module, fi.cls))
                    if n.value is not None:
                        env[n.target.id].update(self.expr_types(n.value, fi, env))
                elif isinstance(n, (ast.With, ast.AsyncWith)):
                    for it in n.items:
                        if isinstance(it.optional_vars, ast.Name):
                            env.setdefault(it.optional_vars.id, set()).update(self.expr_types(it.context_expr, fi, env))
                elif isinstance(n, ast.For):
                    # `for key, klass in TABLE.items()` / `for klass in TABLE.values()` over a constant table of classes (a registry), also
                    # when the table arrives through a parameter that every caller fills with such a constant
                    it = n.iter
                    tgt = None
                    if isinstance(it, ast.Call) and isinstance(it.func, ast.Attribute) and not it.args and it.func.attr in ('items', 'values'):
                        base = it.func.value
                        if it.func.attr == 'items' and isinstance(n.target, ast.Tuple) and len(n.target.elts) == 2 and isinstance(n.target.elts[1], ast.Name):
                            tgt = n.target.elts[1].id
                        elif it.func.attr == 'values' and isinstance(n.target, ast.Name):
                            tgt = n.target.id
                        if tgt is not None and not env.get(tgt):
                            cl = self._class_table(base, fi)
                            if cl:
                                env.setdefault(tgt, set()).update(('classobj', c) for c in cl)
                    elif isinstance(it, (ast.Name, ast.Attribute)) and isinstance(n.target, ast.Tuple) \
                            and all(isinstance(e_, ast.Name) for e_ in n.target.elts):
                        # `for key, klass, flag in ROWS` over a constant table of rows: the columns that hold classes
                        cols = self._class_columns(it, fi, len(n.target.elts))
                        for e_, cl in zip(n.target.elts, cols or []):
                            if cl and not env.get(e_.id):
                                env.setdefault(e_.id, set()).update(('classobj', c) for c in cl)
            for n in walk_local(fi.node):
                if isinstance(n, ast.Assign) and len(n.targets) == 1 and isinstance(n.targets[0], ast.Name) and not env.get(n.targets[0].id):
                    v = n.value
                    base = v.value if isinstance(v, ast.Subscript) else (
                        v.func.value if isinstance(v, ast.Call) and isinstance(v.func, ast.Attribute) and v.func.attr == 'get' and v.args else None)
                    if base is not None:
                        cl = self._class_table(base, fi)
                        if cl:
                            env.setdefault(n.targets[0].id, set()).update(('classobj', c) for c in cl)
        return env

    def _class_columns(self, expr, fi: FuncInfo, width: int):
        """For a constant sequence of rows (tuples) of the given width: per column the classes it holds, or None for a column that
        does not hold classes only.  None when `expr` is not such a constant."""
        from .consteval import ConstEval, ClassRef, NotConst
        if not hasattr(self, '_ce'):
            self._ce = ConstEval(self.prog)
        vals = self._param_constants(expr, fi) if isinstance(expr, ast.Name) and expr.id in fi.all_params else None
        if vals is None:
            try:
                vals = [self._ce.eval(expr, fi.module, fi.cls, {})]
            except (NotConst, Exception):
                return None
        rows = []
        for val in vals:
            if not isinstance(val, (list, tuple)) or not val or not all(isinstance(r, (list, tuple)) and len(r) == width for r in val):
                return None
            rows.extend(val)
        out = []
        for i in range(width):
            col = [r[i] for r in rows]
            out.append([v.ci for v in col] if all(isinstance(v, ClassRef) and v.ci is not None for v in col) else None)
        return out

    def _param_constants(self, name_node, fi: FuncInfo):
        """The constant values every call site of `fi` passes for the parameter (evaluated by the constant evaluator); None when a
        call site passes something that is not a constant, or when there is no call site."""
        from .consteval import ConstEval, NotConst
        if not hasattr(self, '_ce'):
            self._ce = ConstEval(self.prog)
        idx = fi.all_params.index(name_node.id)
        bound = fi.cls is not None and fi.kind in ('method', 'classmethod', 'property', 'setter')
        found = []
        for g in self.prog.all_functions():
            if g.module.generated or isinstance(g.node, ast.Lambda):
                continue
            for c in walk_local(g.node):
                if not isinstance(c, ast.Call):
                    continue
                nm = c.func.id if isinstance(c.func, ast.Name) else c.func.attr if isinstance(c.func, ast.Attribute) else None
                if nm != fi.name:
                    continue
                if isinstance(c.func, ast.Name):
                    r = self.prog.resolve_expr(g.module, c.func, None)
                    if not (r and r[0] == 'def' and r[1] is fi):
                        continue
                pos = idx - (1 if bound else 0)
                arg = next((k.value for k in c.keywords if k.arg == name_node.id), None)
                if arg is None and 0 <= pos < len(c.args) and not any(isinstance(a_, ast.Starred) for a_ in c.args):
                    arg = c.args[pos]
                if arg is None:
                    return None
                try:
                    found.append(self._ce.eval(arg, g.module, g.cls, {}))
                except (NotConst, Exception):
                    return None
        return found or None

    def _class_table(self, expr, fi: FuncInfo, _depth=0):
        """The classes a constant registry holds (dict values / list or tuple members), when `expr` is such a constant or a parameter
        that every call site of `fi` fills with one.  None: not a table of classes."""
        from .consteval import ConstEval, ClassRef, NotConst
        if not hasattr(self, '_ce'):
            self._ce = ConstEval(self.prog)

        def classes_of(val):
            vals = list(val.values()) if isinstance(val, dict) else list(val) if isinstance(val, (list, tuple, set, frozenset)) else None
            if not vals or not all(isinstance(v, ClassRef) and v.ci is not None for v in vals):
                return None
            return [v.ci for v in vals]
        if isinstance(expr, ast.Name) and expr.id in fi.all_params and _depth == 0:
            idx = fi.all_params.index(expr.id)
            bound = fi.cls is not None and fi.kind in ('method', 'classmethod', 'property', 'setter')
            found = []
            for g in self.prog.all_functions():
                if g.module.generated or isinstance(g.node, ast.Lambda):
                    continue
                for c in walk_local(g.node):
                    if not isinstance(c, ast.Call):
                        continue
                    nm = c.func.id if isinstance(c.func, ast.Name) else c.func.attr if isinstance(c.func, ast.Attribute) else None
                    if nm != fi.name:
                        continue
                    if isinstance(c.func, ast.Name):
                        r = self.prog.resolve_expr(g.module, c.func, None)
                        if not (r and r[0] == 'def' and r[1] is fi):
                            continue
                    pos = idx - (1 if bound else 0)
                    arg = next((k.value for k in c.keywords if k.arg == expr.id), None)
                    if arg is None and 0 <= pos < len(c.args) and not any(isinstance(a_, ast.Starred) for a_ in c.args):
                        arg = c.args[pos]
                    if arg is None:
                        return None
                    try:
                        val = self._ce.eval(arg, g.module, g.cls, {})
                    except (NotConst, Exception):
                        return None
                    cl = classes_of(val)
                    if cl is None:
                        return None
                    found.extend(cl)
            return found or None
        if isinstance(expr, (ast.Name, ast.Attribute)):
            try:
                val = self._ce.eval(expr, fi.module, fi.cls, {})
            except (NotConst, Exception):
                return None
            return classes_of(val)
        return None

    # ------------------------------------------------------------ expressions
    def expr_types(self, node, fi: FuncInfo, env=None) -> Set:
        env = env if env is not None else self.local_types(fi)
        if isinstance(node, ast.Constant):
            v = node.value
            return {'none' if v is None else type(v).__name__ if type(v).__name__ in BUILTIN_TAGS else 'ext'}
        if isinstance(node, ast.JoinedStr):
            return {'str'}
        if isinstance(node, (ast.List, ast.ListComp)):
            return {'list'}
        if isinstance(node, (ast.Dict, ast.DictComp)):
            return {'dict'}
        if isinstance(node, (ast.Set, ast.SetComp)):
            return {'set'}
        if isinstance(node, ast.Tuple):
            return {'tuple'}
        if isinstance(node, ast.GeneratorExp):
            return {'iter'}
        if isinstance(node, (ast.Compare, ast.BoolOp)) and not isinstance(node, ast.BoolOp):
            return {'bool'}
        if isinstance(node, ast.BoolOp):
            out = set()
            for v in node.values:
                out |= self.expr_types(v, fi, env)
            return out
        if isinstance(node, ast.IfExp):
            return self.expr_types(node.body, fi, env) | self.expr_types(node.orelse, fi, env)
        if isinstance(node, ast.Lambda):
            return {'callable'}
        if isinstance(node, ast.Name):
            if node.id in env:
                return set(env[node.id])
            r = self.prog.resolve_expr(fi.module, node, fi.cls)
            if r:
                if r[0] == 'class':
                    return {('classobj', r[1])}
                if r[0] == 'def':
                    return {'callable'}
                if r[0] == 'assign':
                    return self._const_types(r[1], r[2])
                if r[0] in ('module', 'external'):
                    return {'ext'}
            return set()
        if isinstance(node, ast.Attribute):
            base = self.expr_types(node.value, fi, env)
            out = set()
            for t in base:
                if isinstance(t, ClassInfo):
                    out |= self.attr_types(t, node.attr)
                elif isinstance(t, tuple) and t[0] == 'classobj':
                    ci = t[1]
                    if self.prog.is_enum(ci) and node.attr in ci.attrs:
                        out.add(ci)
                    elif node.attr in ci.nested:
                        out.add(('classobj', ci.nested[node.attr]))
                    else:
                        ra = self.prog.find_class_attr(ci, node.attr)
                        if ra is not None:
                            out |= self._const_types(ra[0], ra[1].module)
                        elif self.prog.find_method(ci, node.attr):
                            out.add('callable')
            return out
        if isinstance(node, ast.Subscript):
            if isinstance(node.slice, ast.Slice):
                return self.expr_types(node.value, fi, env) & {'list', 'str', 'tuple'}
            return set()
        if isinstance(node, ast.Call):
            return self.call_types(node, fi, env)
        if isinstance(node, ast.BinOp):
            l = self.expr_types(node.left, fi, env)
            return l & {'str', 'int', 'list', 'set', 'float', 'tuple'}
        if isinstance(node, ast.UnaryOp):
            return {'bool'} if isinstance(node.op, ast.Not) else {'int'}
        if isinstance(node, ast.Await):
            return set()
        return set()

    def _const_types(self, valnode, mod) -> Set:
        if isinstance(valnode, (ast.Dict, ast.DictComp)):
            return {'dict'}
        if isinstance(valnode, (ast.Set, ast.SetComp)):
            return {'set'}
        if isinstance(valnode, (ast.List, ast.ListComp)):
            return {'list'}
        if isinstance(valnode, ast.Tuple):
            return {'tuple'}
        if isinstance(valnode, ast.Constant):
            n = type(valnode.value).__name__
            return {n if n in BUILTIN_TAGS else 'none' if valnode.value is None else 'ext'}
        if isinstance(valnode, ast.Call) and isinstance(valnode.func, ast.Name):
            t = _CALL_BUILTINS.get(valnode.func.id)
            if t:
                return {t}
        return set()

    def call_types(self, node: ast.Call, fi: FuncInfo, env) -> Set:
        out = set()
        for t in self.resolve_call(node, fi, env, want_types=True):
            kind, target = t[0], t[1]
            if kind == 'class':
                out.add(target)
            elif kind == 'func':
                out |= self.return_types(target)
            elif kind == 'builtin':
                if target:
                    out.add(target)
            elif kind == 'method-builtin':
                name, rt = t[1], t[2]
                if rt == 'str' and name in ('split', 'rsplit', 'splitlines'):
                    out.add('list')
                elif rt == 'str':
                    out.add('str')
                elif name in ('keys', 'values', 'items'):
                    out.add('iter')
                elif name == 'copy' and rt:
                    out.add(rt)
        return out

    def return_types(self, f: FuncInfo) -> Set:
        key = f.qualname + str(id(f.node))
        if key in self._ret_cache:
            return self._ret_cache[key]
        self._ret_cache[key] = set()
        out = set()
        if not isinstance(f.node, ast.Lambda) and f.node.returns is not None:
            out |= self.ann_types(f.node.returns, f.module, f.cls)
        # factory summary: what the return sites construct
        rets = [n for n in walk_local(f.node) if isinstance(n, ast.Return) and n.value is not None] \
            if not isinstance(f.node, ast.Lambda) else []
        lt = self.local_types(f)
        for r in rets:
            out |= self.expr_types(r.value, f, lt)
        # an abstract base in the annotation: include concrete subclasses reached via factories only (keep both)
        self._ret_cache[key] = out
        return out

    def attr_types(self, ci: ClassInfo, attr: str) -> Set:
        key = (ci.qualname, attr)
        if key in self._attr_cache:
            return self._attr_cache[key]
        self._attr_cache[key] = set()
        out = set()
        classes = list(self.prog.mro(ci)) + [c for c in self.prog.subclasses(ci, strict=True)]
        for c in classes:
            m = c.methods.get(attr)
            if m is not None and m.kind == 'property':
                out |= self.return_types(m)
                continue
            if attr in c.attrs:
                out |= self._const_types(c.attrs[attr], c.module)
            for f in c.methods.values():
                if not f.params:
                    continue
                selfn = f.params[0]
                for n in walk_local(f.node):
                    tg = val = ann = None
                    if isinstance(n, ast.Assign):
                        for t in n.targets:
                            if isinstance(t, ast.Attribute) and t.attr == attr and isinstance(t.value, ast.Name) and t.value.id == selfn:
                                tg, val = t, n.value
                    elif isinstance(n, ast.AnnAssign) and isinstance(n.target, ast.Attribute) and n.target.attr == attr \
                            and isinstance(n.target.value, ast.Name) and n.target.value.id == selfn:
                        tg, val, ann = n.target, n.value, n.annotation
                    if tg is None:
                        continue
                    if ann is not None:
                        out |= self.ann_types(ann, f.module, f.cls)
                    if val is not None:
                        out |= self.expr_types(val, f)
        self._attr_cache[key] = out
        return out

    # ------------------------------------------------------------ call resolution
    def resolve_call(self, node: ast.Call, fi: FuncInfo, env=None, want_types=False):
        """-> list of ('func', FuncInfo) | ('class', ClassInfo) | ('builtin', tag-or-None) | ('method-builtin', name, recv_types)
              | ('callable-value', expr) | ('unresolved', text) | ('external', dotted)"""
        env = env if env is not None else self.local_types(fi)
        f = node.func
        out = []
        if isinstance(f, ast.Name):
            if f.id in env and env[f.id] - {'none'}:
                ts = env[f.id]
                cl = [t[1] for t in ts if isinstance(t, tuple) and t[0] == 'classobj']
                if cl:
                    res = [('class', c) for c in cl]
                    for c in cl:
                        res += [('class', sc) for sc in self.prog.subclasses(c, strict=True)]
                    return res
                if 'callable' in ts or not ts:
                    return [('callable-value', f.id)]
            nested = None
            scope = fi
            while scope is not None and nested is None:
                nested = self.prog.nested_functions(scope).get(f.id) if not isinstance(scope.node, ast.Lambda) else None
                scope = scope.outer
            if nested is not None:
                return [('func', nested)]
            r = self.prog.resolve_expr(fi.module, f, None)
            if r is None:
                if f.id in _CALL_BUILTINS:
                    return [('builtin', _CALL_BUILTINS[f.id], f.id)]
                if f.id == 'super':
                    return [('builtin', None, 'super')]
                if f.id in env:
                    return [('callable-value', f.id)]
                return [('unresolved', f.id)]
            if r[0] == 'def':
                return [('func', self._unwrap(r[1]))]
            if r[0] == 'class':
                return [('class', r[1])]
            if r[0] == 'external':
                tail = r[1].rpartition('.')[2]
                if tail in _CALL_BUILTINS:
                    return [('builtin', _CALL_BUILTINS[tail], r[1])]
                return [('external', r[1])]
            if r[0] == 'assign':
                return [('callable-value', f.id)]
            return [('unresolved', f.id)]
        if isinstance(f, ast.Attribute):
            name = f.attr
            # super().m(...)
            if isinstance(f.value, ast.Call) and isinstance(f.value.func, ast.Name) and f.value.func.id == 'super' and fi.cls:
                for c in self.prog.mro(fi.cls)[1:]:
                    if name in c.methods:
                        return [('func', c.methods[name])]
                return [('builtin', None, f'super().{name}')]
            # module attribute / class attribute by static resolution
            r = None
            base = f.value
            if isinstance(base, (ast.Name, ast.Attribute)) and not (isinstance(base, ast.Name) and base.id in env):
                r = self.prog.resolve_expr(fi.module, f, fi.cls if isinstance(base, ast.Name) and base.id in ('cls',) else None)
            if r is not None:
                if r[0] == 'def':
                    t = self._unwrap(r[1])
                    res = [('func', t)]
                    if isinstance(base, ast.Name) and base.id == 'cls' and fi.cls is not None:
                        for sc in self.prog.subclasses(fi.cls, strict=True):
                            if name in sc.methods and sc.methods[name] is not t:
                                res.append(('func', sc.methods[name]))
                    return res
                if r[0] == 'class':
                    return [('class', r[1])]
                if r[0] == 'external':
                    return [('external', r[1])]
            recv = self.expr_types(base, fi, env)
            known = False
            for t in recv:
                if isinstance(t, ClassInfo):
                    known = True
                    m = self.prog.find_method(t, name)
                    if m is not None:
                        out.append(('func', m))
                    for sc in self.prog.subclasses(t, strict=True):
                        if name in sc.methods:
                            out.append(('func', sc.methods[name]))
                    if m is None and not any(name in sc.methods for sc in self.prog.subclasses(t, strict=True)):
                        ext = [b for c in self.prog.mro(t) for b in self.prog.external_bases(c) if b not in ('ABC', 'object')]
                        if not ext and len([x for x in recv if isinstance(x, ClassInfo)]) > 1 and any(
                                isinstance(x, ClassInfo) and x is not t and self.prog.find_method(x, name) is not None for x in recv):
                            # a union of receiver classes (a registry that holds several families): a class of the union that has no
                            # such method and no external base cannot be the receiver of this call
                            continue
                        out.append(('external', f'{ext[0] if ext else t.name}.{name}'))
                elif isinstance(t, tuple) and t[0] == 'classobj':
                    known = True
                    m = self.prog.find_method(t[1], name)
                    if m is not None:
                        out.append(('func', m))
                    else:
                        out.append(('external', f'{t[1].name}.{name}'))
                elif t in BUILTIN_TAGS and t != 'none':
                    known = True
                    out.append(('method-builtin', name, t))
            if known:
                # de-duplicate
                seen, res = set(), []
                for o in out:
                    k = (o[0], id(o[1]) if o[0] == 'func' else o[1:])
                    if k not in seen:
                        seen.add(k)
                        res.append(o)
                return res
            # CHA on the method name (methods only, arity-compatible)
            cands = []
            for c in self.prog.classes.values():
                if c.module.generated or c.module.legacy:
                    continue
                m = c.methods.get(name)
                if m is not None and self._accepts(m, node):
                    cands.append(('func', m))
            res = cands + [('method-builtin', name, None)]
            return res
        if isinstance(f, ast.Call) or isinstance(f, ast.Subscript) or isinstance(f, ast.Lambda):
            return [('callable-value', src(f)[:40])]
        return [('unresolved', src(f)[:40])]

    def _accepts(self, m: FuncInfo, call: ast.Call) -> bool:
        a = m.node.args
        npos = len(a.posonlyargs) + len(a.args) - (1 if m.kind in ('method', 'classmethod', 'property') else 0)
        if len(call.args) > npos and a.vararg is None:
            return False
        names = {x.arg for x in a.args + a.kwonlyargs}
        for k in call.keywords:
            if k.arg is not None and k.arg not in names and a.kwarg is None:
                return False
        required = npos - len(a.defaults)
        given = len(call.args) + len([k for k in call.keywords if k.arg in names])
        if given < required and not any(k.arg is None for k in call.keywords):
            return False
        return True

    def _unwrap(self, f: FuncInfo) -> FuncInfo:
        return f
