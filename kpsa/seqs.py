"""Element-wise view of list expressions: which filter does every element of a source list pass before it reaches the
place where the expression is used?  Works on symbolically substituted expressions (kpsa.symex), so local names,
extracted helpers and the order of filter / sort / copy steps do not matter."""
from __future__ import annotations

import ast
import itertools
from typing import Dict, List, Optional, Tuple

from .astutil import clone
from . import guards as G

ELT = '_e'
WRAPPERS = {'list', 'tuple', 'sorted', 'iter', 'reversed'}


def parent_map(root) -> Dict[int, ast.AST]:
    pm = {}
    for n in ast.walk(root):
        for c in ast.iter_child_nodes(n):
            pm[id(c)] = n
    return pm


def reads_of(root, text: str) -> List[ast.AST]:
    """Attribute / Name nodes of `root` whose source is `text` (Load context)."""
    out = []
    for n in ast.walk(root):
        if isinstance(n, (ast.Attribute, ast.Name)) and isinstance(getattr(n, 'ctx', None), ast.Load) and ast.unparse(n) == text:
            out.append(n)
    return out


def _rename(node, old: str, new: str):
    class R(ast.NodeTransformer):
        def visit_Name(self, n):
            if n.id == old:
                return ast.copy_location(ast.Name(id=new, ctx=n.ctx), n)
            return n
    return R().visit(clone(node))


def consumer_filter(occ, pm) -> Tuple[str, Optional[tuple], Optional[ast.AST]]:
    """Climb from a read of a source list through copies / sorts to the comprehension that iterates it.
    -> ('comp', formula over the element `_e`, element expression over `_e`)     iterated by a single-generator comprehension
       ('whole', ('const', True), None)                                          used as a whole (copied, sorted, joined, ...)
       ('slice', None, parent)                                                   subscripted / sliced: not element-wise"""
    node = occ
    while True:
        par = pm.get(id(node))
        if par is None:
            return 'whole', ('const', True), None
        if isinstance(par, ast.Call) and isinstance(par.func, ast.Name) and par.func.id in WRAPPERS and par.args and par.args[0] is node:
            node = par
            continue
        if isinstance(par, ast.Subscript) and par.value is node:
            return 'slice', None, par
        if isinstance(par, ast.comprehension) and par.iter is node:
            comp = pm.get(id(par))
            if comp is None or len(comp.generators) != 1 or not isinstance(par.target, ast.Name):
                return 'slice', None, comp
            v = par.target.id
            fm = G.conj([G._formula(_rename(i, v, ELT)) for i in par.ifs])
            elt = comp.elt if not isinstance(comp, ast.DictComp) else comp.value
            return 'comp', fm, _rename(elt, v, ELT)
        return 'whole', ('const', True), None


def implies_under(pc, f, g, naming=None):
    """(pc and f) => g and (pc and g) => f, over all valuations of the atoms: -> (f_implies_g, g_implies_f, atoms of f not in g/pc)"""
    ats = []
    for x in (pc, f, g):
        for a in G.atoms_of(x):
            if a not in ats:
                ats.append(a)
    if len(ats) > 14:
        from .errors import AnalysisError
        raise AnalysisError(f'too many atoms ({len(ats)}) in a filter comparison')
    fg = gf = True
    for bits in itertools.product([False, True], repeat=len(ats)):
        val = dict(zip(ats, bits))
        if not G.evaluate(pc, val):
            continue
        a, b = G.evaluate(f, val), G.evaluate(g, val)
        if a and not b:
            fg = False
        if b and not a:
            gf = False
    extra = [a for a in G.atoms_of(f) if a not in G.atoms_of(g) and a not in G.atoms_of(pc)]
    return fg, gf, extra


def select(expr, valuation):
    """The leaf of a (nested) conditional expression selected by a valuation of the atoms of its tests."""
    while isinstance(expr, ast.IfExp):
        f = G._formula(expr.test)
        expr = expr.body if G.evaluate(f, {a: valuation.get(a, False) for a in G.atoms_of(f)}) else expr.orelse
    return expr
