"""Checker self-validation: every rule is exercised on in-memory variants of the CURRENT tree
(an overlay {file: edited source}; nothing is written to disk).  Breaking variants must be reported
(exit-1 verdict naming the rule), benign variants must stay silent.  A variant whose anchor text no
longer exists is skipped and counted, never guessed."""
from __future__ import annotations

import importlib
import json
import os
import sys
from concurrent.futures import ProcessPoolExecutor
from typing import List, Optional

from .errors import AnalysisError


class V:
    def __init__(self, name, kind, file, old, new, rule=None, count=1, also=None):
        self.name = name
        self.kind = kind          # breaking | benign
        self.file = file
        self.old = old
        self.new = new
        self.rule = rule          # expected rule id suffix (e.g. 'R3') for breaking variants
        self.count = count
        self.also = also or []    # further (file, old, new) edits of the same variant


def variants(prop: str) -> List[V]:
    try:
        mod = importlib.import_module(f'kpsa.variants.{prop.lower()}')
    except ModuleNotFoundError:
        return []
    return list(mod.VARIANTS)


def build_overlay(repo: str, v: V):
    overlay = {}
    for (file, old, new, count) in [(v.file, v.old, v.new, v.count)] + [(a[0], a[1], a[2], 1) for a in v.also]:
        path = os.path.join(repo, file)
        if file in overlay:
            s = overlay[file]
        else:
            if not os.path.exists(path):
                return None
            with open(path, encoding='utf-8') as f:
                s = f.read()
        if s.count(old) != count:
            return None
        s = s.replace(old, new)
        if file.endswith('.py'):
            try:
                compile(s, file, 'exec')
            except SyntaxError as e:
                raise AnalysisError(f'selftest variant {v.name} does not compile: {e}')
        overlay[file] = s
    return overlay


def _run_one(args):
    prop, repo, idx = args
    from .cli import run_property
    v = variants(prop)[idx]
    try:
        ov = build_overlay(repo, v)
    except AnalysisError as e:
        return (v.name, v.kind, 'error', str(e))
    if ov is None:
        return (v.name, v.kind, 'skipped', 'anchor text not present in the current tree')
    try:
        ctx = run_property(prop, 'quick', repo, overlay=ov)
    except AnalysisError as e:
        return (v.name, v.kind, 'analysis-error', str(e))
    except Exception as e:  # pragma: no cover
        return (v.name, v.kind, 'analysis-error', f'{type(e).__name__}: {e}')
    rules = sorted({i.rule for i in ctx.violations})
    if v.kind == 'breaking':
        if not rules:
            return (v.name, v.kind, 'missed', 'no violation reported')
        if v.rule and not any(r.endswith('.' + v.rule) for r in rules):
            return (v.name, v.kind, 'wrong-rule', f'reported by {rules}, expected {v.rule}')
        return (v.name, v.kind, 'flagged', ','.join(rules))
    else:
        if rules:
            return (v.name, v.kind, 'false-alarm', '; '.join(f'{i.rule} {i.fact}' for i in ctx.violations[:3]))
        return (v.name, v.kind, 'silent', '')


# ----------------------------------------------------------------------- patch corpora (thorough tier)
def corpus(prop: str):
    """[(kind, id, patch path)]: every behaviour-preserving refactoring of corpus/benign (must stay silent for every property)
    and the seeded property-breaking changes recorded for THIS property (must be reported)."""
    import json
    from .report import VERIF
    out = []
    d = os.path.join(VERIF, 'corpus', 'benign')
    if os.path.isdir(d):
        for pid in sorted(os.listdir(d)):
            p = os.path.join(d, pid, 'patch.diff')
            if os.path.exists(p):
                out.append(('benign', pid, p))
    d = os.path.join(VERIF, 'seeded')
    if os.path.isdir(d):
        for pid in sorted(os.listdir(d)):
            mp, p = os.path.join(d, pid, 'meta.json'), os.path.join(d, pid, 'patch.diff')
            if os.path.exists(mp) and os.path.exists(p):
                try:
                    with open(mp, encoding='utf-8') as f:
                        meta = json.load(f)
                except ValueError:
                    continue
                if (meta.get('breaks_property') or pid.split('-')[0]) == prop:
                    out.append(('breaking', pid, p))
    return out


def patch_overlay(repo: str, patch_path: str):
    """Apply a unified diff to copies of the touched files (a temporary directory; the tree is never modified).
    None when the patch does not apply to the current tree."""
    import re
    import shutil
    import subprocess
    import tempfile
    with open(patch_path, encoding='utf-8') as f:
        text = f.read()
    files = sorted(set(re.findall(r'^diff --git a/(\S+) b/\S+', text, re.M)))
    with tempfile.TemporaryDirectory(prefix='kpsa-ov-') as td:
        for rel in files:
            src_, dst = os.path.join(repo, rel), os.path.join(td, rel)
            os.makedirs(os.path.dirname(dst), exist_ok=True)
            if os.path.exists(src_):
                shutil.copy(src_, dst)
        r = subprocess.run(['patch', '-p1', '-s', '-f', '-d', td, '-i', os.path.abspath(patch_path)], capture_output=True, text=True)
        if r.returncode != 0:
            return None
        ov = {}
        for rel in files:
            p = os.path.join(td, rel)
            if os.path.exists(p):
                with open(p, encoding='utf-8') as f:
                    ov[rel] = f.read()
        return ov


def _run_patch(args):
    prop, repo, kind, pid, path = args
    from .cli import run_property
    try:
        ov = patch_overlay(repo, path)
    except Exception as e:
        return (pid, kind, 'skipped', f'patch tool failed: {e}')
    if ov is None:
        return (pid, kind, 'skipped', 'the patch does not apply to the current tree')
    try:
        ctx = run_property(prop, 'quick', repo, overlay=ov)
    except AnalysisError as e:
        return (pid, kind, 'analysis-error', str(e)[:300])
    except Exception as e:  # pragma: no cover
        return (pid, kind, 'analysis-error', f'{type(e).__name__}: {e}'[:300])
    rules = sorted({i.rule for i in ctx.violations})
    if kind == 'breaking':
        return (pid, kind, 'flagged', ','.join(rules)) if rules else (pid, kind, 'missed', 'no violation reported')
    if rules:
        return (pid, kind, 'false-alarm', '; '.join(f'{i.rule} {i.fact}'[:160] for i in ctx.violations[:3]))
    return (pid, kind, 'silent', '')


def baseline_violations(prop, repo):
    from .cli import run_property
    ctx = run_property(prop, 'quick', repo)
    return {(i.rule, i.function, i.construct) for i in ctx.violations}


def run(prop: str, repo: str, seed: int = 0, jobs: Optional[int] = None):
    vs = variants(prop)
    res = []
    cp = corpus(prop)
    if vs or cp:
        jobs = jobs or min(16, len(vs) + len(cp))
        args = [(prop, repo, i) for i in range(len(vs))]
        pargs = [(prop, repo, kind, pid, path) for kind, pid, path in cp]
        if jobs > 1:
            with ProcessPoolExecutor(max_workers=jobs) as ex:
                f1 = [ex.submit(_run_one, a) for a in args]
                f2 = [ex.submit(_run_patch, a) for a in pargs]
                res = [f.result() for f in f1] + [f.result() for f in f2]
        else:
            res = [_run_one(a) for a in args] + [_run_patch(a) for a in pargs]
    b = [r for r in res if r[1] == 'breaking']
    g = [r for r in res if r[1] == 'benign']
    skipped = [r for r in res if r[2] == 'skipped']
    # a behaviour-preserving refactoring the analysis cannot follow is answered "unknown" (exit 2), never with an alarm: that
    # outcome is recorded, and only an alarm on such a tree (or a missed / unanalysable breaking change) fails the self-test
    unknown = [r for r in g if r[2] == 'analysis-error']
    # seeded changes the rules are documented not to report (seeded/UNREPORTED.json): recorded, not a failure of the self-test
    documented = {}
    from .report import VERIF
    try:
        with open(os.path.join(VERIF, 'seeded', 'UNREPORTED.json'), encoding='utf-8') as fh:
            documented = {k: v for k, v in json.load(fh).items() if not k.startswith('_')}
    except (OSError, ValueError):
        documented = {}
    known_miss = [r for r in b if r[0] in documented and r[2] in ('missed', 'analysis-error')]
    failed = [f'{r[0]} ({r[1]}): {r[2]} {r[3]}' for r in res
              if r not in known_miss and (r[2] in ('missed', 'false-alarm', 'error', 'wrong-rule') or (r[2] == 'analysis-error' and r[1] != 'benign'))]
    bf = len([r for r in b if r[2] == 'flagged'])
    gs = len([r for r in g if r[2] == 'silent'])
    return {
        'summary': f'breaking {bf}/{len(b) - len([r for r in b if r[2] == "skipped"])} flagged, '
                   f'benign {gs}/{len(g) - len([r for r in g if r[2] == "skipped"])} silent'
                   + (f' ({len(unknown)} not followed: unknown)' if unknown else '')
                   + (f', {len(known_miss)} documented as unreported' if known_miss else '') + f', {len(skipped)} skipped',
        'benign_unknown': [r[0] for r in unknown],
        'documented_unreported': [r[0] for r in known_miss],
        'breaking_flagged': bf, 'breaking_total': len(b), 'benign_silent': gs, 'benign_total': len(g),
        'skipped': [r[0] for r in skipped],
        'failed': failed,
        'results': [{'variant': r[0], 'kind': r[1], 'outcome': r[2], 'detail': r[3]} for r in res],
    }


if __name__ == '__main__':
    props = sys.argv[1:] or [f'C{n:02d}' for n in range(1, 21)]
    rc = 0
    for p in props:
        out = run(p.upper(), os.environ.get('KPSA_REPO', '/repo'))
        print(p, out['summary'])
        for r in out['results']:
            if r['outcome'] not in ('flagged', 'silent'):
                print('   ', r)
        if '-v' in os.environ.get('KPSA_FLAGS', ''):
            for r in out['results']:
                print('   ', r)
        if out['failed']:
            rc = 1
    sys.exit(rc)
