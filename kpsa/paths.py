"""Structured path enumeration over a function body (the repo uses no goto-like constructs, so
paths are enumerated on the statement tree; loop back-edges are cut: a loop body runs 0 or 1 times)."""
from __future__ import annotations

import ast
from typing import List, Optional

from .errors import AnalysisError

MAX_PATHS = 4000


class Step:
    __slots__ = ('kind', 'node', 'truth')

    def __init__(self, kind, node, truth=None):
        self.kind = kind      # cond | stmt | loop_enter | loop_skip | try_partial | except | with
        self.node = node
        self.truth = truth

    def __repr__(self):
        s = ast.unparse(self.node).split('\n')[0][:60] if isinstance(self.node, ast.AST) else str(self.node)
        return f'{self.kind}{"" if self.truth is None else ("+" if self.truth else "-")}:{s}'


class Path:
    __slots__ = ('steps', 'end', 'end_node')

    def __init__(self, steps, end='fall', end_node=None):
        self.steps = steps
        self.end = end            # fall | return | raise | break | continue
        self.end_node = end_node

    def conds(self):
        return [(s.node, s.truth) for s in self.steps if s.kind == 'cond']

    def stmts(self):
        return [s.node for s in self.steps if s.kind == 'stmt']

    def __repr__(self):
        return f'<Path {self.end} {self.steps}>'


def _seq(body, limit) -> List[Path]:
    paths = [Path([])]
    for st in body:
        new = []
        alive = [p for p in paths if p.end == 'fall']
        done = [p for p in paths if p.end != 'fall']
        if not alive:
            break
        sub = _stmt(st, limit)
        for p in alive:
            for q in sub:
                new.append(Path(p.steps + q.steps, q.end, q.end_node))
        paths = done + new
        if len(paths) > limit:
            raise AnalysisError(f'more than {limit} paths at line {getattr(st, "lineno", "?")}; region too large for path rules')
    return paths


def _stmt(st, limit) -> List[Path]:
    if isinstance(st, ast.If):
        out = []
        for p in _seq(st.body, limit):
            out.append(Path([Step('cond', st.test, True)] + p.steps, p.end, p.end_node))
        for p in _seq(st.orelse, limit):
            out.append(Path([Step('cond', st.test, False)] + p.steps, p.end, p.end_node))
        return out
    if isinstance(st, (ast.For, ast.AsyncFor, ast.While)):
        out = []
        is_while = isinstance(st, ast.While)
        infinite = is_while and isinstance(st.test, ast.Constant) and st.test.value is True
        after_normal = _seq(st.orelse, limit) if st.orelse else [Path([])]
        if not infinite:
            for a in after_normal:
                out.append(Path([Step('loop_skip', st)] + a.steps, a.end, a.end_node))
        for p in _seq(st.body, limit):
            head = [Step('loop_enter', st)] + p.steps
            if p.end in ('fall', 'continue'):
                if infinite:
                    continue
                for a in after_normal:
                    out.append(Path(head + a.steps, a.end, a.end_node))
            elif p.end == 'break':
                out.append(Path(head, 'fall'))
            else:
                out.append(Path(head, p.end, p.end_node))
        return out
    if isinstance(st, ast.Try):
        out = []
        fin = _seq(st.finalbody, limit) if st.finalbody else [Path([])]

        def with_finally(p: Path):
            res = []
            for f in fin:
                if f.end == 'fall':
                    res.append(Path(p.steps + f.steps, p.end, p.end_node))
                else:
                    res.append(Path(p.steps + f.steps, f.end, f.end_node))
            return res
        for p in _seq(st.body, limit):
            if p.end == 'fall' and st.orelse:
                for e in _seq(st.orelse, limit):
                    out.extend(with_finally(Path(p.steps + e.steps, e.end, e.end_node)))
            else:
                out.extend(with_finally(p))
        for h in st.handlers:
            for p in _seq(h.body, limit):
                out.extend(with_finally(Path([Step('try_partial', st), Step('except', h)] + p.steps, p.end, p.end_node)))
        return out
    if isinstance(st, (ast.With, ast.AsyncWith)):
        out = []
        for p in _seq(st.body, limit):
            out.append(Path([Step('with', st)] + p.steps, p.end, p.end_node))
        return out
    if isinstance(st, ast.Return):
        return [Path([Step('stmt', st)], 'return', st)]
    if isinstance(st, ast.Raise):
        return [Path([Step('stmt', st)], 'raise', st)]
    if isinstance(st, ast.Break):
        return [Path([], 'break', st)]
    if isinstance(st, ast.Continue):
        return [Path([], 'continue', st)]
    if isinstance(st, ast.Match):
        raise AnalysisError(f'match statement at line {st.lineno} is not modelled')
    if isinstance(st, ast.Assert):
        return [Path([Step('cond', st.test, True)]), Path([Step('cond', st.test, False), Step('stmt', st)], 'raise', st)]
    return [Path([Step('stmt', st)])]


def enumerate_paths(body, limit=MAX_PATHS) -> List[Path]:
    """All acyclic paths through a statement list."""
    return _seq(list(body), limit)


def calls_in(node):
    """Call nodes inside a statement/expression, not descending into nested defs/lambdas."""
    out = []
    todo = [node]
    while todo:
        n = todo.pop()
        if isinstance(n, ast.Call):
            out.append(n)
        for c in ast.iter_child_nodes(n):
            if isinstance(c, (ast.FunctionDef, ast.AsyncFunctionDef, ast.ClassDef, ast.Lambda)):
                continue
            todo.append(c)
    return out


def step_exprs(step: Step):
    """The expression nodes evaluated by a step itself (not by nested blocks)."""
    n = step.node
    if step.kind == 'cond':
        return [n]
    if step.kind == 'stmt':
        if isinstance(n, (ast.FunctionDef, ast.AsyncFunctionDef, ast.ClassDef)):
            return []
        return [n]
    if step.kind in ('loop_enter', 'loop_skip'):
        return [n.iter] if isinstance(n, (ast.For, ast.AsyncFor)) else [n.test]
    if step.kind == 'with':
        return [i.context_expr for i in n.items]
    return []
