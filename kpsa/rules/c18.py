"""C18 - Every spine type imports every token without loss (sibling cross-check of the import_token implementations)."""
from __future__ import annotations

import ast

from ..errors import AnalysisError
from ..model import src, walk_local
from ..consteval import EnumMember, NotConst
from .. import names as N
from .. import facts as F
from .. import guards as G
from .. import symex
from . import shared

SIBLINGS = {
    'kernpy.core.text_spine_importer.TextSpineImporter': {'LYRICS'},
    'kernpy.core.dynam_spine_importer.DynamSpineImporter': {'DYNAMICS'},
    'kernpy.core.harm_spine_importer.HarmSpineImporter': {'HARMONY'},
    'kernpy.core.mhxm_spine_importer.MxhmSpineImporter': {'HARMONY', 'MHXM'},
    'kernpy.core.fing_spine_importer.FingSpineImporter': {'FINGERING'},
    'kernpy.core.basic_spine_importer.BasicSpineImporter': {'OTHER'},
}
REQUIRED = ['STRUCTURAL', 'SIGNATURES', 'EMPTY', 'BARLINES', 'IMAGE_ANNOTATIONS']
NOTE_MATERIAL = ['NOTE_REST', 'CHORD', 'CORE', 'ERROR']
DISPATCH = {'**text': 'TextSpineImporter', '**dynam': 'DynamSpineImporter', '**dyn': 'DynSpineImporter',
            '**harm': 'HarmSpineImporter', '**mxhm': 'MxhmSpineImporter', '**fing': 'FingSpineImporter',
            '**kern': 'KernSpineImporter', '**root': 'RootSpineImporter', Ellipsis: 'BasicSpineImporter'}


def run(ctx):
    ctx.explanation = (
        'Sibling cross-check of the six import_token implementations (text, dynam, harm, mxhm, fing, basic; dyn must delegate to '
        'one of them). Facts extracted by symbolic path enumeration, compared through a correspondence table, never body against '
        'body: (R1) the kern parse is inside a catch-all handler that returns SimpleToken(raw cell, OWN); (R2) the accepted '
        'category set, evaluated and closed under the hierarchy, contains the shared structure and no note material; (R3) a token '
        'under an accepted category is returned as produced by the kern importer, any other token is replaced by SimpleToken(raw '
        'cell, OWN) with the same OWN at both fallbacks - the polarity must agree in all siblings; (R4) createImporter dispatches '
        'each supported header to its importer, unknown headers to the basic importer; (R5) whole-cell consumption. The dispatch '
        'rule is decided for every cell text; the behaviour of the generated parser itself is not analysed.')
    ctx.not_decided = ['which texts the kern grammar accepts (the generated ALL(*) parser is not analysed)']
    hierarchy = ctx.ce.class_const(N.MAPPER, 'hierarchy')
    members = {m.name: m for m in ctx.ce.enum_canonical(ctx.prog.cls(N.TOKCAT))}
    closure = lambda cats: _closure(hierarchy, cats)
    facts = {}
    for qn, own_ok in SIBLINGS.items():
        facts[qn] = sibling(ctx, qn, own_ok, closure, members)
    ctx.expect_count('R3', 'sibling import_token implementations', len(facts), 6)
    r_dyn(ctx)
    r4_dispatch(ctx)
    r7_document_dispatch(ctx)
    r8_input_validation(ctx)
    shared.whole_cell_consumption(ctx, 'R5')
    # "carries the verbatim text": the cell handed to import_token by kernpy.loads / load is the text between the tabs as written
    from . import c02
    ctx.alias = {'R1': 'R10'}
    c02.r1_reader(ctx)
    ctx.alias = {}
    shared.check_token_ctors_verbatim(ctx, 'R10')
    shared.check_cells_unmodified(ctx, 'R10')
    # "barlines ... detected identically under every spine type": a row opens a measure whatever the type of the spine (C07.R3 as R11)
    from . import c07
    ctx.alias = {'R3': 'R11'}
    c07.r3_index(ctx)
    ctx.alias = {}
    from .. import regen
    regen.check(ctx, 'R6')
    # the accepted-category tests rest on is_child / valid / nodes: nodes(c) is computed afresh from the hierarchy (a set that is
    # handed out and kept would let a caller's edit change what every importer accepts)
    from . import c11
    ctx.alias = {'R5': 'R9'}
    c11.r5_selection(ctx)
    ctx.alias = {}


def _closure(tree, cats):
    out = set()

    def sub(t, inside):
        for k, v in t.items():
            i = inside or k in cats
            if i:
                out.add(k)
            sub(v, i)
    sub(tree, False)
    return out


def _is_kern_parse(ctx, call, fi):
    """<KernSpineImporter()>.import_token(<arg>)"""
    if not (isinstance(call, ast.Call) and isinstance(call.func, ast.Attribute) and call.func.attr == 'import_token'):
        return None
    c = F.constructed_class(ctx, call.func.value, fi)
    if c is None or c.qualname != f'{N.KERN_IMP}.KernSpineImporter':
        return None
    if len(call.args) == 1 and not call.keywords:
        return call.args[0]
    if not call.args and len(call.keywords) == 1 and call.keywords[0].arg == 'encoding':
        return call.keywords[0].value
    return None


def _simple_token(ctx, val, fi):
    """SimpleToken(<encoding>, <category>) -> (encoding node, category EnumMember) or None"""
    c = F.constructed_class(ctx, val, fi)
    if c is None or c.qualname != f'{N.TOKENS}.SimpleToken':
        return None
    b = F.bind_args(val, ctx.prog.find_method(c, '__init__'), True)
    if 'encoding' not in b or 'category' not in b:
        return None
    ok, cat = ctx.ce.try_eval(b['category'], fi.module, fi.cls, {})
    if not ok or not isinstance(cat, EnumMember):
        return None
    return b['encoding'], cat


class ExactSet(set):
    """An accepted set tested by plain membership (no hierarchy closure applied by the code)."""


def _plain_nodes(node):
    """TokenCategory.nodes(x) is the mapper's nodes(x) (the enum forwards): spelled `cls.nodes(x)` for the set algebra."""
    class R(ast.NodeTransformer):
        def visit_Call(self, n):
            self.generic_visit(n)
            if isinstance(n.func, ast.Attribute) and n.func.attr == 'nodes' and src(n.func.value) in ('TokenCategory', 'TokenCategoryHierarchyMapper'):
                return ast.Call(func=ast.Attribute(value=ast.Name(id='cls', ctx=ast.Load()), attr='nodes', ctx=ast.Load()), args=n.args, keywords=n.keywords)
            return n
    from ..astutil import clone
    return R().visit(clone(node))


def _accept_atom(ctx, node, fi, parse_src):
    """Recognise the accepted-category test; returns the evaluated accepted set or None.
    Forms: any(TokenCategory.is_child(child=<tok>.category, parent=c) for c in ACC)
           <tok>.category in TokenCategory.valid(include=ACC)"""
    tokcat = f'{parse_src}.category'
    if isinstance(node, ast.Call) and F.is_name(node.func, 'any') and len(node.args) == 1 \
            and isinstance(node.args[0], (ast.GeneratorExp, ast.ListComp)):
        gen = node.args[0]
        if len(gen.generators) != 1 or gen.generators[0].ifs or not isinstance(gen.generators[0].target, ast.Name):
            return None
        v = gen.generators[0].target.id
        call = gen.elt
        if not isinstance(call, ast.Call):
            return None
        r = F.callee(ctx, call, fi)
        if not (r and r[0] == 'def' and r[1].name == 'is_child' and r[1].cls is not None
                and r[1].cls.qualname in (N.TOKCAT, N.MAPPER)):
            return None
        b = F.bind_args(call, r[1], True)
        if not (F.is_name(b.get('parent'), v) and b.get('child') is not None and src(b['child']) == tokcat):
            return None
        ok, acc = ctx.ce.try_eval(gen.generators[0].iter, fi.module, fi.cls, {})
        return set(acc) if ok else None
    if isinstance(node, ast.Compare) and len(node.ops) == 1 and isinstance(node.ops[0], ast.In) and src(node.left) == tokcat:
        call = node.comparators[0]
        # membership in the descendant closure of ACC, written as a set expression
        from . import c11
        t_ = c11._set_terms(_plain_nodes(call), {})
        if t_ is not None:
            xs = {x for _, x in t_}
            if len(xs) == 1 and t_ == {('elem', next(iter(xs))), ('nodes', next(iter(xs)))}:
                try:
                    ok, acc = ctx.ce.try_eval(ast.parse(next(iter(xs)), mode='eval').body, fi.module, fi.cls, {})
                except SyntaxError:
                    ok, acc = False, None
                if ok:
                    return set(acc)
        if isinstance(call, (ast.Name, ast.Attribute, ast.Set, ast.Tuple, ast.List)):
            ok, acc = ctx.ce.try_eval(call, fi.module, fi.cls, {})
            if ok and isinstance(acc, (set, frozenset, list, tuple)):
                return ExactSet(acc)        # plain membership: the descendants are accepted only if the set lists them
        if isinstance(call, ast.Call):
            r = F.callee(ctx, call, fi)
            if r and r[0] == 'def' and r[1].name == 'valid' and len(call.keywords) == 1 and call.keywords[0].arg == 'include':
                ok, acc = ctx.ce.try_eval(call.keywords[0].value, fi.module, fi.cls, {})
                return set(acc) if ok else None
    return None


def sibling(ctx, qn, own_ok, closure, members):
    cls = ctx.prog.cls(qn)
    fi = cls.methods.get('import_token')
    if fi is None:
        raise AnalysisError(f'anchor vanished: {qn}.import_token')
    p = fi.params[1]
    sps = symex.func_sym_paths(fi)
    # --- locate the kern parse and its try
    parse_calls = []
    for n in walk_local(fi.node):
        if isinstance(n, ast.Call) and n.func and isinstance(n.func, ast.Attribute) and n.func.attr == 'import_token':
            parse_calls.append(n)
    ctx.expect_count('R1', f'kern parse call in {cls.name}.import_token', len(parse_calls), 1)
    tries = [n for n in walk_local(fi.node) if isinstance(n, ast.Try)]
    own_seen = []
    # --- R1: catch-all around the parse
    for call in parse_calls:
        at = f'{fi.module.relpath}:{call.lineno}'
        enclosing = [t for t in tries if any(call is c for b in t.body for c in ast.walk(b))]
        ok = False
        why = 'the kern parse is not inside a try block'
        for t in enclosing:
            for h in t.handlers:
                ht = src(h.type) if h.type is not None else None
                if ht in (None, 'Exception', 'BaseException'):
                    ok = True
                else:
                    why = f'the handler catches only `{ht}`'
        ctx.check(ok, 'R1', at, fi.qualname, 'catch-all', 'the kern parse is inside try/except Exception (import never fails)', why)
    # "import of the cell never fails": outside the catch-all nothing may raise for some cell text.  Positive evidence only: a
    # tuple-unpacking of a split of the cell (the number of pieces depends on the text) on a path of import_token.
    seen_unpack = set()
    for sp in sps:
        for e in sp.events:
            n_ = e.node
            if id(n_) in seen_unpack:
                continue
            seen_unpack.add(id(n_))
            if isinstance(n_, ast.Assign) and any(isinstance(t, (ast.Tuple, ast.List)) for t in n_.targets) and isinstance(n_.value, ast.Call) \
                    and isinstance(n_.value.func, ast.Attribute) and n_.value.func.attr in ('split', 'rsplit', 'splitlines') \
                    and not any(n_ is c for t_ in tries for b_ in t_.body for c in ast.walk(b_)):
                ctx.violation('R1', f'{fi.module.relpath}:{n_.lineno}', fi.qualname, 'import-can-fail:unpacked-split',
                              f'`{src(n_)[:70]}` unpacks a split of the cell outside the catch-all: a cell with another number of pieces raises '
                              f'ValueError, so the import of that cell fails instead of giving a verbatim token')
    n_handler = 0
    for sp in sps:
        if not any(e.kind == 'except' for e in sp.events):
            continue
        n_handler += 1
        at = f'{fi.module.relpath}:{sp.path.end_node.lineno if sp.path.end_node else fi.node.lineno}'
        st = _simple_token(ctx, sp.value, fi) if sp.end == 'return' and sp.value is not None else None
        if st is None and sp.value is not None and any(isinstance(n_, ast.Name) and ('#' in n_.id or '@' in n_.id) for n_ in ast.walk(sp.value)):
            raise AnalysisError(f'{at}: what the exception handler path of {cls.name}.import_token returns is not followed')
        if st is None and sp.end == 'raise' and any(isinstance(h.type, ast.Name) and isinstance(sp.path.end_node, ast.Raise)
                                                    and sp.path.end_node.exc is not None and h.type.id in src(sp.path.end_node.exc)
                                                    for t_ in tries for h in t_.handlers):
            # the handler raises an exception that another handler of the same function catches (exceptions as control flow between
            # an inner and an outer try): where that ends is not followed
            raise AnalysisError(f'{at}: the handler of {cls.name}.import_token raises `{src(sp.path.end_node.exc)[:50]}`, which another handler '
                                f'of the function catches: not followed')
        if st is None:
            ctx.violation('R1', at, fi.qualname, 'handler-fallback',
                          f'the exception handler ends with {sp.end} `{src(sp.value) if sp.value is not None else ""}`, '
                          f'expected return SimpleToken(<raw cell>, OWN)')
            continue
        enc, cat = st
        ctx.check(F.is_name(enc, p), 'R1', at, fi.qualname, 'handler-verbatim',
                  'the fallback token carries the raw cell text', f'the fallback token carries `{src(enc)}`, not the raw cell')
        own_seen.append(cat)
    ctx.expect_count('R1', f'handler paths in {cls.name}.import_token', n_handler, 1)
    # --- R3: polarity and identity on the normal paths
    accepted = None
    n_norm = 0
    for sp in sps:
        if any(e.kind == 'except' for e in sp.events):
            continue
        if sp.end == 'raise':
            # only the input validation may raise
            continue
        n_norm += 1
        at = f'{fi.module.relpath}:{sp.path.end_node.lineno if sp.path.end_node else fi.node.lineno}'
        # the parse expression along this path
        parse_src = None
        for e in sp.events:
            if e.kind == 'assign' and isinstance(e.expr, ast.Call):
                a = _is_kern_parse(ctx, e.expr, fi)
                if a is not None:
                    ctx.check(F.is_name(a, p), 'R3', at, fi.qualname, 'parse-argument',
                              'the kern importer receives the raw cell', f'the kern importer receives `{src(a)}`')
                    parse_src = src(e.expr)
        if parse_src is None:
            ctx.violation('R3', at, fi.qualname, 'no-kern-parse', 'a non-raising path does not try the kern grammar')
            continue
        cond = sp.condition()
        # find the accept atom among the path conditions
        acc_val = None
        ok_atoms = True
        for node, truth in sp.conds:
            core, pol = node, truth
            while isinstance(core, ast.UnaryOp) and isinstance(core.op, ast.Not):
                core, pol = core.operand, not pol
            if isinstance(core, ast.Compare) and len(core.ops) == 1 and isinstance(core.ops[0], ast.NotIn):
                core, pol = ast.Compare(left=core.left, ops=[ast.In()], comparators=core.comparators), not pol
            acc = _accept_atom(ctx, core, fi, parse_src)
            if acc is not None:
                accepted = acc if accepted is None else accepted
                if acc != accepted:
                    ctx.violation('R2', at, fi.qualname, 'accepted-set-varies', 'two different accepted sets are tested')
                acc_val = pol
            elif src(core) in (f'{p} is None', f"{p} == ''", f'isinstance({p}, str)'):
                continue
            elif parse_src in src(node) and any(parse_src not in a_ and a_ not in (f'{p} is None', f"'' == {p}", f'isinstance({p}, str)')
                                                 for a_ in G.atoms_of(G._formula(node))):
                # a compound test: next to the part about the parsed token it asks something else
                extra_ = [a_ for a_ in G.atoms_of(G._formula(node)) if parse_src not in a_]
                ok_atoms = False
                ctx.violation('R3', at, fi.qualname, 'extra-condition',
                              f'the outcome depends on `{extra_[0][:100]}`, not only on the accepted-category test')
            elif isinstance(core, ast.Call) and F.is_name(core.func, 'isinstance') and len(core.args) == 2 and src(core.args[0]) == parse_src \
                    and isinstance(core.args[1], ast.Name) and ctx.prog.resolve(fi.module, core.args[1].id) is not None \
                    and getattr(ctx.prog.resolve(fi.module, core.args[1].id), 'kind', None) == 'class':
                # a test on the CLASS of the parsed token: shared structure comes in several classes (signature tokens, bar tokens,
                # bounding boxes ...), so a class test separates some of it from the rest before the category is looked at
                tested = ctx.prog.resolve(fi.module, core.args[1].id).value
                outside = sorted(c_ for c_ in _listener_classes_built(ctx) if c_ not in ('NoteRestToken', 'ChordToken')
                                 and tested not in ctx.prog.mro(ctx.prog.cls(f'{N.TOKENS}.{c_}')))
                inside_only_notes = not outside
                if outside:
                    ctx.violation('R3', at, fi.qualname, f'class-test-before-category:{core.args[1].id}',
                                  f'the token produced by the kern importer is tested with isinstance(..., {core.args[1].id}) before its category: the '
                                  f'kern listener also builds {outside[:4]}, which are not {core.args[1].id}s - shared structure of those classes '
                                  f'(bounding boxes, notes that are structure in other spines) takes the other branch')
                    ok_atoms = False
                else:
                    raise AnalysisError(f'{at}: the class test `{src(node)[:80]}` on the parsed token is not followed')
            elif parse_src in src(node):
                # a test about the parsed token that is none of the recognised forms of the accepted-category test: the rule
                # cannot tell what it accepts - unknown, not wrong
                raise AnalysisError(f'{at}: the test `{src(node)[:90]}` on the parsed token is not a recognised accepted-category test')
            else:
                ok_atoms = False
                ctx.violation('R3', at, fi.qualname, 'extra-condition',
                              f'the outcome depends on `{src(node)[:100]}`, not only on the accepted-category test')
        if not ok_atoms:
            continue
        if acc_val is None:
            ctx.violation('R3', at, fi.qualname, 'no-accept-test',
                          f'a path returns `{src(sp.value)[:80]}` without testing the accepted categories')
            continue
        if acc_val:   # token category is under an accepted category: must be returned as produced
            ctx.check(sp.end == 'return' and src(sp.value) == parse_src, 'R3', at, fi.qualname, 'accepted-returned-unchanged',
                      'a token under an accepted category is returned as produced by the kern importer',
                      f'a token under an accepted category is replaced by `{src(sp.value)[:100]}` '
                      f'(polarity inverted or token rebuilt)')
        else:
            st = _simple_token(ctx, sp.value, fi) if sp.end == 'return' else None
            if st is None:
                ctx.violation('R3', at, fi.qualname, 'rejected-not-wrapped',
                              f'a token outside the accepted categories is returned as `{src(sp.value)[:100]}` '
                              f'instead of SimpleToken(<raw cell>, OWN) (polarity inverted?)')
            else:
                enc, cat = st
                ctx.check(F.is_name(enc, p), 'R3', at, fi.qualname, 'rejected-verbatim',
                          'a token outside the accepted categories is replaced by SimpleToken(raw cell, OWN)',
                          f'the replacement token carries `{src(enc)}`, not the raw cell')
                own_seen.append(cat)
    ctx.expect_count('R3', f'non-raising normal paths in {cls.name}.import_token', n_norm, 2)
    # --- OWN consistent
    names_ = {c.name for c in own_seen}
    ctx.check(len(names_) == 1 and names_ <= own_ok, 'R3', fi.loc, fi.qualname, 'own-category',
              f'both fallbacks use the spine type\'s own category {sorted(names_)}',
              f'fallback categories {sorted(names_)}; expected one of {sorted(own_ok)} at both fallbacks')
    # --- R2: accepted set
    if accepted is None:
        ctx.violation('R2', fi.loc, fi.qualname, 'accepted-set-missing', 'no accepted-category test found')
    else:
        cl = closure(accepted)
        if isinstance(accepted, ExactSet):
            lost = sorted(getattr(x, 'name', str(x)) for x in cl - set(accepted))
            ctx.check(not lost, 'R2', fi.loc, fi.qualname, 'accepted-set-not-closed',
                      'the accepted set is tested by plain membership and lists all descendants itself',
                      f'the accepted categories are tested by plain membership in a set that lacks their descendants {lost[:6]}: a clef, '
                      f'a key signature, a field comment ... parsed by the kern grammar is replaced by a verbatim token of the own category')
            cl = set(accepted)
        for r in REQUIRED:
            ctx.check(members[r] in cl, 'R2', fi.loc, fi.qualname, f'accepted-missing:{r}',
                      f'{r} is accepted (up to hierarchy closure)', f'{r} is not accepted: shared structure of that kind would '
                      f'be turned into a {sorted(names_)} token')
        bad = [m for m in NOTE_MATERIAL if members[m] in accepted or (m != 'CORE' and members[m] in cl)]
        ctx.check(not bad, 'R2', fi.loc, fi.qualname, 'accepted-note-material',
                  'no note material is accepted', f'note material accepted: {bad}')
        # a category the kern listener builds tokens of and that is NOT shared structure: such a token carries ctx.getText(), the
        # part of the cell the parser matched.  While the start rule is not anchored (finding F3) that is a prefix of the cell,
        # so accepting the category lets an "other" cell through with its text cut instead of wrapping the verbatim text.
        if not _whole_cell(ctx):
            shared_cl = closure({members[r] for r in REQUIRED + ['COMMENTS']})
            built = _listener_categories(ctx)
            leak = sorted(c for c in built if c in members and members[c] in cl and members[c] not in shared_cl
                          and c not in NOTE_MATERIAL and c not in ('NOTE_REST', 'CHORD'))
            ctx.check(not leak, 'R2', fi.loc, fi.qualname, 'accepted-unshared-kern-category',
                      'no category that the kern listener builds from the matched text is accepted beyond the shared structure',
                      f'accepted categories {leak} are built by the kern listener from ctx.getText() (the prefix the un-anchored start '
                      f'rule matched) and are not shared structure: an "other" cell of that kind keeps the parser\'s token, so its '
                      f'text is cut where the grammar stopped instead of being carried verbatim under the own category')
    return {'own': names_, 'accepted': accepted}


def _whole_cell(ctx):
    """True when the start rule is anchored (EOF) or import_token rejects an unexhausted stream (same facts as shared.whole_cell_consumption)."""
    import re
    g4 = shared._strip_g4_comments(ctx.prog.read('kern/kernSpineParser.g4'))
    m = re.search(r'^\s*start\s*:\s*([^;]*);', g4, re.M)
    if not m:
        raise AnalysisError('kern/kernSpineParser.g4: start rule not found')
    alts = [a.strip() for a in m.group(1).split('|')]
    if all(a.split() and a.split()[-1] == 'EOF' for a in alts):
        return True
    it = ctx.prog.func(f'{N.KERN_IMP}.KernSpineImporter.import_token')
    for n in walk_local(it.node):
        if isinstance(n, ast.If) and 'EOF' in src(n.test) and any(isinstance(s, ast.Raise) for b in n.body + n.orelse for s in ast.walk(b)):
            return True
    return False


def _listener_classes_built(ctx):
    """Names of the token classes (of kernpy.core.tokens) the hand-written parse-tree listener constructs."""
    mod = ctx.prog.module(N.LISTENER)
    tok = ctx.prog.module(N.TOKENS)
    out = set()
    for n in ast.walk(mod.tree):
        if isinstance(n, ast.Call) and isinstance(n.func, ast.Name) and n.func.id.endswith('Token'):
            ci = ctx.prog.classes.get(f'{N.TOKENS}.{n.func.id}')
            if ci is not None:
                out.add(n.func.id)
    if len(out) < 5:
        raise AnalysisError(f'{N.LISTENER}: token constructions not found (anchor moved)')
    return out


def _listener_categories(ctx):
    """Names of the categories passed explicitly to a token constructor in the hand-written parse-tree listener."""
    mod = ctx.prog.module(N.LISTENER)
    out = set()
    for n in ast.walk(mod.tree):
        if isinstance(n, ast.Call) and src(n.func).endswith('Token'):
            for a in list(n.args) + [k.value for k in n.keywords]:
                if isinstance(a, ast.Attribute) and isinstance(a.value, ast.Name) and a.value.id == 'TokenCategory':
                    out.add(a.attr)
    if len(out) < 3:
        raise AnalysisError(f'{N.LISTENER}: token constructions with explicit categories not found (anchor moved)')
    return out


def r_dyn(ctx):
    fi = ctx.prog.func('kernpy.core.dyn_importer.DynSpineImporter.import_token')
    p = fi.params[1]
    rets = symex.returns(fi)
    ok = False
    if len(rets) == 1 and isinstance(rets[0][1], ast.Call):
        call = rets[0][1]
        if isinstance(call.func, ast.Attribute) and call.func.attr == 'import_token':
            c = F.constructed_class(ctx, call.func.value, fi)
            if c is not None and c.qualname in SIBLINGS and 'DYNAMICS' in SIBLINGS[c.qualname]:
                tgt = ctx.prog.find_method(c, 'import_token')
                b_ = F.bind_args(call, tgt, True) if tgt is not None else {}
                ok = tgt is not None and len(call.args) + len(call.keywords) == 1 and F.is_name(b_.get(tgt.params[1]), p)
    ctx.check(ok, 'R3', fi.loc, fi.qualname, 'dyn-delegates',
              '**dyn delegates to the **dynam importer with the raw cell',
              f'DynSpineImporter.import_token returns `{src(rets[0][1]) if rets else None}`')


def r4_dispatch(ctx):
    fi = ctx.prog.func(f'{N.FACTORY}.createImporter')
    table = F.dispatch_table(ctx, fi, fi.params[0], extra_values=list(k for k in DISPATCH if k is not Ellipsis))
    for hdr, clsname in DISPATCH.items():
        end, val, sp = table[hdr]
        c = F.constructed_class(ctx, val, fi) if end == 'return' else None
        label = 'any other header' if hdr is Ellipsis else hdr
        ctx.check(c is not None and c.name == clsname, 'R4', fi.loc, fi.qualname, f'dispatch:{label}',
                  f'{label} -> {clsname}', f'{label} -> {c.name if c else end}; expected {clsname}')
    headers = ctx.ce.module_const(N.TOKENS, 'HEADERS')
    for h in sorted(headers):
        end, val, sp = table.get(h, table[Ellipsis])
        explicit = h in table and (table[h][2] is not table[Ellipsis][2] or (
            table[h][1] is not None and table[Ellipsis][1] is not None and src(table[h][1]) != src(table[Ellipsis][1])))
        ctx.check(explicit, 'R4', fi.loc, fi.qualname, f'dispatch-covers-header:{h}',
                  f'supported header {h} has its own dispatch branch', f'supported header {h} falls to the default importer')
    b = ctx.prog.resolve(ctx.prog.module('kernpy'), 'createImporter')
    ctx.check(b is not None and b.kind == 'def' and b.value is fi, 'R4', fi.loc, 'kernpy.createImporter',
              'public-reexport:createImporter', 'kernpy.createImporter is importer_factory.createImporter')


def _first_ctor_arg(ctx, call, fi):
    ci = F.constructed_class(ctx, call, fi)
    init = ctx.prog.find_method(ci, '__init__') if ci is not None else None
    if init is None or len(init.params) < 2:
        return None
    try:
        b = F.bind_args(call, init, True)
    except AnalysisError:
        return None
    v = b.get(init.params[1])
    return src(v) if v is not None else None


def r7_document_dispatch(ctx):
    """At document level every ordinary cell is imported by the importer of ITS OWN spine header, on every occurrence:
    the token of a cell comes from importer.import_token(cell) (or is the ErrorToken of the handler), with
    importer = importers[header text of the cell's parent]; importers are created by createImporter(header text)."""
    run_ = ctx.prog.func(f'{N.IMPORTER}.Importer.run')
    loops = [n for n in walk_local(run_.node) if isinstance(n, ast.For) and 'enumerate(row)' in src(n.iter)]
    ctx.expect_count('R7', 'column loop', len(loops), 1)
    lp = loops[0]
    iv, cv = (e.id for e in lp.target.elts)
    add = ctx.prog.func(f'{N.DOCUMENT}.MultistageTree.add_node')
    IV, CV = iv, cv        # symbolic execution of the loop BODY: the loop variables keep their names
    want_parent = f'self._prev_stage_parents[{IV}]'
    want_imp = f'self._importers.get({want_parent}.header_node.token.encoding)'
    kinds = {}
    bad_src, bad_imp = [], []
    for sp in symex.sym_paths(lp.body, fi=run_):
        for e in sp.events:
            c = e.expr if isinstance(e.expr, ast.Call) else None
            if c is None or not (isinstance(c.func, ast.Attribute) and c.func.attr == 'add_node' and src(c.func.value) == 'self._tree'):
                continue
            b_ = F.bind_args(c, add, True)
            tok, par = b_.get('token'), b_.get('parent')
            at = f'{run_.module.relpath}:{e.node.lineno}'
            if isinstance(tok, ast.Call) and isinstance(tok.func, ast.Attribute) and tok.func.attr == 'import_token':
                kinds['import_token'] = at
                ok_ = len(tok.args) == 1 and src(tok.args[0]) == CV and src(tok.func.value) == want_imp and src(par) == want_parent
                if not ok_:
                    bad_imp.append((at, src(tok.func.value), src(tok)[-40:], src(par)))
            elif isinstance(tok, ast.Call) and F.constructed_class(ctx, tok, run_) is not None and \
                    F.constructed_class(ctx, tok, run_).name in ('ErrorToken', 'FieldCommentToken') and _first_ctor_arg(ctx, tok, run_) == CV:
                kinds[F.constructed_class(ctx, tok, run_).name] = at
                if src(par) != want_parent:
                    bad_imp.append((at, '-', src(tok)[:40], src(par)))
            else:
                bad_src.append((at, src(tok)[:90] if tok is not None else None))
    for at, imp_, tk_, par_ in sorted(set(bad_imp))[:2]:
        ctx.violation('R7', at, run_.qualname, 'cell-importer-is-own-header',
                      f'the cell is parsed by `{imp_}` with `{tk_}` (parent {par_})')
    if not bad_imp:
        ctx.holds('R7', kinds.get('import_token', run_.loc), run_.qualname,
                  'a cell is parsed by importers[header text of its own spine path] with the raw cell text')
    for at, t_ in sorted(set(bad_src))[:2]:
        ctx.violation('R7', at, run_.qualname, 'token-from-other-source',
                      f'`{t_}`: the token of a cell does not come from the importer of its own spine (nor is it the error / '
                      f'comment token of that cell): a token parsed for another cell - possibly under another spine type - is reused, '
                      f'so the category of a cell depends on what was seen before in that column')
    ctx.expect_count('R7', 'token sources in the column loop', len(kinds), 3)
    hdr = ctx.prog.func(f'{N.IMPORTER}.Importer._compute_header_token')
    cc = hdr.params[2]
    table = F.store_table(hdr)
    rows = table.get(f'self._importers[{cc}]', [])
    other = [k for k in table if k.startswith('self._importers[') and k != f'self._importers[{cc}]']
    okh = bool(rows) and not other and all(src(v) == f'createImporter({cc})' for _, v, _ in rows)
    # created only when the header has no importer yet (one importer per spine type)
    okh = okh and all(F.forced(c_, f'self._importers.get({cc})', False) or F.forced(c_, f'{cc} in self._importers', False)
                      or F.forced(c_, f'self._importers.get({cc}) is None', True) for c_, _, _ in rows)
    ctx.check(okh, 'R7', hdr.loc, hdr.qualname,
              'importers-keyed-by-header', 'importers are created by createImporter(header text) and stored under that header text',
              f'importer table: {[(k, [src(v) for _, v, _ in r_]) for k, r_ in table.items() if k.startswith("self._importers")]}')


def r8_input_validation(ctx):
    """Import never fails for a non-empty string: the shared input validation may raise only for None, a non-string and ''."""
    f = ctx.prog.func(f'{N.SPINE_IMP}.SpineImporter._raise_error_if_wrong_input')
    p = f.params[1]
    naming = {f'{p} is None': 'none', f'isinstance({p}, str)': 'str', f"'' == {p}": 'empty'}
    bad = []
    unknown = set()
    import itertools
    sps = symex.func_sym_paths(f)
    for bits in itertools.product([False, True], repeat=3):
        v = dict(zip(['none', 'str', 'empty'], bits))
        if v['none'] and (v['str'] or v['empty']):
            continue
        if v['empty'] and not v['str']:
            continue
        taken = []
        for sp in sps:
            fm = sp.condition()
            ats = G.atoms_of(fm)
            for a in ats:
                if a not in naming:
                    unknown.add(a)
            if G.evaluate(fm, {a: v.get(naming.get(a, ''), False) for a in ats}):
                taken.append(sp)
        raises = any(sp.end == 'raise' for sp in taken)
        should = v['none'] or not v['str'] or v['empty']
        if raises != should:
            bad.append(v)
    ctx.check(not bad and not unknown, 'R8', f.loc, f.qualname, 'input-validation-table',
              "the input validation rejects exactly None, non-strings and the empty string: every other cell text is imported",
              f'the input validation also depends on {sorted(unknown)}: some non-empty cell texts (e.g. blanks) make import_token '
              f'raise outside the catch-all, so the cell becomes an error instead of a token of the spine\'s own category'
              if unknown else f'the input validation is wrong for {bad[:2]}')
    # every sibling calls it outside the try, first
    for qn in SIBLINGS:
        it = ctx.prog.cls(qn).methods['import_token']
        body = [s for s in it.body if not (isinstance(s, ast.Expr) and isinstance(s.value, ast.Constant))]
        ok = body and isinstance(body[0], ast.Expr) and src(body[0].value) == f'self._raise_error_if_wrong_input({it.params[1]})'
        ctx.check(ok, 'R8', it.loc, it.qualname, 'validation-first', 'the shared input validation is the first statement')
