"""C15 - Transposing a document moves pitches and nothing else."""
from __future__ import annotations

import ast

from ..errors import AnalysisError
from ..model import src, walk_local
from ..consteval import EnumMember
from ..effects import Effects
from .. import names as N
from .. import facts as F
from .. import guards as G
from .. import symex


def run(ctx):
    ctx.explanation = (
        'Static rules for C15 on Document.to_transposed: (R1) effect analysis - the method must not write to anything reachable '
        'from self (the source document); (R2) delegation - every PITCH sub-token is replaced by transposer.transpose(encoding, '
        'IntervalsByName[interval], direction, kern, kern) with the method\'s own interval/direction, every other sub-token and '
        'the decoration list are carried over, other token classes are not replaced, invalid arguments raise ValueError before any '
        'work; (R3) every token class that can carry PITCH sub-tokens (read from the listener) is covered by the isinstance '
        'dispatch; (R4) the accidental takes part in the transposition. Decides these structural clauses; the arithmetic itself is '
        'C09 + C16.')
    ctx.not_decided = ['equality of the transposed grid with the source grid on all documents']
    tt = ctx.prog.func(f'{N.DOCUMENT}.Document.to_transposed')
    eng = r1_effects(ctx, tt)
    global _SCOPE
    _SCOPE = [f for f in eng.reachable(tt) if f.module.name == N.DOCUMENT and not isinstance(f.node, ast.Lambda)]
    if tt not in _SCOPE:
        _SCOPE.insert(0, tt)
    r2_delegation(ctx, tt)
    r3_dispatch(ctx, tt)
    r4_accidental(ctx, tt)
    r5_no_unbounded_recursion(ctx, tt, eng)
    r6_every_node_visited(ctx, tt)
    from . import c09
    ctx.alias = {'R4': 'R2'}
    c09.r4_delegation(ctx)       # the chain transpose -> transpose_agnostics -> AgnosticPitch.to_transposed forwards interval and direction
    ctx.alias = {'R3': 'R7'}
    c09.r3_arithmetic(ctx)       # ... and to_transposed moves up exactly when the direction EQUALS 'up' (value, not identity)
    ctx.alias = {}
    # the transposed document shares nodes with its source (finding F10): anything an export remembers on a node (a memoised cell
    # text) is then read back for the other document - exports must leave nothing behind
    # the round trip goes through kern pitch strings: the importer / exporter pair of C16.R2 is an exact inverse pair (as R9)
    from . import c16
    ctx.alias = {'R2': 'R9'}
    c16.r2_octave(ctx)
    ctx.alias = {}
    # the rebuilt tokens differ from imported ones (their `encoding` is the pitch only, None for rests): whether a cell is written
    # must not depend on anything but the selection and the category (gate truth table of C05.R3 as R10)
    from .exporter_facts import RowGate, check_category_gate
    gate_ = RowGate(ctx)
    check_category_gate(ctx, 'R10', gate_)
    for u_ in gate_.unknown:
        ctx.violation('R10', gate_.f.loc, gate_.f.qualname, f'gate-extra-condition:{" ".join(u_.split())[:60]}',
                      f'append_row branches on `{u_}`: a rebuilt token (no text of its own) is written differently from an imported one')
    from . import shared
    shared.effect_free(ctx, 'R8', [f'{N.PUBLIC}.dumps'],
                       'the export of the source before the call and the export of the result after it must not communicate through the shared nodes')


def r6_every_node_visited(ctx, tt):
    """The walk over the clone reaches every node: in the work-list loop of to_transposed (or of a helper it was extracted to) no
    path leaves the loop early, and every path hands ALL children of the current node to the work list - unconditionally."""
    loops = [n for f in ([tt] + [g for g in _SCOPE if g is not tt]) for n in walk_local(f.node) if isinstance(n, ast.While)]
    loops = [w for w in loops if any(isinstance(c, ast.Call) and isinstance(c.func, ast.Attribute) and c.func.attr in ('get', 'pop', 'popleft')
                                     for c in ast.walk(w))]
    if not loops:
        # a walk over the stage table instead of the tree: every node of every stage must be taken, one by one.  Pairing the nodes
        # of a stage with another row by position (zip with the header row) silently drops the columns a split adds and pairs the
        # columns right of a split with the wrong partner.
        scope = [tt] + [g for g in _SCOPE if g is not tt]
        stage_iters = []
        for f in scope:
            for n_ in walk_local(f.node):
                gens = [(n_.target, n_.iter)] if isinstance(n_, ast.For) else \
                    [(g.target, g.iter) for g in n_.generators] if isinstance(n_, (ast.ListComp, ast.GeneratorExp, ast.SetComp)) else []
                for tg, it in gens:
                    if '.stages' in src(it) and isinstance(tg, ast.Name):
                        stage_iters.append((f, n_, tg.id))
        if stage_iters:
            for f, n_, stage_var in stage_iters:
                zips = [c for c in ast.walk(n_) if isinstance(c, ast.Call) and F.is_name(c.func, 'zip')
                        and any(F.is_name(a, stage_var) for a in c.args)]
                ctx.check(not zips, 'R6', f'{f.module.relpath}:{n_.lineno}', tt.qualname, 'walk-pairs-nodes-by-position',
                          f'the walk over the stage table takes every node of `{stage_var}`',
                          f'`{src(zips[0])[:60]}` pairs the nodes of a stage with another row by position: zip stops at the shorter row, so '
                          f'after a spine split (a row wider than the header row) the extra columns are never visited and the columns to '
                          f'the right are judged by the wrong header - their notes keep the source pitch' if zips else '')
            return
        ctx.note('R6', tt.loc, tt.qualname, 'no work-list loop: the traversal is delegated (judged by R5 / the scope rules)')
        return
    for w in loops:
        at = f'{tt.module.relpath}:{w.lineno}'
        bad = []
        n = 0
        for sp in symex.sym_paths(w.body, fi=tt):
            n += 1
            if sp.end in ('break', 'return'):
                bad.append(f'a path leaves the walk with `{sp.end}` (under `{G.show(sp.condition())[:70]}`)')
                continue
            if sp.end == 'raise':
                continue
            pushed = False
            its = [e for e in sp.events if e.kind == 'iter' and src(e.expr).endswith('.children')]
            skipped = [e for e in sp.events if e.kind == 'skip' and src(e.expr).endswith('.children')]
            for e in sp.events:
                if e.kind == 'expr' and isinstance(e.expr, ast.Call) and isinstance(e.expr.func, ast.Attribute):
                    m = e.expr.func.attr
                    if m in ('extend', 'extendleft') and e.expr.args and ('.children' in src(e.expr.args[0])):
                        pushed = True
                    if m in ('put', 'append', 'appendleft', 'put_nowait') and its:
                        pushed = True
            if not pushed and not skipped:
                bad.append(f'a path does not hand the children of the node to the work list (under `{G.show(sp.condition())[:70]}`)')
        ctx.check(not bad and n > 0, 'R6', at, tt.qualname, 'walk-reaches-every-node',
                  f'the walk over the clone cannot stop early and pushes all children of every node ({n} paths through the loop body)',
                  '; '.join(sorted(set(bad))[:2]) + ': notes that lie after that point keep their source pitch')


_SCOPE = []


def scope_nodes():
    for f in _SCOPE:
        for n in walk_local(f.node):
            yield f, n


def r1_effects(ctx, tt):
    eng = Effects(ctx.prog)
    eng.analyse([tt])
    s = eng.summary(tt)
    if s.unresolved:
        k, v = sorted(s.unresolved.items())[0]
        raise AnalysisError(f'{tt.qualname}: unresolved call `{v}` at {k}')
    bad = [e for e in s.effects.values() if e.root == ('p', 0)]
    seen = set()
    for e in bad:
        key = (e.func, e.what)
        if key in seen:
            continue
        seen.add(key)
        ctx.violation('R1', e.loc, tt.qualname, f'write-to-source:{e.func.rpartition(".")[2]}:{" ".join(e.what.split())[:50]}',
                      f'{e.func} {e.what}: a write to an object reachable from the SOURCE document (the copy made by clone() '
                      f'shares the tree nodes), so the source exports change after to_transposed')
    if not bad:
        ctx.holds('R1', tt.loc, tt.qualname, f'no write to anything reachable from self in {len(eng.reachable(tt))} reachable functions')
    other = [e for e in s.effects.values() if e.root[0] in ('g',) or (e.root[0] == 'cls' and 'NextID' not in e.what)]
    for e in other:
        ctx.violation('R1', e.loc, tt.qualname, f'shared-state-write:{e.root[1]}', f'{e.func} {e.what}: writes shared state')
    ctx.analysed['functions_reachable'] = len(eng.reachable(tt))
    return eng


def _transpose_calls(ctx, tt):
    """calls of transposer.transpose in to_transposed and in the functions of document.py it reaches (visitors, helpers)"""
    tr = ctx.prog.func(f'{N.TRANSPOSER}.transpose')
    out = []
    for f, n in scope_nodes():
        if isinstance(n, ast.Call):
            r = F.callee(ctx, n, f)
            if r and r[0] == 'def' and r[1] is tr:
                out.append((n, tr, f))
    return out


def _is_own_param(ctx, tt, cf, node, pname):
    """node denotes to_transposed's parameter `pname`: directly, or - in a helper/visitor - through an attribute or
    parameter that to_transposed initialises with that parameter."""
    if node is None:
        return False
    if cf is tt:
        return F.is_name(node, pname)
    # a closure defined inside to_transposed reads the parameter as a free variable
    outer_ = cf
    while getattr(outer_, 'outer', None) is not None:
        outer_ = outer_.outer
        if outer_ is tt and F.is_name(node, pname) and pname not in cf.all_params \
                and not any(isinstance(n_, ast.Name) and n_.id == pname and isinstance(n_.ctx, ast.Store) for n_ in ast.walk(cf.node)):
            return True
    s_ = src(node)
    # visitor attribute self.x set from a constructor argument that to_transposed passes as pname
    if isinstance(node, ast.Attribute) and F.is_name(node.value, 'self') and cf.cls is not None:
        init = cf.cls.methods.get('__init__')
        if init is not None:
            for n in walk_local(init.node):
                if isinstance(n, ast.Assign) and src(n.targets[0]) == s_ and isinstance(n.value, ast.Name):
                    ip = n.value.id
                    for call in walk_local(tt.node):
                        if isinstance(call, ast.Call) and F.constructed_class(ctx, call, tt) is cf.cls:
                            b = F.bind_args(call, init, True)
                            if F.is_name(b.get(ip), pname):
                                return True
    if isinstance(node, ast.Name) and node.id in cf.params:
        for call in walk_local(tt.node):
            if isinstance(call, ast.Call):
                r = F.callee(ctx, call, tt)
                if r and r[0] == 'def' and r[1] is cf:
                    b = F.bind_args(call, cf, cf.cls is not None)
                    if F.is_name(b.get(node.id), pname):
                        return True
    return False


def r2_delegation(ctx, tt):
    p_int, p_dir = None, None
    for p in tt.params[1:]:
        if p == 'interval':
            p_int = p
        if p == 'direction':
            p_dir = p
    if not (p_int and p_dir):
        raise AnalysisError(f'{tt.loc}: to_transposed signature changed: {tt.params}')
    calls = _transpose_calls(ctx, tt)
    ctx.expect_count('R2', 'calls of transposer.transpose in to_transposed', len(calls), 1)
    for call, tr, cf in calls:
        at = f'{cf.module.relpath}:{call.lineno}'
        b = F.bind_args(call, tr, False)
        iv = b.get('interval')
        if isinstance(iv, ast.Name):        # a value computed once before the traversal
            iv = G.substitute(iv, G.single_assignments(cf.node))
        ok_iv = isinstance(iv, ast.Subscript) and F.is_name(iv.value, 'IntervalsByName') and _is_own_param(ctx, tt, cf, iv.slice, p_int) \
            and ctx.prog.resolve(tt.module, 'IntervalsByName') is not None \
            and ctx.prog.resolve(tt.module, 'IntervalsByName').module.name == N.TRANSPOSER
        ctx.check(ok_iv, 'R2', at, tt.qualname, 'interval-forwarded', 'interval = IntervalsByName[interval] (the method\'s own parameter)',
                  f'interval argument is `{src(iv)}`')
        ctx.check(_is_own_param(ctx, tt, cf, b.get('direction'), p_dir), 'R2', at, tt.qualname, 'direction-forwarded',
                  'direction is the method\'s own parameter', f'direction argument is `{src(b.get("direction"))}`')
        for fmt in ('input_format', 'output_format'):
            node = b.get(fmt) or F.param_default(tr, fmt)
            ok, v = ctx.ce.try_eval(node, tt.module if fmt in b else tr.module)
            ctx.check(ok and v == 'kern', 'R2', at, tt.qualname, f'{fmt}-humdrum', f'{fmt} is the Humdrum spelling',
                      f'{fmt} is `{src(node)}`')
        enc = b.get('input_encoding')
        ok_enc = isinstance(enc, ast.Attribute) and enc.attr == 'encoding'
        if not ok_enc and isinstance(enc, ast.Name) and enc.id in cf.all_params and getattr(cf, 'outer', None) is not None:
            # the string is the parameter of a callback that another method applies to the sub-tokens: what it is called with is not followed
            raise AnalysisError(f'{at}: transpose() is called inside the callback `{cf.name}` on its parameter `{enc.id}`: what the callback is '
                                f'applied to is not followed')
        ctx.check(ok_enc, 'R2', at, tt.qualname, 'pitch-encoding-source', 'the transposed string is a sub-token encoding',
                  f'the transposed string is `{src(enc)}`')
    # argument validation raises ValueError before any work
    av = ctx.ce.module_const(N.TRANSPOSER, 'AVAILABLE_INTERVALS')
    clone_line = min([n.lineno for n in walk_local(tt.node) if isinstance(n, ast.Call) and src(n.func).endswith('.clone')] or [10 ** 9])
    guards = {'interval': False, 'direction': False}
    for sp in symex.func_sym_paths(tt, limit=20000):
        if sp.end != 'raise':
            continue
        # "before the document is copied" is a fact about the order of events on the path (a validation helper that is inlined
        # keeps its own line numbers)
        if any(e.expr is not None and any(isinstance(c, ast.Call) and src(c.func).endswith('.clone') for c in ast.walk(e.expr))
               for e in sp.events):
            continue
        exc = sp.path.end_node.exc
        name = src(exc.func) if isinstance(exc, ast.Call) else src(exc)
        last = sp.conds[-1] if sp.conds else None
        if last is None:
            continue
        t, truth = last
        s = src(t)
        if truth and s == f'{p_int} not in AVAILABLE_INTERVALS' and name == 'ValueError':
            guards['interval'] = True
        if truth and s.startswith(f'{p_dir} not in') and name == 'ValueError':
            ok, vals = ctx.ce.try_eval(t.comparators[0], tt.module)
            if ok and set(vals) == {'up', 'down'}:
                guards['direction'] = True
    for k, v in guards.items():
        ctx.check(v, 'R2', tt.loc, tt.qualname, f'validates-{k}', f'an invalid {k} raises ValueError before the document is copied')
    # the rebuilt token carries everything else over
    nrt = ctx.prog.cls(f'{N.TOKENS}.NoteRestToken')
    rebuilt = [n for f_, n in scope_nodes() if isinstance(n, ast.Call) and F.constructed_class(ctx, n, f_) is nrt]
    stores = [(f_, n) for f_, n in scope_nodes() if isinstance(n, ast.Assign) and any(isinstance(t, ast.Attribute) and t.attr == 'token'
                                                                                  for t in n.targets)]
    ctx.expect_count('R2', 'assignments of a node token', len(stores), 1)
    for f_, st_ in stores:
        ok_new = isinstance(st_.value, ast.Call) and F.constructed_class(ctx, st_.value, f_) is nrt
        ctx.check(ok_new, 'R2', f'{f_.module.relpath}:{st_.lineno}', tt.qualname, 'token-not-rebuilt-from-own-subtokens',
                  'a transposed node receives a NoteRestToken built in place from its own sub-tokens',
                  f'`{src(st_)[:80]}` gives the node a token that was not built from its own sub-tokens (a cached / shared token): '
                  f'two notes that only share the lookup key end up with the same durations and signifiers')
    ctx.expect_count('R2', 'NoteRestToken(...) constructions in to_transposed', len(rebuilt), 1)
    for call in rebuilt:
        at = f'{tt.module.relpath}:{call.lineno}'
        b = F.bind_args(call, ctx.prog.find_method(nrt, '__init__'), True)
        deco = b.get('decoration_subtokens')
        pds = b.get('pitch_duration_subtokens')
        own = isinstance(pds, ast.Name) and any(isinstance(x, ast.For) and 'pitch_duration_subtokens' in src(x.iter) for f2, x in scope_nodes())
        if not own:
            # the same list as one expression: a comprehension over the source token's sub-tokens that drops none of them
            val = pds
            if isinstance(pds, ast.Name):
                for f2, x in scope_nodes():
                    if isinstance(x, ast.Assign) and len(x.targets) == 1 and F.is_name(x.targets[0], pds.id):
                        val = x.value
            items = F.items_of(val) if val is not None else []
            own = len(items) == 1 and items[0][0] == 'many' and not items[0][3] and src(items[0][2]).endswith('.pitch_duration_subtokens')
        ctx.check(own, 'R2', at, tt.qualname, 'subtokens-from-own-token', 'the new sub-token list is built by iterating the source token\'s pitch_duration_subtokens')
        ctx.check(isinstance(deco, ast.Attribute) and deco.attr == 'decoration_subtokens', 'R2', at, tt.qualname,
                  'decorations-carried-over', 'the signifiers of the source token are carried over',
                  f'decoration_subtokens is `{src(deco)}`')
    # the non-pitch branch copies encoding and category
    st = ctx.prog.cls(f'{N.TOKENS}.Subtoken')
    copies = 0
    for f_, n in scope_nodes():
        if isinstance(n, ast.Call) and F.constructed_class(ctx, n, f_) is st:
            b = F.bind_args(n, ctx.prog.find_method(st, '__init__'), True)
            e, c = b.get('encoding'), b.get('category')

            def leaves(x, seen=()):
                if isinstance(x, ast.IfExp):
                    return leaves(x.body, seen) + leaves(x.orelse, seen)
                if isinstance(x, ast.Name) and x.id not in seen:
                    # a local that receives the text on each branch (`new = subtoken.encoding` / `new = transpose(...)`)
                    vals = [a.value for f3, a in scope_nodes() if isinstance(a, ast.Assign)
                            and any(isinstance(t, ast.Name) and t.id == x.id for t in a.targets)]
                    if vals:
                        return [l for v in vals for l in leaves(v, seen + (x.id,))]
                return [x]
            if isinstance(c, ast.Attribute) and c.attr == 'category' \
                    and any(isinstance(l, ast.Attribute) and l.attr == 'encoding' and src(l.value) == src(c.value) for l in leaves(e)):
                copies += 1
            elif isinstance(c, ast.Attribute) and c.attr == 'category':
                pass
            else:
                ctx.violation('R2', f'{tt.module.relpath}:{n.lineno}', tt.qualname, 'subtoken-category-changed',
                              f'`{src(n)[:80]}` does not keep the sub-token category')
    ctx.check(copies >= 1, 'R2', tt.loc, tt.qualname, 'other-subtokens-copied',
              'sub-tokens that are not pitches are copied with their encoding and category')


def r3_dispatch(ctx, tt):
    # classes that carry PITCH sub-tokens, read from the listener
    lst = ctx.prog.module(N.LISTENER)
    carriers = {}
    for f in ctx.prog.all_functions():
        if f.module is not lst:
            continue
        for n in walk_local(f.node):
            if isinstance(n, ast.Call):
                c = F.constructed_class(ctx, n, f)
                if c is None or c.module.name != N.TOKENS:
                    continue
                args = ' '.join(src(a) for a in n.args) + ' '.join(src(k.value) for k in n.keywords)
                if 'chord_tokens' in args or 'pitchduration_subtokens' in args or 'pitch_duration' in args:
                    carriers[c.qualname] = c
    ctx.expect_count('R3', 'pitch-bearing token classes built by the listener', len(carriers), 2)
    tested = []
    for f_, n in scope_nodes():
        if isinstance(n, ast.Call) and F.is_name(n.func, 'isinstance') and len(n.args) == 2:
            elts = n.args[1].elts if isinstance(n.args[1], ast.Tuple) else [n.args[1]]
            for e in elts:
                r = ctx.prog.resolve_expr(tt.module, e, None)
                if r and r[0] == 'class':
                    tested.append(r[1])
    for qn, c in sorted(carriers.items()):
        covered = any(t in ctx.prog.mro(c) for t in tested)
        ctx.check(covered, 'R3', tt.loc, tt.qualname, f'pitch-carrier-not-dispatched:{c.name}',
                  f'{c.name} (carries pitches) is handled by the isinstance dispatch',
                  f'{c.name} carries PITCH sub-tokens (built by the listener) but to_transposed has no isinstance branch for it: '
                  f'its notes are not transposed')


def r4_accidental(ctx, tt):
    members = {m.name: m for m in ctx.ce.enum_canonical(ctx.prog.cls(N.TOKCAT))}
    mentions = False
    for f_, n in scope_nodes():
        if isinstance(n, ast.Attribute) and n.attr == 'ALTERATION':
            mentions = True
    calls = _transpose_calls(ctx, tt)
    at = f'{tt.module.relpath}:{calls[0][0].lineno}' if calls else tt.loc
    ctx.check(mentions, 'R4', at, tt.qualname, 'alteration-ignored',
              'the ALTERATION sub-token takes part in the transposition',
              'only sub-tokens of category PITCH are handed to transpose(); the ALTERATION sub-token (the accidental) is copied '
              'unchanged next to the transposed letter, so `4d#` up a minor second does not become `4e`')


def r5_no_unbounded_recursion(ctx, tt, eng):
    """The call may fail only for an unspellable pitch: no function reachable from to_transposed may recurse over the tree
    (one Python frame per row of the score raises RecursionError on long documents)."""
    bad = []
    for f in eng.reachable(tt):
        if f.module.name == N.TOKENS or isinstance(f.node, ast.Lambda):
            continue      # the category hierarchy has depth 4
        summ = eng.summaries.get(id(f.node))
        if summ is not None and id(f.node) in summ.callees:
            bad.append(f)
    ctx.check(not bad, 'R5', bad[0].loc if bad else tt.loc, tt.qualname, 'recursion-over-the-tree',
              'no function reachable from to_transposed is recursive: the walk over the document is iterative',
              f'{[b.qualname.rpartition(".")[0].rpartition(".")[2] + "." + b.name for b in bad]} reachable from to_transposed recurse over '
              f'the tree: a score of about a thousand rows raises RecursionError although every pitch is spellable')
