"""C07 - Measure ranges partition the score."""
from __future__ import annotations

import ast
import itertools

from ..errors import AnalysisError
from ..astutil import clone
from ..model import src, walk_local, docstring_free
from ..affine import affine, NotAffine
from .. import names as N
from .. import facts as F
from .. import guards as G
from .. import symex
from ..paths import enumerate_paths
from .exporter_facts import EXP

A = 'options.from_measure'
B = 'options.to_measure'
IDX = 'document.measure_start_tree_stages'
STG = 'document.tree.stages'
L0 = 10    # representative len(index); guards are difference bounds on (b - L), (a - 0), (b - a)
S0 = 50


def run(ctx):
    ctx.explanation = (
        'Static rules for C07: (R1) export_options_validator raises ValueError exactly for a negative start, an end beyond the '
        'measure count and an end before the start - decided by enumerating the finitely many regions of its difference-bound '
        'guards - and is called first in export_string; (R2) range -> stage arithmetic of export_string: with L = len(index), '
        'S = len(stages), the upper stage bound must be index[b] on the whole region 1 <= b <= L-1 and S-1 for b = None or b = L, '
        'the lower bound index[a-1] for a >= 1 and 0 for a in {None, 0}, and the stage loop is range(from_stage, to_stage + 1); '
        'decided by walking the if-tree that assigns the two bounds over all regions of (b - L) and a; (R3) the measure index gets at '
        'most one entry per row, after the cells of the row, under the flag whose guard is `category == BARLINES or (category under '
        'CORE and the index is empty)`; (R4) iteration protocol: iter(range(FIRST_MEASURE, count + 1)), FIRST_MEASURE == 1, '
        'measures_count = len(index). Index[k-1] is the stage of the barline that opens measure k, so these clauses are what makes '
        'single-measure exports a partition.')
    ctx.not_decided = ['whether the barlines found at import are the musically intended measure boundaries']
    r1_validator(ctx)
    r2_arithmetic(ctx)
    r3_index(ctx)
    r4_iteration(ctx)
    from . import shared as _sh
    _sh.check_stage_loop_complete(ctx, 'R2')
    _sh.check_copied_nodes_keep_stage(ctx, 'R2')
    _sh.no_identity_comparison_of_numbers(ctx, 'R2', [f'{N.EXPORTER}.Exporter.export_string', f'{N.EXPORTER}.Exporter.export_options_validator'])
    # every range is exported from the same document: an export leaves nothing behind (no cached rows, no state) for the next
    from . import shared
    shared.effect_free(ctx, 'R5', [f'{N.PUBLIC}.dumps'],
                       'an export that keeps rows or state changes what the export of another (or the same) range returns')


def _vals(a, b, L=L0, S=S0):
    return {A: a, B: b, f'len({IDX})': L, f'len({STG})': S}


# --------------------------------------------------------------------------- R1
def r1_validator(ctx):
    v = ctx.prog.func(f'{EXP}.export_options_validator')
    if v.params[1:3] != ['document', 'options']:
        raise AnalysisError(f'{v.loc}: validator signature changed')
    sps = symex.func_sym_paths(v)
    a_vals = [None, -3, -1, 0, 1, 4, L0, L0 + 2]
    b_vals = [None, -1, 0, 1, 3, 4, 5, L0 - 1, L0, L0 + 1, L0 + 5]
    wrong = []
    not_value_error = set()
    n = 0
    for a, b in itertools.product(a_vals, b_vals):
        m = _vals(a, b)
        taken = []
        for sp in sps:
            ok_all = True
            for node, truth in sp.conds:
                ok, val = F.eval_concrete(ctx, node, m, v.module)
                if not ok:
                    # short-circuit aware evaluation failed (e.g. None < 0): evaluate lazily through BoolOp handling
                    raise AnalysisError(f'{v.loc}: validator condition `{src(node)[:80]}` is outside the difference-bound fragment')
                if bool(val) != truth:
                    ok_all = False
                    break
            if ok_all:
                taken.append(sp)
        if len(taken) != 1:
            raise AnalysisError(f'{v.loc}: {len(taken)} validator paths for a={a}, b={b}')
        sp = taken[0]
        n += 1
        should = (a is not None and a < 0) or (b is not None and b > L0) or (a is not None and b is not None and b < a)
        raised = sp.end == 'raise'
        if raised != should:
            wrong.append((a, b, 'raises' if raised else 'accepts'))
        if raised:
            exc = sp.path.end_node.exc
            nm = src(exc.func) if isinstance(exc, ast.Call) else src(exc)
            if nm != 'ValueError':
                not_value_error.add(nm)
    ctx.check(not wrong, 'R1', v.loc, v.qualname, 'validator-regions',
              f'the validator rejects exactly: from < 0, to > measure count, to < from ({n} regions of (from, to) enumerated, '
              f'measure count = {L0})',
              f'validator is wrong on (from, to, verdict) = {wrong[:5]} with measure count {L0}: out-of-range input is clamped or '
              f'valid input rejected')
    ctx.check(not not_value_error, 'R1', v.loc, v.qualname, 'validator-exception-type',
              'every rejection raises ValueError', f'rejections raise {sorted(not_value_error)}')
    ctx.count('R1.regions', n)
    es = ctx.prog.func(f'{EXP}.export_string')
    body = docstring_free(es.body)
    first = body[0]
    okf = isinstance(first, ast.Expr) and isinstance(first.value, ast.Call) \
        and src(first.value) in ('self.export_options_validator(document, options)', 'Exporter.export_options_validator(document, options)',
                                 'self.export_options_validator(document=document, options=options)')
    ctx.check(okf, 'R1', f'{es.module.relpath}:{first.lineno}', es.qualname, 'validator-first',
              'export_string validates the options before reading them',
              f'the first statement of export_string is `{src(first)[:80]}`, not the validator call')


# --------------------------------------------------------------------------- R2
def _region_value(ctx, f, sps, m):
    taken = []
    env = {k: v for k, v in G.single_assignments(f.node).items() if k not in ('to_stage', 'from_stage')}
    for sp in sps:
        ok_all = True
        for node, truth in sp.conds:
            node = G.substitute(node, env)
            ok, val = F.eval_concrete(ctx, node, m, f.module)
            if not ok:
                raise AnalysisError(f'{f.loc}: condition `{src(node)[:80]}` is outside the difference-bound fragment')
            if bool(val) != truth:
                ok_all = False
                break
        if ok_all:
            taken.append(sp)
    if len(taken) != 1:
        raise AnalysisError(f'{f.loc}: {len(taken)} paths for region {m}')
    return taken[0]


def _locals(f):
    return {k: v for k, v in G.single_assignments(f.node).items() if k not in ('to_stage', 'from_stage')}


def _norm_value(ctx, f, node):
    """'index[<affine>]' or '<affine>'"""
    if isinstance(node, ast.Subscript) and src(node.value) == IDX:
        try:
            return f'index[{affine(node.slice).key()}]'
        except NotAffine:
            return f'index[{src(node.slice)}]'
    try:
        return affine(node).key()
    except NotAffine:
        return src(node)


def _loop_shift(es):
    """The stage loop is `range(from_stage, to_stage + k)`: its last stage is to_stage + k - 1.  -> (loop node or None, k - 1 or None).
    A half-open convention (to_stage exclusive, k = 0) is the same set of stages when to_stage is one larger: the region rule below
    is stated on the last stage the loop visits, not on the spelling of the bound."""
    loops = [n_ for n_ in walk_local(es.node) if isinstance(n_, ast.For) and isinstance(n_.iter, ast.Call) and F.is_name(n_.iter.func, 'range')
             and 'stage' in src(n_.iter)]
    loops = [lp for lp in loops if 'from_stage' in src(lp.iter) or 'to_stage' in src(lp.iter)]
    if len(loops) != 1 or len(loops[0].iter.args) != 2:
        return (loops[0] if len(loops) == 1 else None), None
    try:
        d = affine(loops[0].iter.args[1]) - affine(ast.parse('to_stage', mode='eval').body)
    except NotAffine:
        return loops[0], None
    return loops[0], (d.const - 1 if d.is_const() else None)


def _norm_shifted(node, shift):
    """'index[<affine>]' or '<affine>' of node + shift."""
    from ..affine import Aff

    def term(n_):
        if isinstance(n_, ast.Subscript) and src(n_.value) == IDX:
            try:
                return f'index[{affine(n_.slice).key()}]'
            except NotAffine:
                return f'index[{src(n_.slice)}]'
        return None
    try:
        a = affine(node, None, term) + Aff({}, shift)
    except NotAffine:
        return src(node)
    if a.const == 0 and len(a.terms) == 1 and list(a.terms.values()) == [1] and list(a.terms)[0].startswith('index['):
        return list(a.terms)[0]
    return a.key()


def r2_arithmetic(ctx):
    es = ctx.prog.func(f'{EXP}.export_string')
    body = docstring_free(es.body)
    _lp, shift = _loop_shift(es)
    shift = shift if shift is not None else 0
    # ---- to_stage
    proj = F.project(body, {'to_stage'})
    sps = symex.sym_paths(proj)
    bad = []
    n = 0
    at_to = f'{es.module.relpath}:{proj[0].lineno if proj else es.node.lineno}'
    for b in [None] + list(range(1, L0 + 1)):
        for a in (None, 1):
            if a is not None and b is not None and b < a:
                continue
            sp = _region_value(ctx, es, sps, _vals(a, b))
            val = sp.env.get('to_stage')
            if val is None:
                raise AnalysisError(f'{es.loc}: export_string has no local `to_stage` (the stage window lives in another object): not followed')
            val = G.substitute(val, _locals(es)) if val is not None else None
            got = _norm_shifted(val, shift) if val is not None else None
            want = f'index[1*{B}]' if (b is not None and b <= L0 - 1) else affine(ast.parse(f'len({STG}) - 1', mode='eval').body).key()
            n += 1
            if got != want:
                bad.append((b, got))
    ctx.check(not bad, 'R2', at_to, es.qualname, 'to-stage-regions',
              f'upper stage bound = index[to_measure] for 1 <= to_measure <= L-1, last stage for to_measure in {{None, L}} '
              f'({n} regions, L = {L0})',
              f'upper stage bound is wrong for to_measure = {[b for b, _ in bad][:4]} (L = {L0}): got {sorted({g for _, g in bad}, key=str)[:2]}; '
              f'exporting measure L-1 of a score without a final barline also exports measure L, so single-measure exports are not a partition')
    # ---- from_stage
    proj = F.project(body, {'from_stage'})
    sps = symex.sym_paths(proj)
    bad = []
    for a in [None, 0, 1, 2, 5, L0]:
        sp = _region_value(ctx, es, sps, _vals(a, None))
        val = sp.env.get('from_stage')
        val = G.substitute(val, _locals(es)) if val is not None else None
        got = _norm_value(ctx, es, val) if val is not None else None
        want = f'index[1*{A} + -1]' if a else '0'
        if got != want:
            bad.append((a, got))
    at_from = f'{es.module.relpath}:{proj[0].lineno if proj else es.node.lineno}'
    ctx.check(not bad, 'R2', at_from, es.qualname, 'from-stage-regions',
              'lower stage bound = index[from_measure - 1] for from_measure >= 1, 0 for from_measure in {None, 0}',
              f'lower stage bound is wrong for from_measure = {[a for a, _ in bad]}: got {sorted({str(g) for _, g in bad})[:2]}')
    # ---- the loop
    loops = [n_ for n_ in walk_local(es.node) if isinstance(n_, ast.For) and isinstance(n_.iter, ast.Call) and F.is_name(n_.iter.func, 'range')
             and 'stage' in src(n_.iter)]
    loops = [lp for lp in loops if 'from_stage' in src(lp.iter) or 'to_stage' in src(lp.iter)]
    ctx.expect_count('R2', 'stage loop', len(loops), 1)
    for lp in loops:
        args = lp.iter.args
        ok = len(args) == 2 and src(args[0]) == 'from_stage'
        if ok:
            try:
                d_ = affine(args[1]) - affine(ast.parse('to_stage', mode='eval').body)
                ok = d_.is_const()      # to_stage + k: the offset k is accounted for in the region rule (last stage visited)
            except NotAffine:
                ok = False
        ctx.check(ok, 'R2', f'{es.module.relpath}:{lp.lineno}', es.qualname, 'stage-loop-bounds',
                  'the stage loop is range(from_stage, to_stage + 1) (closing barline included)',
                  f'the stage loop is `{src(lp.iter)}`')


# --------------------------------------------------------------------------- R3
BAR_A = 'TokenCategory.BARLINES == token.category'
CORE_A = 'TokenCategory.is_child(child=token.category, parent=TokenCategory.CORE)'
NF_A = 'nonempty(self._document.measure_start_tree_stages)'
SIG_A = 'isinstance(token, SignatureToken)'
BBOX_A = 'isinstance(token, BoundingBoxToken)'


def cell_paths(ctx, run_):
    """Every non-raising path through the cells of a row (the body of the column loop of Importer.run) that builds a node for
    an ordinary token: (SymPath, token expression handed to add_node, path condition).  In the condition the tests about the
    token of the cell are renamed to BAR_A / CORE_A / SIG_A / BBOX_A, whatever the token is called or how it was produced."""
    col_loops = [n for n in walk_local(run_.node) if isinstance(n, ast.For) and 'enumerate(row)' in src(n.iter)]
    if len(col_loops) != 1:
        raise AnalysisError(f'{run_.loc}: the loop over the cells of a row is not recognised')
    add = ctx.prog.func(f'{N.DOCUMENT}.MultistageTree.add_node')
    out = []
    for sp in symex.sym_paths(col_loops[0].body, limit=20000, fi=run_):
        if sp.end == 'raise':
            continue
        adds = [e for e in sp.events if isinstance(e.expr, ast.Call) and isinstance(e.expr.func, ast.Attribute)
                and e.expr.func.attr == 'add_node' and src(e.expr.func.value) == 'self._tree']
        if not adds:
            continue        # a header / spine-operator cell: handled by its own helper
        # the token of this cell is whatever add_node received: atoms are phrased on it
        tok = F.bind_args(adds[-1].expr, add, True).get('token')
        if tok is None:
            raise AnalysisError(f'{run_.loc}: the token handed to add_node is not recognised')
        fm = F.fold(ctx, F._conj_node(sp), run_) if sp.conds else None
        f_ = G._formula(fm) if fm is not None else ('const', True)
        # built from the tree, never from text: symbolic names such as `error@exc` do not survive a re-parse
        cat_node = ast.Attribute(value=clone(tok), attr='category', ctx=ast.Load())
        tc = lambda m: ast.Attribute(value=ast.Name(id='TokenCategory', ctx=ast.Load()), attr=m, ctx=ast.Load())
        ren = {G._cmp_atom(cat_node, ast.Eq(), tc('BARLINES'))[1]: BAR_A,
               f'TokenCategory.is_child(child={src(cat_node)}, parent=TokenCategory.CORE)': CORE_A,
               f'TokenCategory.is_child({src(cat_node)}, TokenCategory.CORE)': CORE_A,
               f'isinstance({src(tok)}, SignatureToken)': SIG_A,
               f'isinstance({src(tok)}, BoundingBoxToken)': BBOX_A}
        f_ = G.map_atoms(f_, lambda a_: ('atom', ren[a_]) if a_ in ren else None)
        out.append((sp, tok, f_, adds[-1]))
    return out


def r3_index(ctx):
    run_ = ctx.prog.func(f'{N.IMPORTER}.Importer.run')
    idx = 'self._document.measure_start_tree_stages'
    apps = [n for n in walk_local(run_.node) if isinstance(n, ast.Call) and src(n.func) == f'{idx}.append']
    ctx.expect_count('R3', 'appends to the measure index', len(apps), 1)
    # the index only grows: an entry, once recorded, is the stage where that measure starts.  Overwriting, inserting or removing an
    # entry while importing makes the measure count of a prefix of the text differ from the count the same rows give in a longer text.
    imp_cls = run_.cls
    for m_ in (imp_cls.methods.values() if imp_cls is not None else [run_]):
        for n in walk_local(m_.node):
            hit = None
            if isinstance(n, (ast.Assign, ast.AugAssign, ast.Delete)):
                tg = n.targets if isinstance(n, (ast.Assign, ast.Delete)) else [n.target]
                if any(isinstance(t, ast.Subscript) and src(t.value).endswith('measure_start_tree_stages') for t in tg):
                    hit = n
            if isinstance(n, ast.Call) and isinstance(n.func, ast.Attribute) and src(n.func.value).endswith('measure_start_tree_stages') \
                    and n.func.attr in ('pop', 'insert', 'remove', 'clear', 'reverse', 'sort'):
                hit = n
            if hit is not None:
                ctx.violation('R3', f'{m_.module.relpath}:{hit.lineno}', m_.qualname, 'measure-index-entry-rewritten',
                              f'`{src(hit)[:70]}` changes an entry of the measure index after it was recorded: the number of measures of a prefix '
                              f'of the text (what concat computes for each fragment) no longer agrees with the index of the whole text, and '
                              f'the stage of an already opened measure moves')
    col_loops = [n for n in walk_local(run_.node) if isinstance(n, ast.For) and 'enumerate(row)' in src(n.iter)]
    if not col_loops:
        raise AnalysisError(f'{run_.loc}: Importer.run has no loop over the cells of a row (the cells are imported by a helper called from an '
                            f'expression): not followed')
    for a in apps:
        at = f'{run_.module.relpath}:{a.lineno}'
        guard, g_size = None, None
        for n in walk_local(run_.node):
            if isinstance(n, ast.If) and a in [x for s in n.body for x in ast.walk(s)]:
                size = sum(1 for _ in ast.walk(n))      # the innermost `if` around the append (line numbers move with helpers)
                if guard is None or size < g_size:
                    guard, g_size = n, size
        # the row flag: a name tested as such, or a carried value tested against None
        flag = None
        if guard is not None:
            t_ = guard.test
            if isinstance(t_, ast.Name):
                flag = t_.id
            elif isinstance(t_, ast.Compare) and len(t_.ops) == 1 and isinstance(t_.ops[0], ast.IsNot) and isinstance(t_.left, ast.Name) \
                    and isinstance(t_.comparators[0], ast.Constant) and t_.comparators[0].value is None:
                flag = t_.left.id
            elif isinstance(t_, ast.UnaryOp) and isinstance(t_.op, ast.Not) and isinstance(t_.operand, ast.Compare) and len(t_.operand.ops) == 1 \
                    and isinstance(t_.operand.ops[0], ast.Is) and isinstance(t_.operand.left, ast.Name) \
                    and isinstance(t_.operand.comparators[0], ast.Constant) and t_.operand.comparators[0].value is None:
                flag = t_.operand.left.id
        okg = flag is not None
        in_col_loop = any(a in list(ast.walk(lp)) for lp in col_loops)
        is_reset = lambda v: isinstance(v, ast.Constant) and (v.value is False or v.value is None)
        sets = [n for n in walk_local(run_.node) if isinstance(n, ast.Assign) and any(F.is_name(t, flag) for t in n.targets)] if okg else []
        resets = [s_ for s_ in sets if is_reset(s_.value)]
        trues = [s_ for s_ in sets if not is_reset(s_.value)]
        # what is appended: the current stage, directly or as the value the flag carries
        ok_arg = len(a.args) == 1 and (src(a.args[0]) == 'self._tree_stage'
                                       or (okg and F.is_name(a.args[0], flag) and trues and all(src(s_.value) == 'self._tree_stage' for s_ in trues)))
        # on every path through one turn of the row loop: at most one append, and after the cells of the row were read
        after = True
        rows_ = [n for n in docstring_free(run_.body) if isinstance(n, ast.For)]
        if len(rows_) != 1:
            raise AnalysisError(f'{run_.loc}: the row loop of Importer.run is not recognised')
        for sp in symex.sym_paths(rows_[0].body, limit=60000, fi=run_):
            if sp.end == 'raise':
                continue
            i_app = [i for i, e in enumerate(sp.events) if e.kind == 'expr' and isinstance(e.expr, ast.Call) and src(e.expr.func) == f'{idx}.append']
            i_cells = [i for i, e in enumerate(sp.events) if e.kind in ('iter', 'skip') and any(e.node is lp for lp in col_loops)]
            if len(i_app) > 1 or (i_app and i_cells and i_app[0] < max(i_cells)):
                after = False
        ctx.check(ok_arg and not in_col_loop and after and okg, 'R3', at, run_.qualname, 'index-append-once-per-row',
                  'the measure index receives the current stage at most once per row, after the cells of the row, under a flag',
                  'the measure index is appended inside the column loop or without the row flag: a row with several barlines '
                  'would open several measures')
        if not okg:
            continue
        ok_reset = len(resets) == 1 and not any(resets[0] in list(ast.walk(lp)) for lp in col_loops)
        ctx.check(ok_reset and len(trues) >= 1 and len(sets) == len(resets) + len(trues), 'R3', at, run_.qualname, 'flag-discipline',
                  'the flag is cleared once per row before the cells and only ever set inside the row')
        # on every path through the cells of a row that builds a node for an ordinary token: the flag is set exactly when the
        # token is a barline, or core material while no measure is open yet (whatever the branching / helper structure)
        bar_a, core_a, nf_a = BAR_A, CORE_A, NF_A
        expected = lambda v: v[bar_a] or (v[core_a] and not v[nf_a])
        bad, n_paths = [], 0
        for sp, tok, f_, _add in cell_paths(ctx, run_):
            n_paths += 1
            sets_flag = any(e.kind == 'assign' and e.target == [flag] and not is_reset(e.expr) for e in sp.events)
            ats = G.atoms_of(f_)
            named = [a_ for a_ in (bar_a, core_a, nf_a)]
            free = [a_ for a_ in ats if a_ not in named]
            if len(free) > 14:
                raise AnalysisError(f'{run_.loc}: too many conditions on a path through the cells of a row')
            for bits in itertools.product([False, True], repeat=3):
                v = dict(zip(named, bits))
                possible = any(G.evaluate(f_, dict(v, **dict(zip(free, fb)))) for fb in itertools.product([False, True], repeat=len(free)))
                if possible and bool(expected(v)) != sets_flag:
                    bad.append(('sets' if sets_flag else 'does not set') + f' the flag for bar={v[bar_a]}, core={v[core_a]}, '
                               f'measure open={v[nf_a]}')
        ctx.check(not bad and n_paths > 0, 'R3', at, run_.qualname, 'measure-start-guard',
                  f'a row opens a measure iff it holds a barline, or core material while no measure is open yet ({n_paths} paths through the cells)',
                  f'a path through the cells of a row {sorted(set(bad))[0] if bad else ""}: differs from `BARLINES or (under CORE and index empty)`')
    d = ctx.prog.func(f'{N.DOCUMENT}.Document.__init__')
    ok = any(isinstance(n, ast.Assign) and src(n.targets[0]) == 'self.measure_start_tree_stages' and src(n.value) == '[]'
             for n in walk_local(d.node))
    ctx.check(ok, 'R3', d.loc, d.qualname, 'index-starts-empty', 'a new document has an empty measure index')


# --------------------------------------------------------------------------- R4
def r4_iteration(ctx):
    doc = ctx.prog.cls(f'{N.DOCUMENT}.Document')
    first = ctx.ce.class_const(doc.qualname, 'FIRST_MEASURE')
    ctx.check(first == 1, 'R4', doc.loc, f'{doc.qualname}.FIRST_MEASURE', 'first-measure-is-1', 'FIRST_MEASURE == 1',
              f'FIRST_MEASURE == {first}')
    it = ctx.prog.func(f'{doc.qualname}.__iter__')
    rets = symex.returns(it)
    ok = False
    if len(rets) == 1:
        v = rets[0][1]
        if isinstance(v, ast.Call) and F.is_name(v.func, 'iter') and len(v.args) == 1 and isinstance(v.args[0], ast.Call) \
                and F.is_name(v.args[0].func, 'range') and len(v.args[0].args) == 2:
            lo, hi = v.args[0].args
            try:
                ok = src(lo) in ('self.get_first_measure()', 'self.FIRST_MEASURE', 'Document.FIRST_MEASURE') and \
                    affine(hi) == affine(ast.parse('self.measures_count() + 1', mode='eval').body)
            except NotAffine:
                ok = False
    ctx.check(ok, 'R4', it.loc, it.qualname, 'iteration-range', 'iterating a document yields range(first measure, measure count + 1)',
              f'__iter__ returns `{src(rets[0][1]) if rets else None}`')
    gf = ctx.prog.func(f'{doc.qualname}.get_first_measure')
    mc = ctx.prog.func(f'{doc.qualname}.measures_count')
    for f, want in ((gf, {'self.FIRST_MEASURE', 'Document.FIRST_MEASURE', 'cls.FIRST_MEASURE'}), (mc, {'len(self.measure_start_tree_stages)'})):
        rets = [(c, v, sp) for c, v, sp in symex.returns(f)]
        vals = {src(v) for _, v, _ in rets}
        ctx.check(vals and vals <= want, 'R4', f.loc, f.qualname, f'{f.name}-value',
                  f'{f.name} returns {sorted(want)[0]}', f'{f.name} returns {sorted(vals)}')
        for sp in symex.func_sym_paths(f):
            if sp.end == 'raise':
                c = G.show(sp.condition())
                ctx.check(c in ('not (nonempty(self.measure_start_tree_stages))', 'not nonempty(self.measure_start_tree_stages)'), 'R4', f.loc, f.qualname, f'{f.name}-raises-only-when-empty',
                          f'{f.name} raises only for a document without measures', f'{f.name} raises when `{c}`')
