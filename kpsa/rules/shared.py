"""Rules shared by several properties (each property records its own instance)."""
from __future__ import annotations

import ast
import re

from ..errors import AnalysisError
from ..model import src, walk_local
from .. import names as N
from .. import facts as F


# --------------------------------------------------------------------------- whole-cell consumption (C03.R6, C12.R5, C18.R5)
def whole_cell_consumption(ctx, rule):
    """The start rule consumes EOF (grammar AND generated parser), or import_token rejects a cell whose
    token stream is not exhausted.  Otherwise a parsable prefix is accepted and the rest silently dropped."""
    g4 = ctx.prog.read('kern/kernSpineParser.g4')
    m = re.search(r'^\s*start\s*:\s*([^;]*);', _strip_g4_comments(g4), re.M)
    if not m:
        raise AnalysisError('kern/kernSpineParser.g4: start rule not found')
    line = g4[:g4.index('start')].count('\n') + 1
    alts = [a.strip() for a in m.group(1).split('|')]
    g_anchored = all(a.split() and a.split()[-1] == 'EOF' for a in alts)
    gen = ctx.prog.func('kernpy.core.generated.kernSpineParser.kernSpineParser.start')
    p_anchored = any(isinstance(n, ast.Call) and src(n.func) == 'self.match' and n.args and src(n.args[0]).endswith('.EOF')
                     for n in walk_local(gen.node))
    it = ctx.prog.func(f'{N.KERN_IMP}.KernSpineImporter.import_token')
    checked = False
    for n in walk_local(it.node):
        if isinstance(n, ast.If) and 'EOF' in src(n.test):
            if any(isinstance(s, ast.Raise) for b in n.body + n.orelse for s in ast.walk(b)):
                checked = True
    ok = (g_anchored and p_anchored) or checked
    ctx.check(ok, rule, f'kern/kernSpineParser.g4:{line}', it.qualname, 'start-rule-not-anchored',
              'whole-cell consumption: the start rule ends with EOF in grammar and generated parser, or import_token rejects '
              'an unexhausted token stream',
              f'grammar rule `start: {m.group(1).strip()};` has no EOF (generated start() matches EOF: {p_anchored}) and '
              f'KernSpineImporter.import_token does not check that the token stream is exhausted: a parsable prefix of a cell '
              f'is accepted and the rest silently discarded')
    ctx.check(g_anchored == p_anchored, rule, gen.loc, gen.qualname, 'generated-parser-disagrees-with-grammar',
              'grammar and generated parser agree on whether start consumes EOF')


def _strip_g4_comments(s):
    s = re.sub(r'/\*.*?\*/', lambda m: '\n' * m.group(0).count('\n'), s, flags=re.S)
    s = re.sub(r'//[^\n]*', '', s)
    return s


# --------------------------------------------------------------------------- verbatim tokens through the plain encodings (C03.R3, C12.R4)
def plain_encodings_keep_verbatim_text(ctx, rule):
    """The plain / basic tokenizers delete (or cut at) the separator characters.  Tokens that export their stored text
    (lyrics, comments, error tokens, ...) never contain separators inserted by kernpy, so their text must bypass that
    post-processing - otherwise a cell whose own text contains '@' or the middle dot is altered."""
    tk = N.TOKENIZERS
    sites = []
    for cls, kind in (('KernTokenizer', 'deletes'), ('BkernTokenizer', 'deletes'), ('AKernTokenizer', 'deletes'), ('BekernTokenizer', 'cuts at')):
        f = ctx.prog.func(f'{tk}.{cls}.tokenize')
        tok = f.params[1]
        guarded = any(isinstance(n, ast.Call) and F.is_name(n.func, 'isinstance') and n.args and F.is_name(n.args[0], tok)
                      for n in walk_local(f.node))
        post = any(isinstance(n, ast.Call) and isinstance(n.func, ast.Attribute) and n.func.attr in ('replace', 'split', 'translate')
                   for n in walk_local(f.node))
        if post and not guarded:
            sites.append((f, kind))
    if sites:
        f = sites[0][0]
        ctx.violation(rule, f.loc, f'{tk}.KernTokenizer.tokenize', 'plain-encoding-alters-verbatim-text',
                      f'{", ".join(s_[0].cls.name for s_ in sites)} post-process the text of EVERY token, also of tokens that export their '
                      f'stored text verbatim (lyrics, comments, error tokens): a cell whose own text contains `@` or the middle dot is '
                      f'altered in the plain / basic encodings (`col·la` -> `colla`, malformed `4c·` -> `4c`)')
    else:
        ctx.holds(rule, f'{ctx.prog.module(tk).relpath}:1', f'{tk}.KernTokenizer.tokenize',
                  'the plain / basic tokenizers post-process only tokens whose export inserts separators')


# --------------------------------------------------------------------------- effect-freedom of selected entry points
def effect_free(ctx, rule, qualnames, what):
    """No function reachable from the given entry points writes to an argument, a module-level mutable or a class attribute
    (interprocedural effect analysis, see C14)."""
    from ..effects import Effects
    eng = Effects(ctx.prog)
    fs = [ctx.prog.func(q) for q in qualnames]
    eng.analyse(fs)
    for f in fs:
        s = eng.summary(f)
        if s.unresolved:
            k, v = sorted(s.unresolved.items())[0]
            raise AnalysisError(f'{f.qualname}: unresolved call `{v}` at {k}')
        seen = set()
        for e in s.effects.values():
            key = (e.loc, e.root[0])
            if key in seen:
                continue
            seen.add(key)
            if e.root[0] == 'p':
                tgt = f'argument `{f.all_params[e.root[1]]}`' if e.root[1] < len(f.all_params) else 'an argument'
            else:
                tgt = f'shared state {e.root[1]}'
            ctx.violation(rule, e.loc, f.qualname, f'write:{e.func.rpartition(".")[2]}:{" ".join(e.what.split())[:60]}:{e.root[0]}',
                          f'{e.func} {e.what}: a write to {tgt} - {what}')
        if not s.effects:
            ctx.holds(rule, f.loc, f.qualname, f'effect-free ({len(eng.reachable(f))} reachable functions): {what}')
    return eng


def on_path(ctx, qualnames):
    """ids of the function nodes that take part in the given entry points: reachable through resolved calls, plus extracted
    helpers whose calls were replaced by their bodies (glue).  Rules of the form "nothing else writes X" judge only these: a
    new, unrelated function of the same class is not part of the behaviour a property talks about."""
    from ..effects import Effects
    key = ('on_path', tuple(qualnames))
    cache = getattr(ctx, '_on_path', None)
    if cache is None:
        cache = ctx._on_path = {}
    if key not in cache:
        eng = Effects(ctx.prog)
        fs = [ctx.prog.func(q) for q in qualnames]
        eng.analyse(fs)
        ids = set()
        for f in fs:
            ids |= {id(g.node) for g in eng.reachable(f)}
        for g in ctx.prog.all_functions():
            if ctx.prog.is_glue(g):
                ids.add(id(g.node))
        cache[key] = ids
    return cache[key]


def no_one_shot_state(ctx, rule, module_names=None):
    """No object of kernpy keeps a one-shot iterator in its state: `self.x = (generator)`, `map(...)`, `filter(...)`, `zip(...)`,
    `iter(...)`, `reversed(...)`, `enumerate(...)`.  Such a value is consumed by its first reader; the second read of the same object
    (a second export, a second query) sees nothing."""
    lazy = {'map', 'filter', 'zip', 'iter', 'reversed', 'enumerate'}
    n = 0
    for f in ctx.prog.all_functions():
        if f.module.generated or f.cls is None or (module_names and f.module.name not in module_names):
            continue
        for node in walk_local(f.node):
            if not isinstance(node, (ast.Assign, ast.AnnAssign)) or node.value is None:
                continue
            tgs = node.targets if isinstance(node, ast.Assign) else [node.target]
            if not any(isinstance(t, ast.Attribute) and isinstance(t.value, ast.Name) and t.value.id in ('self', 'cls') for t in tgs):
                continue
            n += 1
            v = node.value
            one_shot = isinstance(v, ast.GeneratorExp) or (isinstance(v, ast.Call) and isinstance(v.func, ast.Name) and v.func.id in lazy
                                                           and ctx.prog.resolve(f.module, v.func.id) is None)
            if one_shot:
                ctx.violation(rule, f'{f.module.relpath}:{node.lineno}', f.qualname, f'one-shot-iterator-stored:{src(tgs[0])}',
                              f'`{src(node)[:90]}` keeps a one-shot iterator in the object: the first read consumes it, every later read of '
                              f'the same object finds it empty')
    ctx.count(f'{rule}.attribute_stores_checked', n)

