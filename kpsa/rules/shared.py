"""Rules shared by several properties (each property records its own instance)."""
from __future__ import annotations

import ast
import re

from ..errors import AnalysisError
from ..model import src, walk_local
from .. import names as N
from .. import facts as F


# --------------------------------------------------------------------------- whole-cell consumption (C03.R6, C12.R5, C18.R5)
def whole_cell_consumption(ctx, rule):
    """The start rule consumes EOF (grammar AND generated parser), or import_token rejects a cell whose
    token stream is not exhausted.  Otherwise a parsable prefix is accepted and the rest silently dropped."""
    g4 = ctx.prog.read('kern/kernSpineParser.g4')
    m = re.search(r'^\s*start\s*:\s*([^;]*);', _strip_g4_comments(g4), re.M)
    if not m:
        raise AnalysisError('kern/kernSpineParser.g4: start rule not found')
    line = g4[:g4.index('start')].count('\n') + 1
    alts = [a.strip() for a in m.group(1).split('|')]
    g_anchored = all(a.split() and a.split()[-1] == 'EOF' for a in alts)
    gen = ctx.prog.func('kernpy.core.generated.kernSpineParser.kernSpineParser.start')
    p_anchored = any(isinstance(n, ast.Call) and src(n.func) == 'self.match' and n.args and src(n.args[0]).endswith('.EOF')
                     for n in walk_local(gen.node))
    it = ctx.prog.func(f'{N.KERN_IMP}.KernSpineImporter.import_token')
    checked = False
    for n in walk_local(it.node):
        if isinstance(n, ast.If) and 'EOF' in src(n.test):
            if any(isinstance(s, ast.Raise) for b in n.body + n.orelse for s in ast.walk(b)):
                checked = True
    ok = (g_anchored and p_anchored) or checked
    ctx.check(ok, rule, f'kern/kernSpineParser.g4:{line}', it.qualname, 'start-rule-not-anchored',
              'whole-cell consumption: the start rule ends with EOF in grammar and generated parser, or import_token rejects '
              'an unexhausted token stream',
              f'grammar rule `start: {m.group(1).strip()};` has no EOF (generated start() matches EOF: {p_anchored}) and '
              f'KernSpineImporter.import_token does not check that the token stream is exhausted: a parsable prefix of a cell '
              f'is accepted and the rest silently discarded')
    ctx.check(g_anchored == p_anchored, rule, gen.loc, gen.qualname, 'generated-parser-disagrees-with-grammar',
              'grammar and generated parser agree on whether start consumes EOF')


def _strip_g4_comments(s):
    s = re.sub(r'/\*.*?\*/', lambda m: '\n' * m.group(0).count('\n'), s, flags=re.S)
    s = re.sub(r'//[^\n]*', '', s)
    return s


# --------------------------------------------------------------------------- verbatim tokens through the plain encodings (C03.R3, C12.R4)
def plain_encodings_keep_verbatim_text(ctx, rule):
    """The plain / basic tokenizers delete (or cut at) the separator characters.  Tokens that export their stored text
    (lyrics, comments, error tokens, ...) never contain separators inserted by kernpy, so their text must bypass that
    post-processing - otherwise a cell whose own text contains '@' or the middle dot is altered."""
    tk = N.TOKENIZERS
    sites = []
    for cls, kind in (('KernTokenizer', 'deletes'), ('BkernTokenizer', 'deletes'), ('AKernTokenizer', 'deletes'), ('BekernTokenizer', 'cuts at')):
        f = ctx.prog.func(f'{tk}.{cls}.tokenize')
        tok = f.params[1]
        guarded = any(isinstance(n, ast.Call) and F.is_name(n.func, 'isinstance') and n.args and F.is_name(n.args[0], tok)
                      for n in walk_local(f.node))
        post = any(isinstance(n, ast.Call) and isinstance(n.func, ast.Attribute) and n.func.attr in ('replace', 'split', 'translate')
                   for n in walk_local(f.node))
        if post and not guarded:
            sites.append((f, kind))
    if sites:
        f = sites[0][0]
        ctx.violation(rule, f.loc, f'{tk}.KernTokenizer.tokenize', 'plain-encoding-alters-verbatim-text',
                      f'{", ".join(s_[0].cls.name for s_ in sites)} post-process the text of EVERY token, also of tokens that export their '
                      f'stored text verbatim (lyrics, comments, error tokens): a cell whose own text contains `@` or the middle dot is '
                      f'altered in the plain / basic encodings (`col·la` -> `colla`, malformed `4c·` -> `4c`)')
    else:
        ctx.holds(rule, f'{ctx.prog.module(tk).relpath}:1', f'{tk}.KernTokenizer.tokenize',
                  'the plain / basic tokenizers post-process only tokens whose export inserts separators')


# --------------------------------------------------------------------------- effect-freedom of selected entry points
def effect_free(ctx, rule, qualnames, what):
    """No function reachable from the given entry points writes to an argument, a module-level mutable or a class attribute
    (interprocedural effect analysis, see C14)."""
    from ..effects import Effects
    eng = Effects(ctx.prog)
    fs = [ctx.prog.func(q) for q in qualnames]
    eng.analyse(fs)
    for f in fs:
        s = eng.summary(f)
        if s.unresolved:
            k, v = sorted(s.unresolved.items())[0]
            raise AnalysisError(f'{f.qualname}: unresolved call `{v}` at {k}')
        seen = set()
        for e in s.effects.values():
            key = (e.loc, e.root[0])
            if key in seen:
                continue
            seen.add(key)
            if e.root[0] == 'p':
                tgt = f'argument `{f.all_params[e.root[1]]}`' if e.root[1] < len(f.all_params) else 'an argument'
            else:
                tgt = f'shared state {e.root[1]}'
            ctx.violation(rule, e.loc, f.qualname, f'write:{e.func.rpartition(".")[2]}:{" ".join(e.what.split())[:60]}:{e.root[0]}',
                          f'{e.func} {e.what}: a write to {tgt} - {what}')
        if not s.effects:
            ctx.holds(rule, f.loc, f.qualname, f'effect-free ({len(eng.reachable(f))} reachable functions): {what}')
    return eng


def on_path(ctx, qualnames):
    """ids of the function nodes that take part in the given entry points: reachable through resolved calls, plus extracted
    helpers whose calls were replaced by their bodies (glue).  Rules of the form "nothing else writes X" judge only these: a
    new, unrelated function of the same class is not part of the behaviour a property talks about."""
    from ..effects import Effects
    key = ('on_path', tuple(qualnames))
    cache = getattr(ctx, '_on_path', None)
    if cache is None:
        cache = ctx._on_path = {}
    if key not in cache:
        eng = Effects(ctx.prog)
        fs = [ctx.prog.func(q) for q in qualnames]
        eng.analyse(fs)
        ids = set()
        for f in fs:
            ids |= {id(g.node) for g in eng.reachable(f)}
        for g in ctx.prog.all_functions():
            if ctx.prog.is_glue(g):
                ids.add(id(g.node))
        cache[key] = ids
    return cache[key]


def no_one_shot_state(ctx, rule, module_names=None):
    """No object of kernpy keeps a one-shot iterator in its state: `self.x = (generator)`, `map(...)`, `filter(...)`, `zip(...)`,
    `iter(...)`, `reversed(...)`, `enumerate(...)`.  Such a value is consumed by its first reader; the second read of the same object
    (a second export, a second query) sees nothing."""
    lazy = {'map', 'filter', 'zip', 'iter', 'reversed', 'enumerate'}
    n = 0
    for f in ctx.prog.all_functions():
        if f.module.generated or f.cls is None or (module_names and f.module.name not in module_names):
            continue
        for node in walk_local(f.node):
            if not isinstance(node, (ast.Assign, ast.AnnAssign)) or node.value is None:
                continue
            tgs = node.targets if isinstance(node, ast.Assign) else [node.target]
            if not any(isinstance(t, ast.Attribute) and isinstance(t.value, ast.Name) and t.value.id in ('self', 'cls') for t in tgs):
                continue
            n += 1
            v = node.value
            one_shot = isinstance(v, ast.GeneratorExp) or (isinstance(v, ast.Call) and isinstance(v.func, ast.Name) and v.func.id in lazy
                                                           and ctx.prog.resolve(f.module, v.func.id) is None)
            if one_shot:
                ctx.violation(rule, f'{f.module.relpath}:{node.lineno}', f.qualname, f'one-shot-iterator-stored:{src(tgs[0])}',
                              f'`{src(node)[:90]}` keeps a one-shot iterator in the object: the first read consumes it, every later read of '
                              f'the same object finds it empty')
    ctx.count(f'{rule}.attribute_stores_checked', n)



# --------------------------------------------------------------------------- token constructors keep the text they are given
def check_token_ctors_verbatim(ctx, rule, only=None, exempt=('MetacommentToken',)):
    """Every token class hands the `encoding` it receives to its base class unchanged, and AbstractToken stores it unchanged:
    the text a token exports verbatim is the text of the cell, not a corrected / stripped / normalised version of it."""
    mod = ctx.prog.module(N.TOKENS)
    base = ctx.prog.cls(f'{N.TOKENS}.AbstractToken')
    n = 0
    for ci in [c for c in ctx.prog.classes.values() if c.module is mod]:
        if base not in ctx.prog.mro(ci) or ci.name in exempt or (only is not None and ci.name not in only):
            continue
        init = ci.methods.get('__init__')
        if init is None or 'encoding' not in init.all_params:
            continue
        at = init.loc
        rebinds = [a for a in walk_local(init.node) if isinstance(a, (ast.Assign, ast.AugAssign, ast.AnnAssign))
                   and any(isinstance(t, ast.Name) and t.id == 'encoding' for t in (a.targets if isinstance(a, ast.Assign) else [a.target]))]
        for a in rebinds:
            ctx.violation(rule, f'{init.module.relpath}:{a.lineno}', init.qualname, f'token-text-rewritten:{ci.name}',
                          f'{ci.name}.__init__ re-binds its text (`{src(a)[:70]}`): the token no longer carries the cell as written')
        if ci is base:
            stores = [a for a in walk_local(init.node) if isinstance(a, ast.Assign) and any(src(t) == 'self.encoding' for t in a.targets)]
            if len(stores) != 1:
                raise AnalysisError(f'{at}: AbstractToken.__init__ stores self.encoding {len(stores)} times: not followed')
            got = stores[0].value
        else:
            sup = [c for c in walk_local(init.node) if isinstance(c, ast.Call) and isinstance(c.func, ast.Attribute) and c.func.attr == '__init__'
                   and isinstance(c.func.value, ast.Call) and F.is_name(c.func.value.func, 'super')]
            if len(sup) != 1:
                raise AnalysisError(f'{at}: {ci.name}.__init__ calls super().__init__ {len(sup)} times: not followed')
            kw = {k.arg: k.value for k in sup[0].keywords if k.arg}
            got = kw.get('encoding', sup[0].args[0] if sup[0].args else None)
            if got is None:
                raise AnalysisError(f'{at}: {ci.name}.__init__ passes no text to its base class: not followed')
        n += 1
        plain = F.is_name(got, 'encoding')
        derived = any(isinstance(x, ast.Name) and x.id == 'encoding' for x in ast.walk(got))
        if not plain and not derived:
            raise AnalysisError(f'{at}: the text {ci.name} stores (`{src(got)[:60]}`) is not followed')
        ctx.check(plain, rule, at, init.qualname, f'token-text-rewritten:{ci.name}',
                  f'{ci.name} keeps the text it is given unchanged',
                  f'{ci.name}.__init__ stores `{src(got)[:80]}` instead of the text it is given: the cell is corrected / stripped / '
                  f're-spelled at construction, so what is exported is not what was written')
    if only is None:
        ctx.expect_count(rule, 'token classes that store their text', n, 20)
    elif n < len(only):
        raise AnalysisError(f'{N.TOKENS}: token classes {sorted(only)} not all found ({n})')


def check_cells_unmodified(ctx, rule):
    """In Importer.run the cells of a record are the elements of the row the line reader produced: the row variable is not re-bound
    to a cleaned-up copy and the cell variable of the column loop is not re-bound either (stripping `row[0]` for a global comment,
    which is outside the verbatim clause, is the one thing the repository does today - on the argument, not on the row)."""
    run_ = ctx.prog.func(f'{N.IMPORTER}.Importer.run')
    row_loops = [n for n in walk_local(run_.node) if isinstance(n, ast.For) and isinstance(n.target, ast.Name) and isinstance(n.iter, ast.Name)
                 and n.iter.id in run_.all_params]
    if len(row_loops) != 1:
        raise AnalysisError(f'{run_.loc}: the loop over the records of the reader is not recognised ({len(row_loops)} candidates)')
    row = row_loops[0].target.id
    col_loops = [n for n in ast.walk(row_loops[0]) if isinstance(n, ast.For) and src(n.iter) in (f'enumerate({row})', row)]
    if len(col_loops) != 1:
        raise AnalysisError(f'{run_.loc}: the loop over the cells of a record is not recognised ({len(col_loops)} candidates)')
    tgt = col_loops[0].target
    cell = tgt.elts[1].id if isinstance(tgt, ast.Tuple) and len(tgt.elts) == 2 and isinstance(tgt.elts[1], ast.Name) else (tgt.id if isinstance(tgt, ast.Name) else None)
    if cell is None:
        raise AnalysisError(f'{run_.loc}: the cell variable of the column loop is not recognised')
    bad = []
    for n in ast.walk(row_loops[0]):
        if isinstance(n, (ast.Assign, ast.AugAssign, ast.AnnAssign)):
            for t in (n.targets if isinstance(n, ast.Assign) else [n.target]):
                if isinstance(t, ast.Name) and t.id in (row, cell):
                    bad.append(n)
                if isinstance(t, ast.Subscript) and isinstance(t.value, ast.Name) and t.value.id == row:
                    bad.append(n)
    for n in bad:
        ctx.violation(rule, f'{run_.module.relpath}:{n.lineno}', run_.qualname, 'cells-rewritten-before-import',
                      f'`{src(n)[:80]}` replaces the cells the line reader produced: every token is built from the rewritten text, not '
                      f'from the cell as written')
    if not bad:
        ctx.holds(rule, run_.loc, run_.qualname, f'the cells of a record reach the tokens as the line reader produced them (`{row}`, `{cell}` never re-bound)')


def check_stage_loop_complete(ctx, rule):
    """The loop of export_string over the stages of the range runs to its end: no break / return inside it.  A loop that stops at
    the first terminator in the left-most column (or at any other row) loses every later line of the range."""
    es = ctx.prog.func(f'{N.EXPORTER}.Exporter.export_string')
    loops = [n for n in walk_local(es.node) if isinstance(n, ast.For) and isinstance(n.iter, ast.Call) and F.is_name(n.iter.func, 'range')
             and 'from_stage' in src(n.iter)]
    if len(loops) != 1:
        raise AnalysisError(f'{es.loc}: the loop over the stages of the exported range is not recognised ({len(loops)} candidates)')
    lp = loops[0]

    def exits(stmts, in_inner_loop):
        for st in stmts:
            if isinstance(st, ast.Break) and not in_inner_loop:
                yield st
            elif isinstance(st, ast.Return):
                yield st
            elif isinstance(st, (ast.For, ast.While)):
                yield from exits(st.body, True)
                yield from exits(st.orelse, in_inner_loop)
            elif isinstance(st, ast.If):
                yield from exits(st.body, in_inner_loop)
                yield from exits(st.orelse, in_inner_loop)
            elif isinstance(st, ast.Try):
                for blk in (st.body, st.orelse, st.finalbody, *[h.body for h in st.handlers]):
                    yield from exits(blk, in_inner_loop)
            elif isinstance(st, ast.With):
                yield from exits(st.body, in_inner_loop)
    found = list(exits(lp.body, False))
    for st in found:
        ctx.violation(rule, f'{es.module.relpath}:{st.lineno}', es.qualname, 'stage-loop-cut-short',
                      f'`{src(st)[:40]}` leaves the loop over the stages of the range before its last stage: the lines after that point '
                      f'(and the barline that closes the range) are not exported')
    if not found:
        ctx.holds(rule, f'{es.module.relpath}:{lp.lineno}', es.qualname, 'the loop over the stages of the range always runs to the last stage')


def no_shared_mutable_defaults(ctx, rule):
    """A mutable default value ({} [] set() dict() list()) exists once per function, not once per call.  If the parameter is kept
    in an object (`self.x = p`), changed in place or returned, every object built without that argument shares it: what one
    import records shows up in the documents of all the others."""
    n = 0
    for f in ctx.prog.all_functions():
        if f.module.generated or getattr(f.module, 'legacy', False) or isinstance(f.node, ast.Lambda):
            continue
        a = f.node.args
        pos = a.posonlyargs + a.args
        pairs = list(zip(pos[len(pos) - len(a.defaults):], a.defaults)) + [(x, d) for x, d in zip(a.kwonlyargs, a.kw_defaults) if d is not None]
        for arg, d in pairs:
            mutable = isinstance(d, (ast.Dict, ast.List, ast.Set, ast.ListComp, ast.DictComp, ast.SetComp)) or \
                (isinstance(d, ast.Call) and isinstance(d.func, ast.Name) and d.func.id in ('dict', 'list', 'set', 'defaultdict', 'OrderedDict', 'deque'))
            if not mutable:
                continue
            n += 1
            p = arg.arg
            kept = [x for x in walk_local(f.node) if isinstance(x, (ast.Assign, ast.AnnAssign)) and getattr(x, 'value', None) is not None
                    and F.is_name(x.value, p) and any(isinstance(t, (ast.Attribute, ast.Subscript)) for t in (x.targets if isinstance(x, ast.Assign) else [x.target]))]
            changed = [x for x in walk_local(f.node) if isinstance(x, ast.Call) and isinstance(x.func, ast.Attribute) and F.is_name(x.func.value, p)
                       and x.func.attr in ('append', 'extend', 'insert', 'add', 'update', 'setdefault', 'pop', 'remove', 'clear', 'sort')]
            changed += [x for x in walk_local(f.node) if isinstance(x, (ast.Assign, ast.AugAssign)) and any(
                isinstance(t, ast.Subscript) and F.is_name(t.value, p) for t in (x.targets if isinstance(x, ast.Assign) else [x.target]))]
            returned = [x for x in walk_local(f.node) if isinstance(x, ast.Return) and x.value is not None and F.is_name(x.value, p)]
            hit = (kept or changed or returned)
            ctx.check(not hit, rule, f'{f.module.relpath}:{d.lineno}', f.qualname, f'shared-mutable-default:{p}',
                      f'the mutable default of `{p}` is only read',
                      f'`{p}={src(d)}` is one object for all calls and `{src(hit[0])[:60]}` keeps / changes / hands it out: every '
                      f'{f.cls.name if f.cls else "caller"} built without `{p}` shares it, so data recorded for one document appears in the others' if hit else '')
    ctx.count(f'{rule}.mutable_defaults', n)


# --------------------------------------------------------------------------- round 6
def check_copied_nodes_keep_stage(ctx, rule):
    """A node built outside the importer (a copy of a tree, a concatenation) is given the STAGE of the node it stands for: the
    measure index of the document is a list of stage numbers and is copied as it is.  A stage recomputed from the position in the
    copy (`parent.stage + 1`) differs wherever a record hangs higher up in the tree (a global comment hangs from the root)."""
    doc_mod = ctx.prog.module(N.DOCUMENT)
    n = 0
    for f in ctx.prog.all_functions():
        if f.module is not doc_mod or isinstance(f.node, ast.Lambda) or f.name in ('add_node', '__init__'):
            continue
        for c in walk_local(f.node):
            if isinstance(c, ast.Call) and isinstance(c.func, ast.Attribute) and c.func.attr == 'add_node' and c.args:
                st = c.args[0]
                n += 1
                arith = isinstance(st, ast.BinOp) and any(isinstance(x, ast.Attribute) and x.attr == 'stage' for x in ast.walk(st))
                ctx.check(not arith, rule, f'{f.module.relpath}:{c.lineno}', f.qualname, 'copied-node-stage-recomputed',
                          f'`{src(c)[:60]}` takes the stage as it is given',
                          f'`{src(st)}` recomputes the stage of a copied node from its parent in the copy: where a record hangs from a node '
                          f'further up (a global comment hangs from the root) every later stage of the copy is shifted, while the measure '
                          f'index copied with the document keeps the original stage numbers - ranges of the copy start and end at the wrong rows')
    ctx.count(f'{rule}.add_node_calls_in_document_module', n)


def no_identity_comparison_of_numbers(ctx, rule, qualnames):
    """`a is b` between two numbers is an accident of the interpreter (small integers are cached up to 256): the range arithmetic
    must compare values."""
    for qn in qualnames:
        f = ctx.prog.func(qn)
        for c in walk_local(f.node):
            if isinstance(c, ast.Compare) and any(isinstance(o, (ast.Is, ast.IsNot)) for o in c.ops):
                sides = [c.left] + list(c.comparators)
                if any(isinstance(x, ast.Constant) and (x.value is None or isinstance(x.value, bool) or x.value is Ellipsis) for x in sides):
                    continue
                numeric = [x for x in sides if 'measure' in src(x) or 'stage' in src(x) or (isinstance(x, ast.Call) and is_name_call(x, 'len'))
                           or (isinstance(x, ast.Constant) and isinstance(x.value, int))]
                if numeric:
                    ctx.violation(rule, f'{f.module.relpath}:{c.lineno}', f.qualname, 'identity-comparison-of-numbers',
                                  f'`{src(c)[:70]}` compares numbers by identity: true for equal small integers only (CPython caches -5..256), so a '
                                  f'score with more measures takes the other branch')


def is_name_call(node, name):
    return isinstance(node, ast.Call) and isinstance(node.func, ast.Name) and node.func.id == name


def no_memoised_mutable_results(ctx, rule, qualnames):
    """A function that returns a mutable object (an AgnosticPitch, a token, a document) must not be memoised: every caller gets
    the same object, and what one caller changes in it is what the next one receives."""
    for qn in qualnames:
        f = ctx.prog.func(qn)
        decos = [src(d) for d in getattr(f.node, 'decorator_list', [])]
        memo = [d for d in decos if d.split('(')[0].rpartition('.')[2] in ('lru_cache', 'cache', 'cached_property')]
        ctx.check(not memo, rule, f.loc, f.qualname, 'memoised-mutable-result',
                  f'{f.name} is not memoised',
                  f'{f.name} is memoised (`@{memo[0]}`) and returns a mutable object: all callers share one result object, so a pitch that one '
                  f'caller adjusts (its octave, its name) is handed changed to the next caller of the same transposition' if memo else '')


def makedirs_guarded(ctx, rule, qualnames):
    """`os.makedirs(os.path.dirname(p))` fails for a bare file name (dirname is ''): the directory part must be tested first."""
    for qn in qualnames:
        f = ctx.prog.func(qn)
        parent = {}
        for n_ in ast.walk(f.node):
            for ch in ast.iter_child_nodes(n_):
                parent[ch] = n_
        for c in walk_local(f.node):
            if isinstance(c, ast.Call) and src(c.func) in ('os.makedirs', 'makedirs') and c.args:
                a0 = c.args[0]
                dn = a0 if (isinstance(a0, ast.Call) and src(a0.func) in ('os.path.dirname', 'dirname')) else None
                if dn is None and isinstance(a0, ast.Name):
                    vals = [x.value for x in walk_local(f.node) if isinstance(x, ast.Assign) and any(is_name(t, a0.id) for t in x.targets)]
                    if len(vals) == 1 and isinstance(vals[0], ast.Call) and src(vals[0].func) in ('os.path.dirname', 'dirname'):
                        dn = a0
                if dn is None:
                    continue
                guarded = False
                cur = c
                while cur in parent:
                    up = parent[cur]
                    if isinstance(up, ast.If) and cur in up.orelse:
                        t2_ = src(up.test)
                        if (('exists(' in t2_ or 'isdir(' in t2_) and ('absolute()' in t2_ or 'abspath(' in t2_ or 'resolve()' in t2_)
                                and not t2_.lstrip().startswith('not')):
                            guarded = True      # the else branch of "the absolute directory exists"
                    if isinstance(up, ast.If) and cur in up.body:
                        t_ = src(up.test)
                        # the directory part itself is tested, or the ABSOLUTE directory is known to be missing (a bare file name
                        # lives in the current directory, which exists)
                        if src(dn) in t_ or (('exists(' in t_ or 'isdir(' in t_) and ('absolute()' in t_ or 'abspath(' in t_ or 'resolve()' in t_)
                                            and t_.lstrip().startswith('not')):
                            guarded = True
                    cur = up
                ctx.check(guarded, rule, f'{f.module.relpath}:{c.lineno}', f.qualname, 'makedirs-of-empty-dirname',
                          f'`{src(c)[:60]}` runs only when the path has a directory part',
                          f'`{src(c)[:70]}` also runs for a bare file name, whose directory part is the empty string: os.makedirs(\'\') raises, so a '
                          f'conversion into the current directory writes nothing')


def is_name(node, name):
    return isinstance(node, ast.Name) and node.id == name
