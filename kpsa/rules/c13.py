"""C13 - Export options act independently of one another (structural clauses)."""
from __future__ import annotations

import ast

from ..errors import AnalysisError
from ..model import src, walk_local
from .. import names as N
from .. import facts as F
from .. import guards as G
from .. import symex
from .exporter_facts import RowGate, check_spine_gate, check_category_gate, check_nullish_tables, EXP
from . import c05, c20

ALLOWED_READS = {
    'append_row': {'spine_types', 'spine_ids', 'token_categories'},
    'export_token': {'kern_type', 'token_categories'},
    'compute_header_type': set(),
    '_retrieve_empty_token': set(),
    '_is_token_in_a_signature_row': set(),
    'is_signature_cancelled': set(),
    'export_string': {'from_measure', 'to_measure', 'spine_types'},
    'export_options_validator': {'from_measure', 'to_measure'},
}


def run(ctx):
    ctx.explanation = (
        'Static rules for C13: (R1) option-field partition - per cell, the spine gate of append_row depends only on {spine_types, '
        'spine_ids}, the category gate only on {token_categories}, the tokenizer choice only on {kern_type} and its output only on '
        '{token_categories} and the node\'s clef (truth tables over canonical atoms; any other condition is a violation), each exporter '
        'method reads only its own option fields, no option field is ever assigned on the export path, and null-row suppression runs '
        'after all cells of the row were produced; (R2) explicit default == omitted: dumps/dump declare None for every option, '
        'parse_options skips None, ExportOptions.default() and the defaults of ExportOptions.__init__ agree field by field (constant '
        'evaluator), and valid(include=None) is all categories / valid(exclude=None) excludes nothing (C11.R5). That the three text '
        'transformations commute on whole documents is not decided.')
    ctx.not_decided = ['commutation of the three text transformations on whole documents']
    gate = RowGate(ctx)
    check_spine_gate(ctx, 'R1', gate)
    check_category_gate(ctx, 'R1', gate)
    r1_field_reads(ctx)
    check_nullish_tables(ctx, 'R1')
    r1_null_rows_after_gates(ctx)
    r2_defaults(ctx)
    from . import shared
    shared.effect_free(ctx, 'R2', [f'{N.PUBLIC}.dumps', f'{N.MAPPER}.valid'],
                       'an option value passed explicitly (a set reused between calls, a shared default) must mean the same in every call')
    ctx.alias = {'R1': 'R2', 'R3': 'R2'}
    c05.r1_selected_set(ctx)
    c20.r3_dump(ctx)
    ctx.alias = {}
    # filtering and encoding commute: whatever the encoding, a note exports only sub-tokens that pass the category predicate
    ctx.alias = {'R5': 'R3'}
    c05.r5_subtoken_filter(ctx)
    ctx.alias = {}
    # include x exclude: the selection is closure(include) - closure(exclude), so an exclusion acts whatever was included (C11.R5 as R5)
    from . import c11
    c11.r5_selection(ctx)
    # category selection x encoding: the basic encodings are the extended ones with the separators removed, for every selection
    from . import c04
    ctx.alias = {'R1': 'R4', 'R3': 'R4'}
    sep_ = {'TOKEN_SEPARATOR': ctx.ce.module_const(N.TOKENS, 'TOKEN_SEPARATOR'), 'DECORATION_SEPARATOR': ctx.ce.module_const(N.TOKENS, 'DECORATION_SEPARATOR')}
    c04.r1_plain_is_stripped_extended(ctx, sep_)
    c04.r3_note_by_note(ctx, sep_)
    ctx.alias = {}


def r1_field_reads(ctx):
    exp = ctx.prog.cls(EXP)
    n = 0
    # methods that take part in an export: reachable from export_string (a new, unrelated method of the class is not judged)
    from ..effects import Effects
    eng = Effects(ctx.prog)
    es_f = ctx.prog.func(f'{EXP}.export_string')
    eng.analyse([es_f])
    on_path = {id(g.node) for g in eng.reachable(es_f)}
    for name, f in exp.methods.items():
        if ctx.prog.is_glue(f):
            on_path.add(id(f.node))      # inlined into a method of the path (its own definition is no longer called)
    # the exporter keeps no state while it exports: the text of a cell cannot depend on the cells exported before it
    n_state = 0
    for name, f in exp.methods.items():
        if f.kind != 'method' or not f.params or name == '__init__' or id(f.node) not in on_path:
            continue
        me = f.params[0]
        for a in walk_local(f.node):
            w = None
            if isinstance(a, ast.Attribute) and isinstance(a.ctx, (ast.Store, ast.Del)) and F.is_name(a.value, me):
                w = a
            elif isinstance(a, ast.Subscript) and isinstance(a.ctx, (ast.Store, ast.Del)) and isinstance(a.value, ast.Attribute) \
                    and F.is_name(a.value.value, me):
                w = a
            elif isinstance(a, ast.Call) and isinstance(a.func, ast.Attribute) and isinstance(a.func.value, ast.Attribute) \
                    and F.is_name(a.func.value.value, me) and a.func.attr in ('append', 'extend', 'insert', 'pop', 'remove', 'clear', 'update',
                                                                             'setdefault', 'add', 'discard', 'popitem', 'sort', 'reverse'):
                w = a
            if w is not None:
                n_state += 1
                ctx.violation('R1', f'{f.module.relpath}:{w.lineno}', f.qualname, f'exporter-state:{name}',
                              f'`{src(w)[:70]}` keeps state in the exporter while it exports: what is written for a cell now depends on which '
                              f'cells were exported before it (and on what was hidden by the options), not only on the document and the options')
    if not n_state:
        ctx.holds('R1', exp.loc, exp.qualname, 'no method of the Exporter writes to the exporter object (cells are exported independently)')
    for name, f in exp.methods.items():
        opt = None
        for p in f.all_params:
            if p == 'options':
                opt = p
        if opt is None:
            continue
        if ctx.prog.is_glue(f):
            continue        # an extracted helper: its reads are attributed to the methods it was inlined into
        if id(f.node) not in on_path and name not in ALLOWED_READS:
            continue        # not part of an export
        reads, writes = set(), []
        for a in walk_local(f.node):
            if isinstance(a, ast.Attribute) and F.is_name(a.value, opt):
                if isinstance(a.ctx, ast.Load):
                    reads.add(a.attr)
                else:
                    writes.append(a)
            if isinstance(a, ast.Call) and F.is_name(a.func, 'setattr') and a.args and F.is_name(a.args[0], opt):
                writes.append(a)
        n += 1
        for w in writes:
            ctx.violation('R1', f'{f.module.relpath}:{w.lineno}', f.qualname, f'option-assigned:{name}',
                          f'`{src(w)[:60]}` assigns an option field on the export path: later cells see other options than earlier ones')
        allowed = ALLOWED_READS.get(name)
        if allowed is None and reads and not ctx.prog.is_anchor(f):
            raise AnalysisError(f'{f.loc}: the new helper {name} reads option fields {sorted(reads)} and is not inlined into its caller: which '
                                f'transformation those reads belong to is not followed')
        if allowed is None:
            ctx.check(not reads, 'R1', f.loc, f.qualname, f'unexpected-option-reader:{name}',
                      f'{name} reads no option field', f'{name} reads option fields {sorted(reads)}')
            continue
        extra = reads - allowed
        ctx.check(not extra, 'R1', f.loc, f.qualname, f'option-field-partition:{name}',
                  f'{name} reads only {sorted(allowed) or "no"} option fields (reads {sorted(reads)})',
                  f'{name} also reads {sorted(extra)}: its outcome depends on an option that belongs to another transformation')
    ctx.expect_count('R1', 'exporter methods taking options', n, 4)
    # tokenizers never see the options object
    tk = ctx.prog.module(N.TOKENIZERS)
    bad = [f.qualname for f in ctx.prog.all_functions() if f.module is tk and 'options' in f.all_params]
    ctx.check(not bad, 'R1', 'kernpy/core/tokenizers.py:1', N.TOKENIZERS, 'tokenizers-see-options',
              'tokenizers receive the category set and the clef only, never the options object', f'{bad} take the options object')


def r1_null_rows_after_gates(ctx):
    es = ctx.prog.func(f'{EXP}.export_string')
    loops = [n for n in walk_local(es.node) if isinstance(n, ast.For) and 'range(from_stage' in src(n.iter)]
    ctx.expect_count('R1', 'stage loop', len(loops), 1)
    lp = loops[0]
    inner = [s for s in lp.body if isinstance(s, ast.For)]
    # the test that decides whether the finished row is kept: the `if` that guards rows.append(...)
    tests = [s for s in lp.body if isinstance(s, ast.If) and any(isinstance(x, ast.Call) and src(x.func) == 'rows.append' for b_ in s.body for x in ast.walk(b_))]
    if len(inner) != 1 or len(tests) != 1:
        raise AnalysisError(f'{es.loc}: the stage loop of export_string is not `cells loop, then row test` as direct statements '
                            f'({len(inner)} cell loops, {len(tests)} row tests): not followed')
    ok = len(inner) == 1 and len(tests) == 1 and lp.body.index(tests[0]) > lp.body.index(inner[0])
    reads = {a.attr for a in ast.walk(tests[0]) if isinstance(a, ast.Attribute) and F.is_name(a.value, 'options')} if tests else set()
    ctx.check(ok and not reads, 'R1', f'{es.module.relpath}:{lp.lineno}', es.qualname, 'null-rows-after-gates',
              'null-row suppression looks at the finished row only, after every cell went through the gates, and reads no option')


def r2_defaults(ctx):
    eo = ctx.prog.cls(f'{N.EXPORTER}.ExportOptions')
    init = eo.methods['__init__']
    dflt = eo.methods['default']
    calls = [c for c in walk_local(dflt.node) if isinstance(c, ast.Call) and F.is_name(c.func, 'cls')]
    if len(calls) != 1:
        raise AnalysisError(f'{dflt.loc}: ExportOptions.default shape changed')
    dkw = {k.arg: k.value for k in calls[0].keywords}
    if calls[0].args:
        raise AnalysisError(f'{dflt.loc}: positional arguments in ExportOptions.default')
    sig_defaults = {p: F.param_default(init, p) for p in init.params[1:]}
    table = F.store_table(init)
    stores = {k[len('self.'):]: rows for k, rows in table.items() if k.startswith('self.') and '.' not in k[len('self.'):]}
    ctx.expect_count('R2', 'option fields', len(stores), 8)
    env = {}
    for p, d in sig_defaults.items():
        if d is None:
            continue
        ok, v = ctx.ce.try_eval(d, init.module)
        if ok:
            env[p] = v
    for field, rows in sorted(stores.items()):
        at = f'{init.module.relpath}:{rows[0][1].lineno if hasattr(rows[0][1], "lineno") else init.node.lineno}'
        # value when every parameter is omitted: the path whose tests hold for the signature defaults
        ok1, v_init = (False, None)
        for cond, expr, sp in rows:
            try:
                taken = all(bool(ctx.ce.eval(c, init.module, None, dict(env))) == t for c, t in sp.conds)
                if not taken:
                    continue
                v_init = ctx.ce.eval(expr, init.module, None, dict(env))
                ok1 = True
                break
            except Exception:
                continue
        ok2, v_def = ctx.ce.try_eval(dkw[field], dflt.module) if field in dkw else (ok1, v_init)
        same = ok1 and ok2 and (v_init == v_def or (isinstance(v_init, (set, list)) and isinstance(v_def, (set, list)) and set(v_init) == set(v_def)))
        ctx.check(same, 'R2', at, init.qualname, f'default-agreement:{field}',
                  f'{field}: ExportOptions() and ExportOptions.default() give the same value',
                  f'{field}: ExportOptions() gives {str(v_init)[:60]!r} but ExportOptions.default() gives {str(v_def)[:60]!r}: passing the '
                  f'default explicitly differs from omitting the option')
    missing = sorted(set(dkw) - set(stores))
    ctx.check(not missing, 'R2', dflt.loc, dflt.qualname, 'default-unknown-field', 'default() sets only existing option fields', f'default() sets {missing}')
