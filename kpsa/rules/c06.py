"""C06 - Spine selection is column projection."""
from __future__ import annotations

import ast

from ..errors import AnalysisError
from ..model import src, walk_local
from .. import names as N
from .. import facts as F
from .. import guards as G
from .. import symex
from .exporter_facts import RowGate, check_spine_gate, EXP
from . import c02


def run(ctx):
    ctx.explanation = (
        'Static rules for C06: (R1) the spine gate of Exporter.append_row, as a truth table over canonical atoms obtained by symbolic '
        'path enumeration: a node is exported iff its header identity is known, its header text is in spine_types and (spine_ids is '
        'None or its spine id is in spine_ids); on the gated-out path nothing is appended to the row (columns are deleted, never '
        'blanked), on every other path exactly one cell is appended (order kept); the gate may not depend on anything else; the '
        'header identity is the node\'s own token for a header, otherwise its header node\'s token. (R2) header identity propagation '
        'in the importer (every node receives parent.header_node; header cells carry the 0-based column index). (R3) the spine-type '
        'query is derived from export_string with the same spine_types and a HEADER-only category set, first line split on TAB, '
        'empty selection short-circuits to []. Decides the per-cell mechanism; the projection equality on all layouts is not decided.')
    ctx.not_decided = ['the projection equality through arbitrary split/join layouts (follows from R1+R2 and C02, not proved here)',
                       'the excerpt preamble of export_string (from_measure given) does not go through append_row: see C08.R4']
    gate = RowGate(ctx)
    check_spine_gate(ctx, 'R1', gate)
    r1b_body_loop(ctx)
    c02.r4_provenance(ctx, 'R2')
    r3_query(ctx)
    # any choice of spine ids / types, the empty one included, reaches the gate unchanged
    from . import c05
    ctx.alias = {'R1': 'R4'}
    c05.r1_selected_set(ctx)
    ctx.alias = {}
    # after the projection only lines whose every remaining cell is a placeholder are dropped
    from .exporter_facts import check_nullish_tables
    check_nullish_tables(ctx, 'R5')
    # the selection the caller gave is the selection the exporter sees: Generic.export hands its options object on as it is
    from . import c14
    ctx.alias = {'R2': 'R6'}
    c14.r2_freshness(ctx)
    ctx.alias = {}
    # the caller's selection is only read: an export that narrows spine_types / spine_ids in the options object it was given decides
    # the projection of the NEXT document exported with those options (effect analysis from Generic.export as R7)
    from . import shared
    shared.effect_free(ctx, 'R7', [f'{N.GENERIC}.Generic.export'],
                       'the selection a caller passes must mean the same for every document it is used with')
    # the default selection ("all spine types") is the HEADERS constant: it holds every header the importer dispatches on (C18.R4 as R8)
    from . import c18
    ctx.alias = {'R4': 'R8'}
    c18.r4_dispatch(ctx)
    ctx.alias = {}


def r1b_body_loop(ctx):
    """export_string's body visits every node of every stage in list order through append_row (symbolic execution of the body of
    the stage loop: local names, an extracted row helper or a hoisted stage list do not matter)."""
    es = ctx.prog.func(f'{EXP}.export_string')
    ar = ctx.prog.func(f'{EXP}.append_row')
    loops = [n for n in walk_local(es.node) if isinstance(n, ast.For) and 'range(from_stage' in src(n.iter)]
    ctx.expect_count('R1', 'stage loop of export_string', len(loops), 1)
    for lp in loops:
        at = f'{es.module.relpath}:{lp.lineno}'
        stage = lp.target.id if isinstance(lp.target, ast.Name) else None
        ok = stage is not None
        n_visits = 0
        why = ''
        for sp in symex.sym_paths(lp.body, fi=es):
            its = [(k, e) for k, e in enumerate(sp.events) if e.kind == 'iter' and isinstance(e.node, ast.For)
                   and src(e.expr) in (f'document.tree.stages[{stage}]', f'enumerate(document.tree.stages[{stage}])')]
            skips = [e for e in sp.events if e.kind == 'skip' and isinstance(e.node, ast.For) and f'document.tree.stages[{stage}]' in src(e.expr)]
            calls = [(k, e) for k, e in enumerate(sp.events) if e.kind == 'expr' and isinstance(e.expr, ast.Call) and src(e.expr.func) == 'self.append_row']
            if not its:
                if not skips or calls:
                    ok, why = False, 'a path through the stage loop does not iterate the nodes of the stage'
                continue
            if len(its) != 1 or len(calls) != 1:
                ok, why = False, f'{len(calls)} append_row calls on a path that visits the stage'
                continue
            (ki, it), (kc, call) = its[0], calls[0]
            n_visits += 1
            b_ = F.bind_args(call.expr, ar, True)
            tgt = it.node.target
            var = tgt.elts[1].id if isinstance(tgt, ast.Tuple) and len(tgt.elts) == 2 and isinstance(tgt.elts[1], ast.Name) else getattr(tgt, 'id', None)
            row = b_.get('row')
            good = var is not None and src(b_.get('node')) == f'{var}@{it.node.lineno}' and F.is_name(b_.get('options'), 'options') \
                and F.is_name(b_.get('document'), 'document') and isinstance(row, ast.Name)
            # unconditional inside the node loop, and no early exit from it
            good = good and not any(e.kind == 'cond' for e in sp.events[ki:kc]) \
                and not any(isinstance(x, (ast.Continue, ast.Break, ast.Return)) for x in ast.walk(it.node))
            # the row is a list created for this stage
            if good:
                good = any(e.kind == 'assign' and e.target == [row.id] and src(e.expr) in ('[]', 'list()') for e in sp.events[:ki])
            if not good:
                ok, why = False, 'a node of the stage is not offered unconditionally to append_row with a fresh row and the caller\'s options'
        ctx.check(ok and n_visits > 0, 'R1', at, es.qualname, 'body-visits-every-node',
                  'every node of every exported stage is offered once, in list order, to append_row with a fresh row and the caller\'s options',
                  why or 'the stage loop does not offer every node of the stage to append_row unconditionally')


def r3_query(ctx):
    gs = ctx.prog.func(f'{EXP}.get_spine_types')
    doc_p, st_p = gs.params[1:3]
    eo = ctx.prog.cls(f'{N.EXPORTER}.ExportOptions')
    members = {m.name: m for m in ctx.ce.enum_canonical(ctx.prog.cls(N.TOKCAT))}
    n_ret = 0
    exp_f = ctx.prog.func(f'{EXP}.export_string')

    def export_call(node):
        cs = [c for c in ast.walk(node) if isinstance(c, ast.Call) and src(c.func) == 'self.export_string']
        return cs[0] if cs else None

    for cond, val, sp in symex.returns(gs):
        at = f'{gs.module.relpath}:{sp.path.end_node.lineno}'
        ats = G.atoms_of(cond)
        none_a, nonempty_a = f'{st_p} is None', f'nonempty({st_p})'
        # the first exported line and the ways to say that it holds no header cell
        call = None
        for node, _ in sp.conds:
            call = call or export_call(node)
        call = call or export_call(val)
        E = src(call) if call is not None else None
        firsts = [f"{E}.split('\\n')[0]", f"{E}.split('\\n')[0:1][0]", f"{E}.partition('\\n')[0]", f"{E}.splitlines()[0]",
                  f"{E}.split('\\n', 1)[0]"] if E else []
        tokens = [f"{f_}.split('\\t')" for f_ in firsts]
        blank_true = {f"{t_} in [[], ['']]" for t_ in tokens} | {f"'' == {f_}" for f_ in firsts} | {f"[''] == {t_}" for t_ in tokens} \
            | {f"{t_} == ['']" for t_ in tokens}
        blank_false = {f'nonempty({f_})' for f_ in firsts} | set(firsts)
        blank_as = [a for a in ats if a in blank_true or a in blank_false]
        extra = set(ats) - {none_a, nonempty_a} - set(blank_as)
        if extra or len(blank_as) > 1:
            ctx.violation('R3', at, gs.qualname, 'query-extra-condition', f'get_spine_types branches on `{sorted(extra or blank_as)}`')
            continue
        n_ret += 1
        for none_v, empty_v, blank_v in ((True, False, False), (False, True, False), (False, False, False),
                                         (True, False, True), (False, False, True)):
            def truth(a):
                if a == none_a:
                    return none_v
                if a == nonempty_a:
                    return not empty_v
                return blank_v if a in blank_true else (not blank_v)
            if not G.evaluate(cond, {a: truth(a) for a in ats}):
                continue
            if blank_v and not blank_as:
                continue
            if blank_v:
                ctx.check(src(val) == '[]', 'R3', at, gs.qualname, 'query-blank-line', 'a first line without header cells returns []',
                          f'a first line without header cells returns `{src(val)[:60]}`')
                continue
            if (not none_v) and empty_v:
                ctx.check(src(val) == '[]', 'R3', at, gs.qualname, 'query-empty-selection', 'an empty selection returns []',
                          f'an empty selection returns `{src(val)[:60]}`')
                continue
            # derived from export_string
            s = src(val)
            okd = False
            if call is not None:
                c = call
                b = F.bind_args(c, exp_f, True)
                o = b.get('options')
                if F.is_name(b.get('document'), doc_p) and isinstance(o, ast.Call) and F.constructed_class(ctx, o, gs) is eo:
                    ob = F.bind_args(o, ctx.prog.find_method(eo, '__init__'), True)
                    okc, cats = ctx.ce.try_eval(ob.get('token_categories'), gs.module) if ob.get('token_categories') is not None else (False, None)
                    okd = F.is_name(ob.get('spine_types'), st_p) and okc and set(cats) == {members['HEADER']} \
                        and set(ob) <= {'spine_types', 'token_categories'}
            ctx.check(okd, 'R3', at, gs.qualname, 'query-derived-from-export',
                      'the answer is derived from export_string(document, ExportOptions(spine_types=<same selection>, '
                      'token_categories=[HEADER]))',
                      f'the answer `{s[:100]}` is not derived from a HEADER-only export with the same spine_types')
            ctx.check(s in tokens, 'R3', at, gs.qualname, 'query-first-line', 'the first exported line is split on TAB',
                      f'the answer is `{s[:140]}`')
    ctx.expect_count('R3', 'returning paths of get_spine_types', n_ret, 2)
    pub = ctx.prog.func(f'{N.PUBLIC}.spine_types')
    rets = symex.returns(pub)
    ok = len(rets) == 1 and F.same(ctx, pub, rets[0][1], f'generic.Generic.get_spine_types(document={pub.params[0]}, spine_types={pub.params[1]})')
    ctx.check(ok, 'R3', pub.loc, pub.qualname, 'public-query-forwards', 'kernpy.spine_types forwards (document, headers) to the exporter query')
    gg = ctx.prog.func(f'{N.GENERIC}.Generic.get_spine_types')
    rets = symex.returns(gg)
    ok = len(rets) == 1 and F.same(ctx, gg, rets[0][1], f'Exporter().get_spine_types({gg.params[1]}, {gg.params[2]})')
    ctx.check(ok, 'R3', gg.loc, gg.qualname, 'generic-query-forwards', 'Generic.get_spine_types uses a fresh Exporter with unswapped arguments')
