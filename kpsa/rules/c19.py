"""C19 - Concatenation indexes address the fragments (bookkeeping clauses)."""
from __future__ import annotations

import ast

from ..errors import AnalysisError
from ..model import src, walk_local, docstring_free
from ..affine import affine, NotAffine
from .. import names as N
from .. import facts as F
from .. import guards as G
from .. import symex


def run(ctx):
    ctx.explanation = (
        'Static rule for C19 on Generic.concat (symbolic execution of one loop iteration with the loop-carried variables as symbols): '
        'the accumulated text is the previous text + separator + fragment in list order; the document of the iteration is the import '
        'of the text accumulated so far; exactly one (low, high) pair is appended per fragment with high = measure count of that '
        'prefix document; the next low is high + 1 and the first low is 0 - so pairs are consecutive and the last `to` is the measure '
        'count of the returned document, which is the import of the full joined text; public.concat forwards contents and separator '
        'unchanged and separator=None means newline. That exporting pair i reproduces fragment i is not decided (needs C07 on every '
        'prefix).')
    ctx.not_decided = ['"exporting pair i reproduces the data lines of fragment i" on all documents (the necessary range / index clauses of C07 are checked as R2)']
    from . import c07
    ctx.alias = {'R2': 'R2', 'R3': 'R2', 'R1': 'R2'}
    c07.r2_arithmetic(ctx)
    c07.r3_index(ctx)
    ctx.alias = {}
    f = ctx.prog.func(f'{N.GENERIC}.Generic.concat')
    contents, sepn = f.params[1:3]
    body = docstring_free(f.body)
    loops = [n for n in body if isinstance(n, ast.For) and src(n.iter) == contents]
    ctx.expect_count('R1', 'fragment loop', len(loops), 1)
    lp = loops[0]
    frag = lp.target.id
    at = f'{f.module.relpath}:{lp.lineno}'
    # initial values
    init = {}
    for st in body[:body.index(lp)]:
        if isinstance(st, ast.Assign) and isinstance(st.targets[0], ast.Name):
            init[st.targets[0].id] = src(st.value)
    sps = symex.sym_paths(lp.body)
    ctx.check(len(sps) == 1 and sps[0].end == 'fall', 'R1', at, f.qualname, 'single-path-per-fragment',
              'one unconditional path per fragment (no fragment is skipped or treated specially)',
              f'{len(sps)} paths through the fragment loop: some fragments are handled differently')
    if len(sps) != 1:
        return
    sp = sps[0]
    env = sp.env
    # which locals hold text / low / document
    creates = [e for e in sp.events if e.kind == 'assign' and isinstance(e.expr, ast.Call) and F.is_name(e.expr.func, 'create')]
    r = ctx.prog.resolve(f.module, 'create')
    okc = len(creates) == 1 and r is not None and r.kind == 'def' and r.value.qualname == f'{N.GENERIC}.create'
    ctx.check(okc, 'R1', at, f.qualname, 'one-import-per-fragment', 'each iteration imports once with the API function create')
    if not okc:
        return
    text_arg = creates[0].expr.args[0]
    text_vars = [v for v, s in init.items() if s == "''"]
    textv = text_vars[0] if text_vars else None
    ok_text = textv is not None and src(text_arg) in (f'{textv} + ({sepn} + {frag})', f'{textv} + {sepn} + {frag}') \
        and src(env.get(textv)) == src(text_arg)
    ctx.check(ok_text, 'R1', at, f.qualname, 'prefix-text',
              'the imported text is the text accumulated so far + separator + this fragment, and is carried to the next iteration',
              f'the imported text is `{src(text_arg)[:80]}` (accumulator `{textv}` becomes `{src(env.get(textv))[:60] if textv else None}`)')
    apps = [e for e in sp.events if e.kind == 'expr' and isinstance(e.expr, ast.Call) and isinstance(e.expr.func, ast.Attribute)
            and e.expr.func.attr == 'append']
    ok_one = len(apps) == 1 and len(apps[0].expr.args) == 1 and isinstance(apps[0].expr.args[0], ast.Tuple) and len(apps[0].expr.args[0].elts) == 2
    ctx.check(ok_one, 'R1', at, f.qualname, 'one-pair-per-fragment', 'exactly one (low, high) pair is appended per fragment',
              f'{len(apps)} appends per fragment')
    if not ok_one:
        return
    lowe, highe = apps[0].expr.args[0].elts
    idxv = src(apps[0].expr.func.value)
    doc_call = src(creates[0].expr)
    want_high = f'{doc_call}[0].measures_count()'
    ctx.check(src(highe) == want_high, 'R1', at, f.qualname, 'high-is-prefix-measure-count',
              'high = measure count of the document imported from the prefix text', f'high is `{src(highe)[:90]}`')
    lowv = src(lowe)
    ctx.check(isinstance(lowe, ast.Name) and init.get(lowv) == '0', 'R1', at, f.qualname, 'first-low-is-zero',
              'low is the loop-carried index, which starts at 0', f'low is `{lowv}` with initial value {init.get(lowv)}')
    nxt = env.get(lowv)
    ok_next = False
    if nxt is not None:
        try:
            a = affine(nxt)
            ok_next = a.terms == {want_high: 1} and a.const == 1
        except NotAffine:
            ok_next = False
    ctx.check(ok_next, 'R1', at, f.qualname, 'next-low-is-high-plus-one', 'the next low is this high + 1 (pairs are consecutive)',
              f'the next low is `{src(nxt)[:80] if nxt is not None else None}`')
    ctx.check(init.get(idxv) == '[]', 'R1', at, f.qualname, 'index-list-fresh', 'the index list starts empty')
    # returned document = last import
    docv = None
    for e in sp.events:
        if e.kind == 'assign' and e.node is creates[0].node:
            docv = e.target[0] if e.target else None
    rets = [n for n in body if isinstance(n, ast.Return)]
    ok_ret = len(rets) == 1 and src(rets[0].value) == f'({docv}, {idxv})'
    ctx.check(ok_ret, 'R1', f'{f.module.relpath}:{rets[0].lineno if rets else lp.lineno}', f.qualname, 'returns-last-document',
              'concat returns the document imported from the full text together with the index list',
              f'concat returns `{src(rets[0].value) if rets else None}`')
    # separator default and empty input
    okd = any(isinstance(n, ast.If) and src(n.test) == f'{sepn} is None' and any(src(s) == f"{sepn} = '\\n'" for s in n.body) for n in body)
    ctx.check(okd, 'R1', f.loc, f.qualname, 'separator-default', 'separator=None means a newline')
    pub = ctx.prog.func(f'{N.PUBLIC}.concat')
    pr = symex.returns(pub)
    okp = len(pr) == 1 and F.same(ctx, pub, pr[0][1], f'generic.Generic.concat(contents={pub.params[0]}, separator=separator)')
    ctx.check(okp, 'R1', pub.loc, pub.qualname, 'public-forwards', 'kernpy.concat forwards contents and separator unchanged')
    cr = ctx.prog.func(f'{N.GENERIC}.create')
    rr = symex.returns(cr)
    ctx.check(len(rr) == 1 and F.same(ctx, cr, rr[0][1], f'Generic.create(content={cr.params[0]}, strict={cr.params[1]})'), 'R1', cr.loc, cr.qualname,
              'create-is-loads', 'create(text) is the string import of the API (same function as loads)')
