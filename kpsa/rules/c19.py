"""C19 - Concatenation indexes address the fragments (bookkeeping clauses)."""
from __future__ import annotations

import ast

from ..errors import AnalysisError
from ..model import src, walk_local, docstring_free
from ..affine import affine, NotAffine
from .. import names as N
from .. import facts as F
from .. import guards as G
from .. import symex


def run(ctx):
    ctx.explanation = (
        'Static rule for C19 on Generic.concat (symbolic execution of one loop iteration with the loop-carried variables as symbols): '
        'the accumulated text is the previous text + separator + fragment in list order; the document of the iteration is the import '
        'of the text accumulated so far; exactly one (low, high) pair is appended per fragment with high = measure count of that '
        'prefix document; the next low is high + 1 and the first low is 0 - so pairs are consecutive and the last `to` is the measure '
        'count of the returned document, which is the import of the full joined text; public.concat forwards contents and separator '
        'unchanged and separator=None means newline. That exporting pair i reproduces fragment i is not decided (needs C07 on every '
        'prefix).')
    ctx.not_decided = ['"exporting pair i reproduces the data lines of fragment i" on all documents (the necessary range / index clauses of C07 are checked as R2)']
    from . import c07
    ctx.alias = {'R2': 'R2', 'R3': 'R2', 'R1': 'R2'}
    c07.r2_arithmetic(ctx)
    c07.r3_index(ctx)
    ctx.alias = {'R4': 'R2'}
    c07.r4_iteration(ctx)       # measures_count = len(index): the `to` of the last pair
    ctx.alias = {'R1': 'R3'}
    c07.r1_validator(ctx)       # every pair concat hands out is accepted by the validator (in particular (M, M))
    ctx.alias = {}
    f = ctx.prog.func(f'{N.GENERIC}.Generic.concat')
    # concat keeps nothing between calls: among the writes the effect analysis finds below it, none goes to a class attribute or a
    # module-level object (the node counter Node.NextID excepted) - a remembered previous call would make the pairs depend on history
    from ..effects import Effects
    eng = Effects(ctx.prog)
    eng.analyse([f])
    # (decided on the syntactic target of every store in the reachable functions: `cls.x = ..`, `ClassName.x = ..`, `cls.x[k] = ..`,
    # a `global` statement - the alias analysis is not used for this rule)
    kept = []
    reach = [g for g in eng.reachable(f) if not g.module.generated]
    for g in reach:
        for n in walk_local(g.node):
            if isinstance(n, ast.Global):
                kept.append((g, n, f'global {", ".join(n.names)}'))
            tgs = []
            if isinstance(n, ast.Assign):
                tgs = n.targets
            elif isinstance(n, (ast.AugAssign, ast.AnnAssign)):
                tgs = [n.target]
            for t in tgs:
                base = t
                while isinstance(base, ast.Subscript):
                    base = base.value
                if isinstance(base, ast.Attribute) and isinstance(base.value, ast.Name):
                    owner = base.value.id
                    is_cls = (owner == 'cls' and g.kind == 'classmethod') or (ctx.prog.resolve(g.module, owner) is not None
                                                                              and ctx.prog.resolve(g.module, owner).kind == 'class'
                                                                              and owner not in g.all_params)
                    if is_cls and not (owner == 'Node' and base.attr == 'NextID'):
                        kept.append((g, n, src(t)))
    for g, n, what in kept[:3]:
        ctx.violation('R3', f'{g.module.relpath}:{n.lineno}', f.qualname, f'state-between-calls:{what[:50]}',
                      f'{g.qualname} stores `{what}`: state of a class / module that outlives the call and that a later concat reads - the '
                      f'pairs of a call depend on the calls made before it')
    if not kept:
        ctx.holds('R3', f.loc, f.qualname, f'no store to a class attribute or module global in the {len(reach)} functions below concat (Node.NextID excepted)')
    contents, sepn = f.params[1:3]
    body = docstring_free(f.body)
    loops = [n for n in walk_local(f.node) if isinstance(n, ast.For) and src(n.iter) == contents]
    ctx.expect_count('R1', 'fragment loop', len(loops), 1)
    lp = loops[0]
    # the statements that run before the loop (wherever the loop sits: at top level or inside the last branch of a guard)
    before_lp = []

    def collect(stmts):
        for st_ in stmts:
            if st_ is lp:
                return True
            if any(n_ is lp for n_ in ast.walk(st_)):
                for field in ('body', 'orelse', 'finalbody'):
                    v_ = getattr(st_, field, None)
                    if isinstance(v_, list) and v_ and isinstance(v_[0], ast.stmt) and any(n_ is lp for x_ in v_ for n_ in ast.walk(x_)):
                        return collect(v_)
                return True
            before_lp.append(st_)
        return False
    collect(body)
    if not isinstance(lp.target, ast.Name):
        raise AnalysisError(f'{f.loc}: the fragment loop has no simple loop variable')
    L = lp.lineno
    FRAG = f'{lp.target.id}@{L}'
    at = f'{f.module.relpath}:{L}'
    r = ctx.prog.resolve(f.module, 'create')
    ok_create_fn = r is not None and r.kind == 'def' and r.value.qualname == f'{N.GENERIC}.create'
    # initial values of the names bound before the loop (whatever the path)
    init = {}
    for st in before_lp:
        for n in ast.walk(st):
            if isinstance(n, ast.Assign) and isinstance(n.targets[0], ast.Name):
                init.setdefault(n.targets[0].id, set()).add(src(n.value))

    def flat(x, out):
        if isinstance(x, ast.BinOp) and isinstance(x.op, ast.Add):
            flat(x.left, out)
            flat(x.right, out)
        else:
            out.append(x)
        return out
    facts = {k: [] for k in ('paths', 'import', 'text', 'carried', 'sep', 'pair', 'high', 'low', 'ret', 'cond')}
    n_iter = 0
    for sp in symex.func_sym_paths(f):
        entered = [e for e in sp.events if e.kind == 'iter' and e.node is lp]
        if not entered or sp.end == 'raise':
            continue
        n_iter += 1
        in_loop = {id(n) for b_ in lp.body for n in ast.walk(b_)}
        inside = [e for e in sp.events if id(e.node) in in_loop]
        pc = sp.condition()
        # tests inside the iteration may only ask whether pairs were recorded before
        loop_tests = [e for e in inside if e.kind == 'cond']
        creates = [e for e in inside if e.kind == 'assign' and isinstance(e.expr, ast.Call) and F.is_name(e.expr.func, 'create')]
        def delegates():
            # a call, in the loop body, of a method of an object of a class the pinned tree does not know (built before the loop)
            objs = {}
            for st_ in before_lp:
                for n_ in ast.walk(st_):
                    if isinstance(n_, ast.Assign) and len(n_.targets) == 1 and isinstance(n_.targets[0], ast.Name) and isinstance(n_.value, ast.Call):
                        c_ = F.constructed_class(ctx, n_.value, f)
                        if c_ is not None and c_.qualname not in ctx.prog.normalizer.known:
                            objs[n_.targets[0].id] = c_
            return any(isinstance(n_, ast.Call) and isinstance(n_.func, ast.Attribute) and isinstance(n_.func.value, ast.Name)
                       and n_.func.value.id in objs for b_ in lp.body for n_ in ast.walk(b_))
        if not creates and delegates() and not any(isinstance(n_, ast.Call) and F.is_name(n_.func, 'create') for b_ in lp.body for n_ in ast.walk(b_)):
            # the loop body does not import anything itself: the state of the loop lives in an object whose method does the work
            raise AnalysisError(f'{at}: the fragment loop of concat delegates the import to `'
                                f'{[src(e.expr)[:50] for e in inside if e.kind == "expr"][:1]}`: loop-carried state in an object is not followed')
        facts['import'].append(len(creates) == 1 and ok_create_fn and len(creates[0].expr.args) >= 1)
        if not (len(creates) == 1 and creates[0].expr.args):
            continue
        text = creates[0].expr.args[0]
        parts = flat(text, [])
        acc = parts[0] if parts and isinstance(parts[0], ast.Name) and parts[0].id.endswith(f'@iter{L}') else None
        accv = acc.id[:-len(f'@iter{L}')] if acc is not None else None
        ok_text = acc is not None and len(parts) == 3 and src(parts[2]) == FRAG and init.get(accv) == {"''"}
        facts['text'].append(ok_text)
        facts['carried'].append(ok_text and src(sp.env.get(accv)) == src(text))
        if ok_text:
            se = parts[1]
            none_atom = f'{sepn} is None'
            if F.forced(pc, none_atom, True):
                facts['sep'].append(isinstance(se, ast.Constant) and se.value == '\n')
            elif F.forced(pc, none_atom, False):
                facts['sep'].append(src(se) == sepn)
            else:
                facts['sep'].append(src(se) in (f"'\\n' if {sepn} is None else {sepn}", f"{sepn} if {sepn} is not None else '\\n'"))
        apps = [e for e in inside if e.kind == 'expr' and isinstance(e.expr, ast.Call) and isinstance(e.expr.func, ast.Attribute)
                and e.expr.func.attr == 'append' and isinstance(e.node.value.func.value, ast.Name)]
        ok_one = len(apps) == 1 and len(apps[0].expr.args) == 1 and isinstance(apps[0].expr.args[0], ast.Tuple) and len(apps[0].expr.args[0].elts) == 2
        facts['pair'].append(ok_one)
        if not ok_one:
            continue
        idxv = apps[0].node.value.func.value.id
        lowe, highe = apps[0].expr.args[0].elts
        want_high = f'{src(creates[0].expr)}[0].measures_count()'
        facts['high'].append(src(highe) == want_high and init.get(idxv) == {'[]'})
        # low: the loop-carried index (starts at 0, next = high + 1), or derived from the last recorded pair
        nonempty_atoms = [a for a in G.atoms_of(pc) if a in (idxv, f'nonempty({idxv})')]
        if isinstance(lowe, ast.Name) and lowe.id.endswith(f'@iter{L}'):
            lv = lowe.id[:-len(f'@iter{L}')]
            nxt = sp.env.get(lv)
            ok_low = init.get(lv) == {'0'}
            try:
                a_ = affine(nxt) if nxt is not None else None
                ok_low = ok_low and a_ is not None and a_.terms == {want_high: 1} and a_.const == 1
            except NotAffine:
                ok_low = False
            facts['low'].append(ok_low)
            facts['cond'].append(not loop_tests)
        elif nonempty_atoms and F.forced(pc, nonempty_atoms[0], True):
            try:
                a_ = affine(lowe)
                facts['low'].append(a_.terms == {f'{idxv}[-1][1]': 1} and a_.const == 1)
            except NotAffine:
                facts['low'].append(False)
            facts['cond'].append(all(src(e.expr) in (idxv, f'len({idxv}) > 0', f'len({idxv}) != 0', f'len({idxv}) == 0', f'not {idxv}') for e in loop_tests))
        elif nonempty_atoms and F.forced(pc, nonempty_atoms[0], False):
            facts['low'].append(isinstance(lowe, ast.Constant) and lowe.value == 0)
            facts['cond'].append(all(src(e.expr) in (idxv, f'len({idxv}) > 0', f'len({idxv}) != 0', f'len({idxv}) == 0', f'not {idxv}') for e in loop_tests))
        else:
            facts['low'].append(False)
            facts['cond'].append(False)
        if sp.end == 'return':
            docv = creates[0].target[0] if creates[0].target else None
            v = sp.value
            facts['ret'].append(isinstance(v, ast.Tuple) and len(v.elts) == 2 and src(v.elts[1]) == idxv
                                and src(v.elts[0]) in (f'{src(creates[0].expr)}[0]', str(docv)))
    def allok(k):
        return bool(facts[k]) and all(facts[k])
    ctx.check(n_iter > 0 and allok('cond'), 'R1', at, f.qualname, 'single-path-per-fragment',
              'every fragment is handled alike (the only test inside the loop may be whether a pair was recorded before)',
              'the fragment loop branches: some fragments are handled differently')
    ctx.check(allok('import'), 'R1', at, f.qualname, 'one-import-per-fragment', 'each iteration imports once with the API function create')
    ctx.check(allok('text') and allok('carried'), 'R1', at, f.qualname, 'prefix-text',
              'the imported text is the text accumulated so far + separator + this fragment, and is carried to the next iteration')
    ctx.check(allok('pair'), 'R1', at, f.qualname, 'one-pair-per-fragment', 'exactly one (low, high) pair is appended per fragment')
    ctx.check(allok('high'), 'R1', at, f.qualname, 'high-is-prefix-measure-count',
              'high = measure count of the document imported from the prefix text; the index list starts empty')
    ctx.check(allok('low'), 'R1', at, f.qualname, 'next-low-is-high-plus-one',
              'the first low is 0 and every later low is the previous high + 1 (pairs are consecutive)')
    ctx.check(allok('ret'), 'R1', at, f.qualname, 'returns-last-document',
              'concat returns the document imported from the full text together with the index list')
    ctx.check(allok('sep'), 'R1', f.loc, f.qualname, 'separator-default', 'separator=None means a newline')
    # a path that returns without entering the fragment loop (a shortcut for few fragments) must return pairs as well
    for sp in symex.func_sym_paths(f):
        if sp.end != 'return' or any(e.kind == 'iter' and e.node is lp for e in sp.events):
            continue
        v = sp.value
        skipped = any(e.kind == 'skip' and e.node is lp for e in sp.events)
        ok_short = isinstance(v, ast.Tuple) and len(v.elts) == 2 and (src(v.elts[1]) in ('[]', 'indexes') or isinstance(v.elts[1], (ast.List, ast.ListComp)))
        if skipped and ok_short:
            continue
        ctx.check(ok_short, 'R1', f'{f.module.relpath}:{sp.path.end_node.lineno if sp.path.end_node else L}', f.qualname, 'shortcut-returns-pairs',
                  'a path of concat that does not run the fragment loop still returns (document, list of pairs)',
                  f'a path of concat returns `{src(v)[:80] if v is not None else None}` without running the fragment loop: not (document, '
                  f'pairs) - for that input there is no pair per fragment')
    pub = ctx.prog.func(f'{N.PUBLIC}.concat')
    pr = symex.returns(pub)
    okp = len(pr) == 1 and F.same(ctx, pub, pr[0][1], f'generic.Generic.concat(contents={pub.params[0]}, separator=separator)')
    ctx.check(okp, 'R1', pub.loc, pub.qualname, 'public-forwards', 'kernpy.concat forwards contents and separator unchanged')
    cr = ctx.prog.func(f'{N.GENERIC}.create')
    rr = symex.returns(cr)
    ctx.check(len(rr) == 1 and F.same(ctx, cr, rr[0][1], f'Generic.create(content={cr.params[0]}, strict={cr.params[1]})'), 'R1', cr.loc, cr.qualname,
              'create-is-loads', 'create(text) is the string import of the API (same function as loads)')
