"""C08 - A measure excerpt is a self-contained, equivalent score (plumbing clauses only)."""
from __future__ import annotations

import ast

from ..errors import AnalysisError
from ..model import src, walk_local, docstring_free
from ..affine import affine, NotAffine
from .. import names as N
from .. import facts as F
from .. import guards as G
from .. import symex
from .exporter_facts import EXP
from . import c02, c07, c10


def run(ctx):
    ctx.explanation = (
        'C08 is a behavioural property of whole excerpts; this family decides only the plumbing without which no excerpt can carry '
        'its context: (R1) signature-context plumbing - every add_node passes the parent\'s signature context, Node.__init__ stores a '
        'CLONE of it (the clone copies the dict, otherwise siblings after a split share state), the importer updates the node\'s own '
        'context exactly for signature tokens, keyed by class name; (R2) the excerpt preamble reads the signatures from the '
        'last_signature_nodes of the nodes of from_stage and exports them with export_token; (R3) terminator synthesis: when '
        'to_measure is given and the last row is not a terminator row exactly one row of *- is appended whose length is an affine '
        'function of the last row\'s length and its *^ / *v counts; (R4) one spine predicate: every place of export_string that emits '
        'cells decides whether a node\'s spine is exported with the predicate of append_row or delegates to it; (R5) the options are '
        'validated first. Well-formedness, re-importability and equivalence of excerpts are NOT decided.')
    ctx.not_decided = ['header-first, consistent cell counts, terminated spines, error-free re-import, same governing signatures: these '
                       'depend on the whole tree history and on is_signature_cancelled, whose correctness is not a shape']
    r1_plumbing(ctx)
    r2_preamble(ctx)
    r3_terminator(ctx)
    r4_one_predicate(ctx)
    c07.r1_validator(ctx)   # recorded as R1 of this property: validated before any read


def r1_plumbing(ctx):
    c02.r4_provenance(ctx, 'R1')
    init = ctx.prog.func(f'{N.DOCUMENT}.Node.__init__')
    p = 'last_signature_nodes'
    stores = [n for n in walk_local(init.node) if isinstance(n, ast.Assign) and src(n.targets[0]) == f'self.{p}']
    vals = sorted(src(s.value) for s in stores)
    ok = vals == sorted([f'{p}.clone()', 'SignatureNodes()'])
    ctx.check(ok, 'R1', init.loc, init.qualname, 'signature-context-cloned',
              'a node stores a CLONE of the signature context it inherits (or a new one)',
              f'Node.__init__ stores {vals}: the context object is shared between a node and its parent/siblings, so a signature '
              f'change in one sub-spine after a split leaks into the other')
    cl = ctx.prog.func(f'{N.DOCUMENT}.SignatureNodes.clone')
    okc = False
    for sp in symex.func_sym_paths(cl):
        if sp.end == 'return':
            st = [e for e in sp.events if e.kind == 'store' and isinstance(e.target, ast.Attribute) and e.target.attr == 'nodes']
            okc = len(st) == 1 and src(st[0].expr) in ('copy(self.nodes)', 'dict(self.nodes)', 'self.nodes.copy()', 'copy.copy(self.nodes)') \
                and src(sp.value) == 'SignatureNodes()'
    ctx.check(okc, 'R1', cl.loc, cl.qualname, 'clone-copies-dict',
              'SignatureNodes.clone returns a new object holding a copy of the dict',
              'SignatureNodes.clone does not copy the dict: the clone aliases the original context')
    c10.r6_clef_in_force(ctx, 'R1')


def r2_preamble(ctx):
    es = ctx.prog.func(f'{EXP}.export_string')
    loops = [n for n in walk_local(es.node) if isinstance(n, ast.For) and src(n.iter) == 'document.tree.stages[from_stage]']
    ctx.expect_count('R2', 'signature preamble loop', len(loops), 1)
    for lp in loops:
        nd = lp.target.id
        inner = [n for n in ast.walk(lp) if isinstance(n, ast.For) and src(n.iter) == f'{nd}.last_signature_nodes.nodes.values()']
        ok = len(inner) == 1
        if ok:
            sv = inner[0].target.id
            ok = any(isinstance(c, ast.Call) and src(c) == f'self.export_token({sv}, options)' for c in ast.walk(inner[0]))
        ctx.check(ok, 'R2', f'{es.module.relpath}:{lp.lineno}', es.qualname, 'preamble-reads-signature-context',
                  'the excerpt preamble exports, with export_token, the signature nodes recorded in the context of each node of from_stage')


def r3_terminator(ctx):
    es = ctx.prog.func(f'{EXP}.export_string')
    guards_ = [n for n in walk_local(es.node) if isinstance(n, ast.If) and "'*-'" in src(n.test) and 'to_measure' in src(n.test)]
    ctx.expect_count('R3', 'terminator synthesis block', len(guards_), 1)
    for gd in guards_:
        at = f'{es.module.relpath}:{gd.lineno}'
        fm = G._formula(gd.test)
        naming = {'options.to_measure is None': 'none', '0 < len(rows)': 'rows', "'*-' == rows[len(rows) - 1][0]": 'term',
                  "'*-' == rows[-1][0]": 'term'}
        eq, cex, unknown = G.compare(fm, lambda v: (not v['none']) and v['rows'] and not v['term'], naming)
        ctx.check(eq and not unknown, 'R3', at, es.qualname, 'terminator-guard',
                  'a terminator row is synthesised iff to_measure is given, there are rows and the last row is not a terminator row',
                  f'terminator guard is `{G.show(fm)[:140]}`')
        sps = symex.sym_paths(gd.body)
        okb = len(sps) >= 1
        for sp in sps:
            apps = [e for e in sp.events if e.kind == 'expr' and isinstance(e.expr, ast.Call) and src(e.expr.func) == 'rows.append']
            okb = okb and len(apps) == 1
        loops = [n for n in ast.walk(gd) if isinstance(n, ast.For) and isinstance(n.iter, ast.Call) and F.is_name(n.iter.func, 'range')]
        okr = len(loops) == 1 and any(isinstance(c, ast.Call) and src(c) == "row.append('*-')" for c in ast.walk(loops[0]))
        ctx.check(okb and okr, 'R3', at, es.qualname, 'one-terminator-row', 'exactly one row consisting of *- cells is appended')
        if okr:
            env = {}
            for s in gd.body:
                if isinstance(s, ast.Assign) and isinstance(s.targets[0], ast.Name):
                    env[s.targets[0].id] = G.substitute(s.value, env)
            cnt = G.substitute(loops[0].iter.args[0], env)

            def term(node):
                s_ = src(node)
                if s_.startswith('sum(') and "'*^'" in s_:
                    return 'splits'
                if s_.startswith('sum(') and "'*v'" in s_:
                    return 'joins'
                if s_.startswith('len('):
                    return 'cells'
                return None
            try:
                a = affine(cnt, None, term)
                ok = a.terms.get('cells') == 1 and a.terms.get('splits') == 1 and a.terms.get('joins', 0) <= 0 and a.const == 0
                ctx.check(ok, 'R3', at, es.qualname, 'terminator-row-length',
                          f'terminator row length = cells + splits - joins-ish (affine form {a.key()})',
                          f'terminator row length is `{a.key()}`')
                ctx.note('R3', at, es.qualname, 'a trailing join row needs cells + splits - (joins - groups); today joins are '
                                               'subtracted one by one - outside the claimed core (no trailing spine-operator row)')
            except NotAffine as e:
                ctx.violation('R3', at, es.qualname, 'terminator-row-length', f'terminator row length is not affine: {e}')


def r4_one_predicate(ctx):
    es = ctx.prog.func(f'{EXP}.export_string')
    blocks = [n for n in docstring_free(es.body) if isinstance(n, ast.If) and src(n.test) == 'options.from_measure']
    ctx.expect_count('R4', 'excerpt preamble block', len(blocks), 1)
    blk = blocks[0]
    sites = [c for s in blk.body for c in ast.walk(s) if isinstance(c, ast.Call) and src(c.func) in ('self.export_token', 'self.append_row')]
    bypass = []
    for c in sites:
        if src(c.func) == 'self.append_row':
            continue
        # enclosing tests inside the preamble
        tests = []
        for n in ast.walk(blk):
            if isinstance(n, ast.If) and c in [x for s in n.body for x in ast.walk(s)]:
                tests.append(src(n.test))
        joined = ' && '.join(tests)
        full = 'options.spine_types' in joined and 'spine_ids' in joined
        if not full:
            bypass.append((c.lineno, 'spine_types only' if 'options.spine_types' in joined else 'no spine test'))
    at = f'{es.module.relpath}:{blk.lineno}'
    ctx.check(not bypass, 'R4', at, es.qualname, 'preamble-bypasses-spine-gate',
              'every cell of the excerpt preamble is selected with the spine predicate of append_row',
              f'the excerpt preamble (header / spine-operator recovery and signature rows) emits cells through export_token at lines '
              f'{[b[0] for b in bypass]} without the spine predicate of append_row ({sorted({b[1] for b in bypass})}): with '
              f'spine_types=[\'**kern\'] an unselected **text spine that carries *M4/4 adds a cell to the signature row only, and with '
              f'spine_ids the header row keeps every column - the excerpt\'s cell counts are inconsistent')
    ctx.count('R4.preamble_emission_sites', len(sites))
