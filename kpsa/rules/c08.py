"""C08 - A measure excerpt is a self-contained, equivalent score (plumbing clauses only)."""
from __future__ import annotations

import ast

from ..errors import AnalysisError
from ..astutil import clone
from ..model import src, walk_local, docstring_free
from ..affine import affine, NotAffine
from .. import names as N
from .. import facts as F
from .. import guards as G
from .. import symex
from .exporter_facts import EXP
from . import c02, c07, c10


def run(ctx):
    ctx.explanation = (
        'C08 is a behavioural property of whole excerpts; this family decides only the plumbing without which no excerpt can carry '
        'its context: (R1) signature-context plumbing - every add_node passes the parent\'s signature context, Node.__init__ stores a '
        'CLONE of it (the clone copies the dict, otherwise siblings after a split share state), the importer updates the node\'s own '
        'context exactly for signature tokens, keyed by class name; (R2) the excerpt preamble reads the signatures from the '
        'last_signature_nodes of the nodes of from_stage and exports them with export_token; (R3) terminator synthesis: when '
        'to_measure is given and the last row is not a terminator row exactly one row of *- is appended whose length is an affine '
        'function of the last row\'s length and its *^ / *v counts; (R4) one spine predicate: every place of export_string that emits '
        'cells decides whether a node\'s spine is exported with the predicate of append_row or delegates to it; (R5) the options are '
        'validated first. Well-formedness, re-importability and equivalence of excerpts are NOT decided.')
    ctx.not_decided = ['header-first, consistent cell counts, terminated spines, error-free re-import, same governing signatures: these '
                       'depend on the whole tree history and on is_signature_cancelled, whose correctness is not a shape']
    r1_plumbing(ctx)
    r2_preamble(ctx)
    r3_terminator(ctx)
    r4_one_predicate(ctx)
    r6_cancel_bookkeeping(ctx)
    r7_signature_search(ctx)
    r10_preamble_provenance(ctx)
    r11_last_operator(ctx)
    c07.r1_validator(ctx)   # recorded as R1 of this property: validated before any read
    ctx.alias = {'R2': 'R9'}
    c07.r2_arithmetic(ctx)  # the stage bounds the excerpt and the signature search both use
    ctx.alias = {}
    from . import shared
    shared.effect_free(ctx, 'R8', [f'{N.PUBLIC}.dumps'],
                       'an excerpt is a function of the document and the range: nothing remembered from an earlier excerpt (a context '
                       'memoised in the document, an index list extended in place) may change a later one')


def r1_plumbing(ctx):
    c02.r4_provenance(ctx, 'R1')
    check_signature_clone(ctx, 'R1')
    c10.r6_clef_in_force(ctx, 'R1')


def check_signature_clone(ctx, rule):
    init = ctx.prog.func(f'{N.DOCUMENT}.Node.__init__')
    p = 'last_signature_nodes'
    stores = [n for n in walk_local(init.node) if isinstance(n, ast.Assign) and src(n.targets[0]) == f'self.{p}']
    vals = sorted(src(s.value) for s in stores)
    ok = vals == sorted([f'{p}.clone()', 'SignatureNodes()'])
    ctx.check(ok, rule, init.loc, init.qualname, 'signature-context-cloned',
              'a node stores a CLONE of the signature context it inherits (or a new one)',
              f'Node.__init__ stores {vals}: the context object is shared between a node and its parent/siblings, so a signature '
              f'change in one sub-spine after a split leaks into the other')
    cl = ctx.prog.func(f'{N.DOCUMENT}.SignatureNodes.clone')
    okc = False
    for sp in symex.func_sym_paths(cl):
        if sp.end == 'return':
            st = [e for e in sp.events if e.kind == 'store' and isinstance(e.target, ast.Attribute) and e.target.attr == 'nodes']
            okc = len(st) == 1 and src(st[0].expr) in ('copy(self.nodes)', 'dict(self.nodes)', 'self.nodes.copy()', 'copy.copy(self.nodes)') \
                and src(sp.value) == 'SignatureNodes()'
    if not okc:
        # the same thing as a constructor argument: clone returns SignatureNodes(self.nodes) and __init__ stores a COPY of what it is
        # given; storing the argument itself is the aliasing the rule is about
        sn_cls = ctx.prog.cls(f'{N.DOCUMENT}.SignatureNodes')
        init_sn = sn_cls.methods.get('__init__')
        rets_ = [v_ for _, v_, _ in symex.returns(cl)]
        if init_sn is not None and len(rets_) == 1 and isinstance(rets_[0], ast.Call) and F.constructed_class(ctx, rets_[0], cl) is sn_cls \
                and (rets_[0].args or rets_[0].keywords):
            b_ = F.bind_args(rets_[0], init_sn, True)
            given = [k_ for k_, v_ in b_.items() if src(v_) == 'self.nodes']
            if len(given) == 1:
                stores_ = [a_ for a_ in walk_local(init_sn.node) if isinstance(a_, ast.Assign) and any(src(t_) == 'self.nodes' for t_ in a_.targets)]
                texts = ' '.join(src(a_.value) for a_ in stores_)
                g_ = given[0]
                copies = any(f'{fn}({g_})' in texts for fn in ('copy', 'dict', 'copy.copy')) or f'{g_}.copy()' in texts
                aliases = any(F.is_name(a_.value, g_) for a_ in stores_) or any(
                    isinstance(a_.value, ast.IfExp) and (F.is_name(a_.value.body, g_) or F.is_name(a_.value.orelse, g_)) for a_ in stores_)
                if copies and not aliases:
                    okc = True
                elif not aliases:
                    raise AnalysisError(f'{cl.loc}: SignatureNodes.clone hands self.nodes to the constructor; what __init__ stores (`{texts[:60]}`) is not followed')
    ctx.check(okc, rule, cl.loc, cl.qualname, 'clone-copies-dict',
              'SignatureNodes.clone returns a new object holding a copy of the dict',
              'SignatureNodes.clone does not copy the dict: the clone aliases the original context')
    # who may write a signature context: Node.__init__ (the clone) and SignatureNodes' own methods.  Anything else that reaches into
    # `<node>.last_signature_nodes.nodes` (merging the contexts of joined sub-spines, copying entries from a neighbour) makes the
    # signatures in force below that point differ from the ones written above it in that spine.
    sn = ctx.prog.cls(f'{N.DOCUMENT}.SignatureNodes')
    n_sites = 0
    for f_ in ctx.prog.all_functions():
        if f_.module.generated or getattr(f_.module, 'legacy', False) or f_.cls is sn or isinstance(f_.node, ast.Lambda):
            continue
        for n_ in walk_local(f_.node):
            hit = None
            if isinstance(n_, ast.Call) and isinstance(n_.func, ast.Attribute) and src(n_.func.value).endswith('.last_signature_nodes.nodes') \
                    and n_.func.attr in ('update', 'pop', 'clear', 'setdefault', 'popitem', '__setitem__'):
                hit = n_
            if isinstance(n_, (ast.Assign, ast.AugAssign, ast.Delete)):
                tg = n_.targets if isinstance(n_, (ast.Assign, ast.Delete)) else [n_.target]
                for t in tg:
                    if isinstance(t, ast.Subscript) and src(t.value).endswith('.last_signature_nodes.nodes'):
                        hit = n_
                    if isinstance(t, ast.Attribute) and t.attr == 'nodes' and src(t.value).endswith('.last_signature_nodes'):
                        hit = n_
                    if isinstance(t, ast.Attribute) and t.attr == 'last_signature_nodes' and not (f_.name == '__init__' and F.is_name(t.value, 'self')):
                        hit = n_
            if hit is not None:
                n_sites += 1
                ctx.violation(rule, f'{f_.module.relpath}:{hit.lineno}', f_.qualname, 'signature-context-written-from-outside',
                              f'`{src(hit)[:80]}` writes into the signature context of a node from outside SignatureNodes / Node.__init__: the clef, '
                              f'key and meter recorded for one (sub-)spine are replaced by those of another, so an excerpt that starts below '
                              f'is governed by other signatures than the full score')
    if not n_sites:
        ctx.holds(rule, sn.loc if hasattr(sn, 'loc') else '', f'{N.DOCUMENT}.SignatureNodes', 'signature contexts are written only by Node.__init__ (clone) and by SignatureNodes itself')



def r2_preamble(ctx):
    es = ctx.prog.func(f'{EXP}.export_string')
    loops = [n for n in walk_local(es.node) if isinstance(n, ast.For) and src(n.iter) == 'document.tree.stages[from_stage]']
    ctx.expect_count('R2', 'signature preamble loop', len(loops), 1)
    for lp in loops:
        nd = lp.target.id
        want_iter = f'{nd}.last_signature_nodes.nodes.values()'
        inner = [(n, n.target, n) for n in ast.walk(lp) if isinstance(n, ast.For) and src(n.iter) == want_iter]
        for n in ast.walk(lp):
            if isinstance(n, (ast.ListComp, ast.GeneratorExp)) and len(n.generators) == 1 and src(n.generators[0].iter) == want_iter:
                inner.append((n, n.generators[0].target, n))
        ok = len(inner) == 1 and isinstance(inner[0][1], ast.Name)
        if ok:
            sv = inner[0][1].id
            ok = any(isinstance(c, ast.Call) and src(c) == f'self.export_token({sv}, options)' for c in ast.walk(inner[0][2]))
        ctx.check(ok, 'R2', f'{es.module.relpath}:{lp.lineno}', es.qualname, 'preamble-reads-signature-context',
                  'the excerpt preamble exports, with export_token, the signature nodes recorded in the context of each node of from_stage')


class _WeightSums(ast.NodeTransformer):
    """`sum(w(c) for c in S)` where w depends on the cell only through comparisons with a few constants (an if-chain, a
    conditional expression, a look-up in a constant table with a default) is `w(other) * len(S) + sum((w(k) - w(other)) *
    S.count(k))`: the weights are computed by the checker's evaluator, one constant at a time."""

    def __init__(self, ctx, fi):
        self.ctx, self.fi = ctx, fi

    def visit_Call(self, node):
        node = self.generic_visit(node)
        if not (isinstance(node.func, ast.Name) and node.func.id == 'sum' and len(node.args) == 1 and not node.keywords
                and isinstance(node.args[0], (ast.GeneratorExp, ast.ListComp)) and len(node.args[0].generators) == 1):
            return node
        g = node.args[0].generators[0]
        if g.ifs or not isinstance(g.target, ast.Name):
            return node
        var, elt, seq = g.target.id, node.args[0].elt, g.iter
        keys = []
        for n in ast.walk(elt):
            if isinstance(n, ast.Constant) and isinstance(n.value, str) and n.value not in keys:
                keys.append(n.value)
            if isinstance(n, (ast.Name, ast.Attribute)):
                ok, t = self.ctx.ce.try_eval(n, self.fi.module, self.fi.cls, {})
                if ok and isinstance(t, (dict, set, frozenset, list, tuple)):
                    keys.extend(k for k in t if isinstance(k, str) and k not in keys)
        other = '\x00any other cell'

        def weight(k):
            ok, v = self.ctx.ce.try_eval(elt, self.fi.module, self.fi.cls, {var: k})
            return v if ok and isinstance(v, int) and not isinstance(v, bool) else None
        w0 = weight(other)
        ws = {k: weight(k) for k in keys}
        if w0 is None or any(v is None for v in ws.values()) or len(keys) > 12:
            return node
        out = ast.BinOp(left=ast.Constant(value=w0), op=ast.Mult(),
                        right=ast.Call(func=ast.Name(id='len', ctx=ast.Load()), args=[clone(seq)], keywords=[]))
        for k, v in ws.items():
            if v != w0:
                cnt = ast.Call(func=ast.Attribute(value=clone(seq), attr='count', ctx=ast.Load()), args=[ast.Constant(value=k)], keywords=[])
                out = ast.BinOp(left=out, op=ast.Add(), right=ast.BinOp(left=ast.Constant(value=v - w0), op=ast.Mult(), right=cnt))
        return ast.fix_missing_locations(out)


def r3_terminator(ctx):
    es = ctx.prog.func(f'{EXP}.export_string')
    guards_ = [n for n in walk_local(es.node) if isinstance(n, ast.If) and "'*-'" in src(n.test) and 'to_measure' in src(n.test)]
    ctx.expect_count('R3', 'terminator synthesis block', len(guards_), 1)
    for gd in guards_:
        at = f'{es.module.relpath}:{gd.lineno}'
        fm = G._formula(gd.test)
        naming = {'options.to_measure is None': 'none', 'nonempty(rows)': 'rows', "'*-' == rows[-1][0]": 'term'}
        eq, cex, unknown = G.compare(fm, lambda v: (not v['none']) and v['rows'] and not v['term'], naming)
        ctx.check(eq and not unknown, 'R3', at, es.qualname, 'terminator-guard',
                  'a terminator row is synthesised iff to_measure is given, there are rows and the last row is not a terminator row',
                  f'terminator guard is `{G.show(fm)[:140]}`')
        sps = symex.sym_paths(gd.body, fi=es)
        okb = len(sps) >= 1
        counts = []
        for sp in sps:
            apps = [e.expr for e in sp.events if e.kind == 'expr' and isinstance(e.expr, ast.Call) and src(e.expr.func) in ('rows.append', 'rows.insert', 'rows.extend')]
            okb = okb and len(apps) == 1 and src(apps[0].func) == 'rows.append' and len(apps[0].args) == 1
            if okb:
                v = apps[0].args[0]
                # a row of *- cells: ['*-'] * n
                if isinstance(v, ast.BinOp) and isinstance(v.op, ast.Mult):
                    lst, cnt = (v.left, v.right) if isinstance(v.left, ast.List) else (v.right, v.left)
                    if isinstance(lst, ast.List) and len(lst.elts) == 1 and isinstance(lst.elts[0], ast.Constant) and lst.elts[0].value == '*-':
                        counts.append(cnt)
                        continue
                okb = False
        ctx.check(okb and bool(counts), 'R3', at, es.qualname, 'one-terminator-row', 'exactly one row consisting of *- cells is appended')
        for cnt in counts:
            cnt = _WeightSums(ctx, es).visit(clone(cnt))

            def term(node):
                s_ = src(node)
                if s_ == "rows[-1].count('*^')":
                    return 'splits'
                if s_ == "rows[-1].count('*v')":
                    return 'joins'
                if s_ == 'len(rows[-1])':
                    return 'cells'
                return None
            try:
                a = affine(cnt, None, term)
                ok = a.terms.get('cells') == 1 and a.terms.get('splits') == 1 and a.terms.get('joins', 0) <= 0 and a.const == 0 \
                    and set(a.terms) <= {'cells', 'splits', 'joins'}
                ctx.check(ok, 'R3', at, es.qualname, 'terminator-row-length',
                          f'terminator row length = cells + splits - joins-ish (affine form {a.key()})',
                          f'terminator row length is `{a.key()}`')
                ctx.note('R3', at, es.qualname, 'a trailing join row needs cells + splits - (joins - groups); today joins are '
                                               'subtracted one by one - outside the claimed core (no trailing spine-operator row)')
            except NotAffine as e:
                ctx.violation('R3', at, es.qualname, 'terminator-row-length', f'terminator row length is not affine: {e}')


def r4_one_predicate(ctx):
    es = ctx.prog.func(f'{EXP}.export_string')
    # the statements executed when from_measure is given: the body of `if options.from_measure:` or the else-branch of its negation
    blocks = []
    for n in docstring_free(es.body):
        if isinstance(n, ast.If):
            fm_ = G._formula(n.test)
            if G.atoms_of(fm_) == ['options.from_measure']:
                pos = G.evaluate(fm_, {'options.from_measure': True})
                blocks.append(ast.copy_location(ast.If(test=n.test, body=(n.body if pos else n.orelse), orelse=[]), n))
    blocks = [b_ for b_ in blocks if b_.body]
    ctx.expect_count('R4', 'excerpt preamble block', len(blocks), 1)
    blk = blocks[0]
    sites = [c for s in blk.body for c in ast.walk(s) if isinstance(c, ast.Call) and src(c.func) in ('self.export_token', 'self.append_row')]
    bypass = []
    for c in sites:
        if src(c.func) == 'self.append_row':
            continue
        # enclosing tests inside the preamble
        tests = []
        for n in ast.walk(blk):
            if isinstance(n, ast.If) and c in [x for s in n.body for x in ast.walk(s)]:
                tests.append(src(n.test))
        joined = ' && '.join(tests)
        full = 'options.spine_types' in joined and 'spine_ids' in joined
        if not full:
            bypass.append((c.lineno, 'spine_types only' if 'options.spine_types' in joined else 'no spine test'))
    at = f'{es.module.relpath}:{blk.lineno}'
    ctx.check(not bypass, 'R4', at, es.qualname, 'preamble-bypasses-spine-gate',
              'every cell of the excerpt preamble is selected with the spine predicate of append_row',
              f'the excerpt preamble (header / spine-operator recovery and signature rows) emits cells through export_token at lines '
              f'{[b[0] for b in bypass]} without the spine predicate of append_row ({sorted({b[1] for b in bypass})}): with '
              f'spine_types=[\'**kern\'] an unselected **text spine that carries *M4/4 adds a cell to the signature row only, and with '
              f'spine_ids the header row keeps every column - the excerpt\'s cell counts are inconsistent')
    ctx.count('R4.preamble_emission_sites', len(sites))


def r6_cancel_bookkeeping(ctx):
    """Header / spine-operator recovery prints a split only while it is open: every *v and every *- must mark the split it
    closes (cancelled_at_stage := current stage) whenever there is one - independent of the column or of the neighbours."""
    sop = ctx.prog.func(f'{N.IMPORTER}.Importer._compute_spine_operator_token')
    content_p = sop.params[2]
    eq = lambda v: G._cmp_atom(ast.Name(id=content_p), ast.Eq(), ast.Constant(value=v))[1]
    has_op = 'self._tree.add_node'   # the node expression is long: recognise the atom by its suffix
    n_checked = 0
    import itertools
    for op in ('*v', '*-'):
        bad = set()
        # the function specialised for this operator (cell text := the operator, constant tables folded): an if-chain over the
        # operators and a table of "closing" operators are the same thing
        spc = F._Specialise(ctx, sop, content_p, ast.Constant(value=op))
        body = [ast.fix_missing_locations(spc.visit(clone(s_))) for s_ in docstring_free(sop.body)]
        for sp in symex.sym_paths(body, limit=20000, fi=sop):
            if sp.end == 'raise':
                continue

            def decided(atom):
                try:
                    node_ = ast.parse(atom, mode='eval').body
                except SyntaxError:
                    return None
                ok_, v_ = ctx.ce.try_eval(node_, sop.module, sop.cls, {})
                return ('const', bool(v_)) if ok_ else None
            fm = G.map_atoms(sp.condition(), decided)
            ats = G.atoms_of(fm)
            if len(ats) > 12:
                raise AnalysisError(f'{sop.loc}: too many conditions on a path of the spine-operator cell')
            for bits in itertools.product([False, True], repeat=len(ats)):
                val = dict(zip(ats, bits))
                if not G.evaluate(fm, val):
                    continue
                none_atoms = [a for a in ats if a.endswith('.last_spine_operator_node is None')]
                has = none_atoms and not val[none_atoms[0]]
                marks = [e for e in sp.events if e.kind == 'store' and isinstance(e.target, ast.Attribute) and e.target.attr == 'cancelled_at_stage'
                         and src(e.expr) == 'self._tree_stage']
                n_checked += 1
                if none_atoms:
                    if bool(marks) != bool(has):
                        bad.add(('marks' if marks else 'does not mark') + ' with ' + ', '.join(f'{a[-40:]}={val[a]}' for a in ats if a not in none_atoms and not a.startswith("'")))
                else:
                    from . import c02 as _c02
                    closed_ = _c02._closed_atoms(ctx, sop, ats)
                    if closed_:
                        raise AnalysisError(f'{sop.loc}: for {op!r} the path depends on `{closed_[0][:70]}`, fixed by the operator but not computed '
                                            f'by the evaluator: not decided')
                    bad.add('no test of last_spine_operator_node on this path')
        ctx.check(not bad, 'R6', sop.loc, sop.qualname, f'cancel-bookkeeping:{op}',
                  f'{op}: the split it closes is marked cancelled at this stage whenever there is one, on every path',
                  f'{op}: marking the closed split depends on more than its existence: {sorted(bad)[:2]} - a split that stays unmarked '
                  f'is printed again by the header recovery of every later excerpt (a stray `*^ *` row)')
    ctx.expect_count('R6', 'spine-operator valuations', n_checked, 4)
    # the mark lives on the token: every spine-operator node must own a token object made for its cell
    add = ctx.prog.func(f'{N.DOCUMENT}.MultistageTree.add_node')
    shared_tok = []
    n_nodes = 0
    sps = symex.func_sym_paths(sop)
    for sp in sps:
        for e in sp.events:
            c = e.expr if isinstance(e.expr, ast.Call) else None
            if c is None or not (isinstance(c.func, ast.Attribute) and c.func.attr == 'add_node'):
                continue
            n_nodes += 1
            tok = F.bind_args(c, add, True).get('token')
            made = isinstance(tok, ast.Call) and F.constructed_class(ctx, tok, sop) is not None \
                and F.constructed_class(ctx, tok, sop).name == 'SpineOperationToken'
            if not made:
                shared_tok.append(src(tok)[:60] if tok is not None else None)
    ctx.check(not shared_tok and n_nodes > 0, 'R6', sop.loc, sop.qualname, 'operator-token-per-node',
              'every spine-operator node receives a SpineOperationToken constructed for that cell',
              f'a spine-operator node receives `{shared_tok[0] if shared_tok else None}`, not a token made for it: the cancellation mark '
              f'(cancelled_at_stage) is then shared by all the nodes that hold the same object')
    tok = ctx.prog.func(f'{N.TOKENS}.SpineOperationToken.is_cancelled_at')
    rets = symex.returns(tok)
    # the answer as one formula over all return paths, compared with `closed and closed-stage < stage` as a truth table
    fm = ('const', False)
    for c_, v_, sp_ in rets:
        fm = G.disj([fm, G.conj([c_, G._formula(v_)])])
    a_none = 'self.cancelled_at_stage is None'
    a_lt = G._cmp_atom(ast.parse('self.cancelled_at_stage', mode='eval').body, ast.Lt(), ast.Name(id=tok.params[1], ctx=ast.Load()))[1]
    eqc, _cex, unknown_c = G.compare(fm, lambda v: (not v['none']) and v['lt'], {a_none: 'none', a_lt: 'lt'})
    okc = bool(rets) and eqc and not unknown_c
    ctx.check(okc, 'R6', tok.loc, tok.qualname, 'is-cancelled-at', 'a split is cancelled at a stage iff it was closed strictly before it')


def r7_signature_search(ctx):
    """is_signature_cancelled(signature, node, from, to): decision structure confirmed on the reference tree - a token of the same
    class restates the signature (True); the first note ends the search (False); otherwise every child is searched one stage
    further while from < to."""
    f = ctx.prog.func(f'{EXP}.is_signature_cancelled')
    sig, nd, fr, to = f.params[1:5]
    # the search is bounded by the LAST stage the excerpt exports: the bound handed over by export_string is the last stage its
    # stage loop visits (range(from_stage, to_stage + k) visits up to to_stage + k - 1), whatever convention to_stage follows
    from ..affine import affine, NotAffine
    es_ = ctx.prog.func(f'{EXP}.export_string')
    _lp, shift = c07._loop_shift(es_)
    if shift is not None:
        for c_ in walk_local(es_.node):
            if isinstance(c_, ast.Call) and isinstance(c_.func, ast.Attribute) and c_.func.attr == 'is_signature_cancelled':
                b_ = F.bind_args(c_, f, True)
                arg = b_.get(to)
                try:
                    d_ = affine(arg) - affine(ast.parse('to_stage', mode='eval').body) if arg is not None else None
                except NotAffine:
                    d_ = None
                if d_ is None or not d_.is_const():
                    continue
                ctx.check(d_.const == shift, 'R7', f'{es_.module.relpath}:{c_.lineno}', es_.qualname, 'search-bound-is-last-exported-stage',
                          'the signature search is bounded by the last stage the excerpt exports',
                          f'the signature search is bounded by `{src(arg)}` while the stage loop ends at to_stage{shift:+d}: the search looks '
                          f'{d_.const - shift:+d} stage(s) past the excerpt, so a signature restated right after it cancels the one in force')
    same = G._cmp_atom(ast.parse(f'{nd}.token.__class__', mode='eval').body, ast.Eq(), ast.parse(f'{sig}.token.__class__', mode='eval').body)[1]
    note = f'isinstance({nd}.token, NoteRestToken)'
    more = f'{fr} < {to}'
    facts = {}
    unknown = set()
    for sp in symex.func_sym_paths(f):
        fm = sp.condition()
        for a in G.atoms_of(fm):
            if a not in (same, note, more) and 'is_signature_cancelled' not in a:
                unknown.add(a)
    ctx.check(not unknown, 'R7', f.loc, f.qualname, 'signature-search-extra-condition',
              'the search depends only on: same token class, first note, stages left',
              f'the signature search also branches on {sorted(unknown)[:2]}: it no longer stops exactly at the first note of the excerpt, so a '
              f'signature that changes after some notes of the first measure drops the signature that governs those notes')
    sps = symex.func_sym_paths(f)
    import itertools

    def outcome(val):
        res = set()
        for sp in sps:
            fm = sp.condition()
            ats = G.atoms_of(fm)
            free = [a for a in ats if a not in val]
            for bits in itertools.product([False, True], repeat=len(free)):
                v2 = dict(val)
                v2.update(dict(zip(free, bits)))
                if G.evaluate(fm, {a: v2[a] for a in ats}):
                    if sp.end == 'return':
                        res.add(src(sp.value))
                    elif sp.end == 'fall':
                        res.add('None')
        return res
    o_same = outcome({same: True, note: False, more: True}) | outcome({same: True, note: True, more: False})
    o_note = outcome({same: False, note: True, more: True}) | outcome({same: False, note: True, more: False})
    o_end = outcome({same: False, note: False, more: False})
    ctx.check(o_same == {'True'}, 'R7', f.loc, f.qualname, 'same-class-restates', 'a token of the same class as the signature restates it: True',
              f'same class -> {sorted(o_same)}')
    ctx.check(o_note == {'False'}, 'R7', f.loc, f.qualname, 'first-note-ends-search', 'the first note ends the search: False',
              f'a note -> {sorted(o_note)}: the search runs past the first note')
    ctx.check(o_end <= {'False', 'None'}, 'R7', f.loc, f.qualname, 'no-stage-left', 'no stage left: not cancelled', f'no stage left -> {sorted(o_end)}')
    # no note, another class, stages left: True iff some child, searched one stage further, restates the signature
    want = f'any(self.is_signature_cancelled({sig}, _v0, {fr} + 1, {to}) for _v0 in {nd}.children)'
    okl = False
    seen = []
    for sp in sps:
        fm = sp.condition()
        ats = G.atoms_of(fm)
        if not all(a in (same, note, more) for a in ats):
            continue
        if not G.evaluate(fm, {a: {same: False, note: False, more: True}[a] for a in ats}):
            continue
        if sp.end != 'return' or sp.value is None:
            seen.append(sp.end)
            continue
        vf = G._formula(sp.value)
        seen.append(G.show(vf))
        okl = vf == ('atom', want)
    ctx.check(okl and len(seen) == 1, 'R7', f.loc, f.qualname, 'children-searched', 'every child is searched one stage further; the first hit returns True',
              f'the recursion does not search every child with (from + 1, to): {seen[:2]}')


# --------------------------------------------------------------------------- R10: the preamble is made of the spines alive at from_stage
_DEAD_MARKS = ('header_stage', 'get_header_stage', 'get_header_nodes', 'stages[0]')


def r10_preamble_provenance(ctx):
    """Every node whose token is printed ahead of the excerpt body (recovered header row, recovered spine operators, signature rows)
    is reached from the nodes of from_stage - the node itself, an ancestor (.parent chain), or an entry of its signature context.
    A row built from the header stage of the document lists spines that may have ended before the excerpt: its cell count
    then differs from every other row of the excerpt."""
    es = ctx.prog.func(f'{EXP}.export_string')
    parent = {}
    for n in ast.walk(es.node):
        for c in ast.iter_child_nodes(n):
            parent[c] = n

    def binder_iter(name_node):
        """iterable expression of the loop / comprehension that binds the name at this use"""
        cur = name_node
        while cur in parent:
            cur = parent[cur]
            if isinstance(cur, ast.For) and isinstance(cur.target, ast.Name) and cur.target.id == name_node.id:
                return cur.iter
            if isinstance(cur, (ast.ListComp, ast.GeneratorExp, ast.SetComp)):
                for g in cur.generators:
                    if isinstance(g.target, ast.Name) and g.target.id == name_node.id:
                        return g.iter
        return None

    def values_of(name):
        vals, elems = [], []
        for n in walk_local(es.node):
            if isinstance(n, ast.Assign) and any(isinstance(t, ast.Name) and t.id == name for t in n.targets):
                vals.append(n.value)
            if isinstance(n, ast.Call) and isinstance(n.func, ast.Attribute) and isinstance(n.func.value, ast.Name) \
                    and n.func.value.id == name and n.func.attr in ('append', 'insert') and n.args:
                elems.append(n.args[-1])
        return vals, elems

    def alive_elem(e, seen):
        """an element expression: a node of an alive collection or its parent"""
        while isinstance(e, ast.Attribute) and e.attr == 'parent':
            e = e.value
        if isinstance(e, ast.Name):
            it = binder_iter(e)
            return alive(it, seen) if it is not None else None
        return None

    def stage_index_ok(ix):
        if isinstance(ix, ast.Name):
            vals, _ = values_of(ix.id)
            if vals and all('measure_start_tree_stages[' in src(v) and 'from_measure' in src(v) for v in vals if src(v) != '0'):
                return True
        return False

    def alive(e, seen):
        """True: reached from the nodes of from_stage; False: positively something else; None: not followed"""
        t = src(e)
        if any(m in t for m in _DEAD_MARKS):
            return False
        if isinstance(e, ast.Subscript) and src(e.value) == 'document.tree.stages':
            return True if stage_index_ok(e.slice) else None
        if isinstance(e, ast.Name):
            if e.id in seen:
                return True       # coinductive: the collection is rebuilt from itself (the walk up the ancestors)
            seen = seen | {e.id}
            vals, elems = values_of(e.id)
            res = []
            for v in vals:
                if isinstance(v, ast.List) and not v.elts:
                    continue
                if isinstance(v, (ast.ListComp, ast.GeneratorExp)) and len(v.generators) == 1:
                    res.append(alive_elem(v.elt, seen))
                else:
                    res.append(alive(v, seen))
            res += [alive_elem(x, seen) for x in elems]
            if not res or any(r is None for r in res):
                return False if any(r is False for r in res) else None
            return all(res)
        if isinstance(e, ast.Call) and isinstance(e.func, ast.Attribute) and e.func.attr == 'values' \
                and src(e.func.value).endswith('.last_signature_nodes.nodes'):
            base = e.func.value.value.value
            return alive_elem(base, seen)
        if isinstance(e, ast.Call) and isinstance(e.func, ast.Name) and e.func.id in ('list', 'reversed', 'tuple', 'iter') and len(e.args) == 1:
            return alive(e.args[0], seen)
        return None

    calls = [n for n in walk_local(es.node) if isinstance(n, ast.Call) and src(n.func) == 'self.export_token' and n.args]
    n_ok = 0
    for c in calls:
        a = c.args[0]
        if not isinstance(a, ast.Name):
            raise AnalysisError(f'{es.module.relpath}:{c.lineno}: the node handed to export_token in the excerpt preamble is not followed')
        it = binder_iter(a)
        r = alive(it, frozenset()) if it is not None else None
        if r is None:
            raise AnalysisError(f'{es.module.relpath}:{c.lineno}: where `{a.id}` of export_token({a.id}, ...) comes from is not followed '
                                f'(`{src(it)[:80] if it is not None else "?"}`)')
        n_ok += 1
        ctx.check(r, 'R10', f'{es.module.relpath}:{c.lineno}', es.qualname, 'preamble-cell-not-from-living-spines',
                  f'export_token({a.id}, ...) in the preamble prints a node reached from the nodes of from_stage (itself, an ancestor, or its signature context)',
                  f'export_token({a.id}, ...) prints nodes taken from `{src(it)[:100]}`, not from the ancestors of the nodes of from_stage: a spine '
                  f'that ended before the excerpt still gets a cell in that row, so the row has more cells than every other row of the excerpt')
    ctx.expect_count('R10', 'export_token calls in the excerpt preamble', n_ok, 3)


# --------------------------------------------------------------------------- R11: "the last spine operator above a node"
def r11_last_operator(ctx):
    """Importer.get_last_spine_operator(parent): the parent itself when it is a spine operator, otherwise what the parent recorded
    (None for no parent).  The cancel book-keeping (a join or a terminator marks THE operator above it as closed at this stage) and
    the header recovery of every excerpt read that chain; an operator skipped or replaced in it gets the wrong cancel stage."""
    f = ctx.prog.func(f'{N.IMPORTER}.Importer.get_last_spine_operator')
    p = f.params[0] if f.params and f.params[0] not in ('self', 'cls') else (f.params[1] if len(f.params) > 1 else None)
    if p is None:
        raise AnalysisError(f'{f.loc}: signature of get_last_spine_operator changed')
    rets = symex.returns(f)
    if not rets:
        raise AnalysisError(f'{f.loc}: get_last_spine_operator has no return path')
    is_op = None
    bad = []
    for cond, val, sp in rets:
        ats = G.atoms_of(cond)
        op_atoms = [a for a in ats if a.startswith('isinstance(') and 'SpineOperationToken' in a and f'{p}.token' in a]
        none_atoms = [a for a in ats if a.replace(' ', '') in (f'{p}isNone', f'{p}==None')]
        v = src(val) if val is not None else 'None'
        if none_atoms and F.forced(cond, none_atoms[0], True):
            if v != 'None':
                bad.append(f'no parent -> `{v}`')
            continue
        if op_atoms and F.forced(cond, op_atoms[0], True):
            if v != p:
                bad.append(f'parent is a spine operator -> `{v}` (under `{G.show(cond)[:80]}`)')
            continue
        if op_atoms and F.forced(cond, op_atoms[0], False):
            if v != f'{p}.last_spine_operator_node':
                bad.append(f'parent is not a spine operator -> `{v}`')
            continue
        raise AnalysisError(f'{f.loc}: a return path of get_last_spine_operator (`{G.show(cond)[:80]}`) does not decide whether the parent is a spine operator: not followed')
    ctx.check(not bad, 'R11', f.loc, f.qualname, 'last-operator-chain',
              'get_last_spine_operator: None -> None, a spine operator -> itself, any other node -> what it recorded',
              f'get_last_spine_operator: {"; ".join(bad[:2])}: the operator directly above is skipped, so the join / terminator below marks '
              f'another operator as closed and an excerpt that starts later recovers a split that was already re-joined')
