"""C14 - The read-only API is pure and history-independent (interprocedural effect analysis)."""
from __future__ import annotations

import ast

from ..errors import AnalysisError
from ..model import src, walk_local
from ..effects import Effects
from .. import names as N
from .. import facts as F
from .. import symex

ENTRY_POINTS = [
    (f'{N.PUBLIC}.dumps', False), (f'{N.PUBLIC}.dump', True), (f'{N.PUBLIC}.spine_types', False),
    (f'{N.PUBLIC}.is_monophonic', False), (f'{N.PUBLIC}.graph', True),
    (f'{N.GENERIC}.Generic.export', False), (f'{N.GENERIC}.Generic.store', True),
    (f'{N.GENERIC}.Generic.get_spine_types', False), (f'{N.GENERIC}.Generic.store_graph', True),
    (f'{N.GENERIC}.Generic.parse_options_to_ExportOptions', False),
    (f'{N.GENERIC}.export', False), (f'{N.GENERIC}.store', True), (f'{N.GENERIC}.get_spine_types', False),
    (f'{N.GENERIC}.store_graph', True),
    (f'{N.EXPORTER}.Exporter.export_string', False), (f'{N.EXPORTER}.Exporter.get_spine_types', False),
    (f'{N.EXPORTER}.Exporter.export_token', False), (f'{N.EXPORTER}.Exporter.append_row', 'row'),
] + [(f'{N.DOCUMENT}.Document.{m}', False) for m in (
    'get_all_tokens', 'get_all_tokens_encodings', 'get_unique_tokens', 'get_unique_token_encodings', 'frequencies',
    'get_metacomments', 'get_header_nodes', 'get_spine_ids', 'get_spine_count', 'get_first_measure', 'measures_count',
    '__iter__', '__next__', 'get_leaves', 'get_header_stage', 'get_voices', 'tokens_to_encodings', 'match')] + [
    # the category algebra works on a class-level literal and on caller-supplied sets: shared defaults must never be modified
    (f'{N.MAPPER}.{m}', False) for m in ('is_child', 'children', 'nodes', 'leaves', 'valid', 'match', 'all', 'tree')] + [
    (f'{N.TOKCAT}.{m}', False) for m in ('is_child', 'children', 'nodes', 'leaves', 'valid', 'match', 'all', 'tree')] + [
    (f'{N.EXPORTER}.get_kern_from_ekern', False), (f'{N.EXPORTER}.HeaderTokenGenerator.new', False),
    (f'{N.TOKENIZERS}.TokenizerFactory.create', False), (f'{N.GKERN}.pitch_to_gkern_string', False),
    (f'{N.GKERN}.gkern_to_g_clef_pitch', False), (f'{N.TRANSPOSER}.transpose', False), (f'{N.TRANSPOSER}.distance', False),
]


def describe_root(f, root):
    if root[0] == 'p':
        names = f.all_params
        return f'argument `{names[root[1]] if root[1] < len(names) else root[1]}`'
    if root[0] == 'g':
        return f'module-level object {root[1]}'
    return f'class {root[1]}'


def run(ctx):
    ctx.explanation = (
        'Interprocedural effect analysis over the typed call graph of every read-only entry point (public dumps/dump/'
        'spine_types/is_monophonic/graph, the Generic and deprecated wrappers, Exporter.export_string/get_spine_types and the '
        'Document queries): a write (attribute/element store, augmented assignment, del, setattr, mutating container method) '
        'through a value that may alias an object reachable from an argument (the document, self, a caller-supplied option '
        'list), from a module-level mutable (HEADERS, BEKERN_CATEGORIES, the hierarchy, the pitch tables) or from a class '
        'attribute (Node.NextID, caches) is an effect; fresh objects are tracked with their nesting depth so that filling a new '
        'list is not an effect. R1: no entry point has any such effect (so nothing is left behind, also when the call raises); '
        'file/console output is allowed only for dump/graph. Lemmas checked on every run: every dunder method, property getter, '
        'lambda and nested function of kernpy is effect-free on its arguments (they are called implicitly or through callable '
        'values). R2: per-call freshness of Exporter / ExportOptions / Tokenizer / traversal objects. Decides the mutation '
        'clause for every document, option set and call history at once.')
    ctx.not_decided = ['"two imports are indistinguishable" where the output itself prints identities (graph prints Node.id and id(node))']
    eng = Effects(ctx.prog)
    entries = []
    for qn, io_ok in ENTRY_POINTS:
        entries.append((ctx.prog.func(qn), io_ok))
    lemma_funcs = lemmas_collect(ctx)
    eng.analyse([f for f, _ in entries] + lemma_funcs)
    # a callable value can only be called on a read-only path if it is created on one: lambdas / nested functions of functions
    # that no read-only entry point reaches (the import path, the command line) are not held to the lemma
    reach_pre = set()
    for f_, _ in entries:
        reach_pre |= {id(g.node) for g in eng.reachable(f_)}

    def on_read_only_path(g):
        o = g.outer
        while o is not None:
            if id(o.node) in reach_pre:
                return True
            o = o.outer
        return False
    r0_lemmas(ctx, eng, [g for g in lemma_funcs if g.kind != 'callable-value' or on_read_only_path(g)])
    # re-run with the lemma verdict (callable values pure or not)
    reach_total = set()
    for f, io_ok in entries:
        s = eng.summary(f)
        reach = eng.reachable(f)
        reach_total |= {id(g.node) for g in reach}
        if s.unresolved:
            k, v = sorted(s.unresolved.items())[0]
            raise AnalysisError(f'{f.qualname}: call `{v}` at {k} on the analysed path is not resolved and not modelled')
        if s.ext:
            k, v = sorted(s.ext.items())[0]
            raise AnalysisError(f'{f.qualname}: external call `{v}` at {k} on a read-only path is not modelled')
        bad = []
        for e in s.effects.values():
            if io_ok == 'row' and e.root[0] == 'p' and f.all_params[e.root[1]] == 'row' and e.depth == 0:
                continue   # append_row fills the list its caller just created (checked fresh at the call site)
            bad.append(e)
        if bad:
            seen = set()
            for e in bad:
                key = (e.loc, e.root)
                if key in seen:
                    continue
                seen.add(key)
                ctx.violation('R1', e.loc, f.qualname, f'write:{e.func.rpartition(".")[2]}:{_norm(e.what)}:{e.root[0]}',
                              f'{e.func} {e.what} - a write to {describe_root(f, e.root)} reachable from the read-only '
                              f'entry point (call chain {" -> ".join(c.rpartition(".")[2] for c in e.chain)})')
        else:
            ctx.holds('R1', f.loc, f.qualname, f'no write to any argument, module-level mutable or class attribute in '
                                               f'{len(reach)} reachable functions')
        if s.io and io_ok is not True:
            k, v = sorted(s.io.items())[0]
            ctx.violation('R1', k, f.qualname, f'io:{v.split()[0]}', f'file/console output ({v}) on a path that must only compute a value')
        elif io_ok is True:
            ctx.holds('R1', f.loc, f.qualname, f'file output only ({len(s.io)} I/O sites), no other effect')
    ctx.expect_count('R1', 'functions reachable from the read-only entry points', len(reach_total), 80)
    ctx.analysed['functions_reachable'] = len(reach_total)
    ctx.analysed['call_sites'] = eng.stats['calls']
    ctx.analysed['resolved'] = dict(eng.stats)
    r2_freshness(ctx)
    from . import shared
    shared.no_one_shot_state(ctx, 'R2')
    r3_set_order(ctx, eng, [f for f, _ in entries])
    shared.no_shared_mutable_defaults(ctx, 'R4')
    # "two imports of the same text are indistinguishable": every token is built by the call that imports its cell (no flyweight
    # shared between documents) - C12.R2 as R5
    from . import c12
    ctx.alias = {'R2': 'R5'}
    c12.r2_fresh_listener(ctx, ctx.prog.func(f'{N.KERN_IMP}.KernSpineImporter.import_token'))
    ctx.alias = {}


def r3_set_order(ctx, eng, entries):
    """The iteration order of a set is not a function of the text that was imported (hashes of objects depend on identities and
    counters, hashes of strings on the process): on a read-only path no local set built by the function may be iterated to
    produce a sequence, unless through sorted().  Membership tests, len(), set algebra and any()/all() do not depend on order."""
    seen = set()
    n = 0
    for f0 in entries:
        for g in eng.reachable(f0):
            if id(g.node) in seen or g.module.generated:
                continue
            seen.add(id(g.node))
            sets = set()
            for node in walk_local(g.node):
                if isinstance(node, ast.Assign) and len(node.targets) == 1 and isinstance(node.targets[0], ast.Name):
                    v = node.value
                    if isinstance(v, (ast.Set, ast.SetComp)) or (isinstance(v, ast.Call) and isinstance(v.func, ast.Name) and v.func.id in ('set', 'frozenset')
                                                                 and ctx.prog.resolve(g.module, v.func.id) is None):
                        if not (isinstance(v, ast.Set) and all(isinstance(e, ast.Constant) for e in v.elts)):
                            sets.add(node.targets[0].id)
            if not sets:
                continue
            stores = {}
            for node in walk_local(g.node):
                if isinstance(node, ast.Name) and isinstance(node.ctx, ast.Store):
                    stores[node.id] = stores.get(node.id, 0) + 1
            sets = {x for x in sets if stores.get(x) == 1}
            for node in walk_local(g.node):
                its = []
                if isinstance(node, ast.For):
                    its.append(node.iter)
                elif isinstance(node, (ast.ListComp, ast.GeneratorExp, ast.DictComp)):
                    its.extend(gen.iter for gen in node.generators)
                elif isinstance(node, ast.Call) and isinstance(node.func, ast.Name) and node.func.id in ('list', 'tuple', 'enumerate') and node.args:
                    its.append(node.args[0])
                for it in its:
                    if isinstance(it, ast.Name) and it.id in sets:
                        n += 1
                        # consumers for which the order does not matter
                        par_ok = False
                        for p_ in walk_local(g.node):
                            if isinstance(p_, ast.Call) and isinstance(p_.func, ast.Name) and p_.func.id in ('any', 'all', 'sum', 'len', 'min', 'max', 'set', 'frozenset', 'sorted') \
                                    and p_.args and p_.args[0] is node:
                                par_ok = True
                        if isinstance(node, ast.For) or not par_ok:
                            ctx.violation('R3', f'{g.module.relpath}:{node.lineno}', g.qualname, f'set-iteration-order:{it.id}',
                                          f'`{src(node)[:80]}` iterates the set `{it.id}` on a read-only path: the order of a set depends on '
                                          f'object identities / hash seeds, not on the imported text - two imports of the same text can '
                                          f'give different results')
    ctx.count('R3.set_iterations_checked', n)


def _norm(what):
    import re
    return re.sub(r'\s+', ' ', what)[:70]


# --------------------------------------------------------------------------- lemmas
DUNDERS = {'__str__', '__repr__', '__eq__', '__ne__', '__hash__', '__lt__', '__le__', '__gt__', '__ge__', '__iter__',
           '__next__', '__len__', '__contains__', '__bool__', '__getitem__', '__format__'}


def lemmas_collect(ctx):
    from ..model import FuncInfo
    out = []
    for f in list(ctx.prog.all_functions()):
        if f.cls is not None and (f.name in DUNDERS or f.kind == 'property'):
            out.append(f)
        for n in walk_local(f.node):
            if isinstance(n, (ast.FunctionDef, ast.Lambda)) and n is not f.node:
                g = FuncInfo(f.module, n, None, outer=f)
                g.kind = 'callable-value'
                out.append(g)
    return out


def r0_lemmas(ctx, eng, lemma_funcs):
    n = 0
    for f in lemma_funcs:
        s = eng.summary(f)
        n += 1
        bad = [e for e in s.effects.values()]
        kind = 'property getter' if f.kind == 'property' else 'dunder method'
        if f.kind == 'callable-value':
            kind = 'lambda / nested function'
            bad = [e for e in bad if e.root[0] == 'p']
        if bad:
            e = bad[0]
            ctx.violation('R0', e.loc, f.qualname, f'implicit-call-effect:{f.name}',
                          f'{kind} {f.qualname} {e.what}: it is called implicitly (str/==/hash/sorted/attribute read) '
                          f'on read-only paths, so it must be effect-free')
    ctx.holds('R0', 'kernpy/core/tokens.py:1', 'kernpy (all classes)',
              f'lemma: all {n} dunder methods, property getters, lambdas and nested functions of kernpy are effect-free on their arguments')
    ctx.expect_count('R0', 'dunder methods / property getters', n, 40)


# --------------------------------------------------------------------------- R2
def r2_freshness(ctx):
    ge = ctx.prog.func(f'{N.GENERIC}.Generic.export')
    rets = symex.returns(ge)
    doc, opt = ge.params[1:3]
    ok = len(rets) == 1 and F.same(ctx, ge, rets[0][1], f'Exporter().export_string({doc}, {opt})')
    ctx.check(ok, 'R2', ge.loc, ge.qualname, 'fresh-exporter',
              'Generic.export builds a fresh Exporter per call and forwards (document, options) unswapped',
              f'Generic.export returns `{src(rets[0][1]) if rets else None}`')
    po = ctx.prog.func(f'{N.GENERIC}.Generic.parse_options_to_ExportOptions')
    fresh = False
    for sp in symex.func_sym_paths(po):
        if sp.end == 'return':
            # the returned object must originate from ExportOptions.default() / ExportOptions(...)
            for e in sp.events:
                if e.kind == 'assign' and isinstance(e.expr, ast.Call) and src(e.expr.func) in ('ExportOptions.default', 'ExportOptions'):
                    if isinstance(sp.path.end_node.value, ast.Name) and sp.path.end_node.value.id in e.target:
                        fresh = True
    ctx.check(fresh, 'R2', po.loc, po.qualname, 'fresh-options',
              'parse_options_to_ExportOptions returns an ExportOptions object created in the call')
    # defaults that are module-level sets are copied
    eo = ctx.prog.func(f'{N.EXPORTER}.ExportOptions.__init__')
    stp = 'spine_types'
    rows = F.store_table(eo).get('self.spine_types', [])
    bad = [src(v) for c, v, _ in rows if src(v) != stp and 'HEADERS' in src(v)
           and not any(k in src(v) for k in ('deepcopy(HEADERS)', 'set(HEADERS)', 'list(HEADERS)', 'HEADERS.copy()', 'copy(HEADERS)', 'frozenset(HEADERS)'))]
    dflt_rows = [src(v) for c, v, _ in rows if src(v) != stp]
    ctx.check(rows and dflt_rows and not bad, 'R2', eo.loc, eo.qualname, 'headers-default-copied',
              'the default spine_types is a copy of the module-level HEADERS set',
              f'default spine_types is `{(bad or dflt_rows or [None])[0]}`: the shared HEADERS set itself would be handed out')
    dflt = ctx.prog.func(f'{N.EXPORTER}.ExportOptions.default')
    for n in walk_local(dflt.node):
        if isinstance(n, ast.keyword) and n.arg == 'spine_types':
            s = src(n.value)
            ctx.check(s != 'HEADERS', 'R2', f'{dflt.module.relpath}:{n.value.lineno}', dflt.qualname,
                      'headers-default-copied', 'ExportOptions.default copies HEADERS')
    et = ctx.prog.func(f'{N.EXPORTER}.Exporter.export_token')
    calls = [n for n in walk_local(et.node) if isinstance(n, ast.Call) and src(n.func) in ('TokenizerFactory.create', 'TokenizerFactory\n.create')]
    calls = [n for n in walk_local(et.node) if isinstance(n, ast.Call) and isinstance(n.func, ast.Attribute)
             and n.func.attr == 'create' and src(n.func.value) == 'TokenizerFactory']
    ctx.check(len(calls) >= 1, 'R2', et.loc, et.qualname, 'fresh-tokenizer', 'export_token creates its tokenizer per call')
    # no class-level / module-level object of these kinds
    for m in ctx.prog.app_modules():
        for nm, bs in m.scope.items():
            b = bs[-1]
            if b.kind == 'assign' and isinstance(b.value, ast.Call):
                c = ctx.prog.resolve_expr(m, b.value.func, None)
                if c and c[0] == 'class' and c[1].name in ('Exporter', 'ExportOptions', 'Importer') or \
                        (c and c[0] == 'class' and c[1].name.endswith('Tokenizer')):
                    ctx.violation('R2', f'{m.relpath}:{b.node.lineno}', f'{m.name}.{nm}', f'shared-instance:{c[1].name}',
                                  f'module-level shared {c[1].name} instance `{nm}`')
