"""C03 - Export conserves the score content cell for cell (necessary structural clauses)."""
from __future__ import annotations

import ast
import re

from ..errors import AnalysisError
from ..model import src, walk_local, docstring_free
from .. import names as N
from .. import facts as F
from .. import guards as G
from .. import symex
from .. import grammar as GR
from . import shared, c01, c04
from .exporter_facts import EXP

LST = f'{N.LISTENER}.BaseANTLRSpineParserListener'
GEN_LISTENER = 'kernpy.core.generated.kernSpineParserListener.kernSpineParserListener'
ALLOWED_DROPS = {'chordSpace': 'the chord separator carries no content', 'number': 'the measure number (the property allows it)'}


def run(ctx):
    ctx.explanation = (
        'Static rules for C03 (necessary conditions of conservation, not the behaviour): (R1) listener exhaustiveness against the '
        'grammar - for every alternative of rule `field` every derivation passes through a rule whose exit handler assigns the token '
        '(least fixpoint over the rule table), and every hand-written enter/exit handler overrides a method of the generated listener; '
        '(R2) component coverage - for note, rest, duration and chord every sub-rule the grammar allows as a child is captured into a '
        'sub-token (read in the rule\'s handler, or produced by its own handler and consumed by the parent\'s); (R3) verbatim encodings - '
        'every handler that builds a non-note token passes ctx.getText(), the importer hands the raw cell to the comment/header/spine-'
        'operator tokens, the SimpleToken family exports its stored text; (R4) no-drop joins - NoteRestToken.export joins all elements '
        'of the filtered lists (no slice, index or early exit between filter and join), the agnostic branch emits every DURATION sub-'
        'token plus the converted pitch, Chord/CompoundToken cover all sub-tokens; (R5) grid assembly joins cells with TAB and rows '
        'with newline in list order; (R6) whole-cell consumption; (R7) dotted durations keep the grammar order (shared with C01.R3).')
    ctx.not_decided = ['cell-for-cell equality of export and source on all documents (the generated parser is not analysed)']
    g = GR.load(ctx)
    handlers = r1_exhaustive(ctx, g)
    r2_components(ctx, g, handlers)
    r3_verbatim(ctx, handlers)
    r4_joins(ctx)
    r5_grid(ctx)
    shared.whole_cell_consumption(ctx, 'R6')
    c01.r3_export_order(ctx, g, None, 'R7')
    # cells are taken literally by the line reader, and every token is built by a listener created for that token alone
    ctx.alias = {'R1': 'R3', 'R2': 'R3'}
    from . import c02, c12
    c02.r1_reader(ctx)
    c12.r2_fresh_listener(ctx, ctx.prog.func(f'{N.KERN_IMP}.KernSpineImporter.import_token'))
    ctx.alias = {}
    from .. import regen
    regen.check(ctx, 'R8')


def listener_handlers(ctx):
    """{rule name: {'enter': FuncInfo, 'exit': FuncInfo}} for the hand-written listener (base class and subclasses)."""
    base = ctx.prog.cls(LST)
    out = {}
    for c in [base] + ctx.prog.subclasses(base, strict=True):
        for f in c.methods.values():
            m = re.match(r'^(enter|exit)([A-Z]\w*)$', f.name)
            if m:
                rule = m.group(2)[0].lower() + m.group(2)[1:]
                out.setdefault(rule, {})[m.group(1)] = f
    return out


def _assigns_token(ctx, f, depth=0):
    for n in walk_local(f.node):
        if isinstance(n, ast.Assign) and any(src(t) == 'self.token' for t in n.targets) and not (
                isinstance(n.value, ast.Constant) and n.value.value is None):
            return True
        if depth < 2 and isinstance(n, ast.Call) and isinstance(n.func, ast.Attribute) and F.is_name(n.func.value, 'self') and f.cls:
            m = ctx.prog.find_method(f.cls, n.func.attr)
            if m is not None and m is not f and _assigns_token(ctx, m, depth + 1):
                return True
    return False


def r1_exhaustive(ctx, g):
    handlers = listener_handlers(ctx)
    gen = ctx.prog.cls(GEN_LISTENER)
    gen_rules = {m[5:][0].lower() + m[5:][1:] for m in gen.methods if m.startswith('enter')}
    ctx.check(gen_rules == set(g.rules), 'R1', gen.loc, gen.qualname, 'generated-listener-vs-grammar',
              f'the generated listener has one enter/exit pair per grammar rule ({len(g.rules)} rules)',
              f'grammar and generated listener disagree on {sorted(gen_rules ^ set(g.rules))[:5]}')
    for rule, hs in sorted(handlers.items()):
        for kind, f in hs.items():
            ctx.check(f.name in gen.methods, 'R1', f.loc, f.qualname, f'handler-never-called:{f.name}',
                      f'{f.name} overrides a method of the generated listener',
                      f'{f.name} overrides nothing in the generated listener: the walker never calls it')
    ctx.expect_count('R1', 'listener handlers', sum(len(h) for h in handlers.values()), 20)
    assigning = {r for r, hs in handlers.items() if r in g.rules and any(_assigns_token(ctx, f) for f in hs.values())}
    guaranteed = g.guaranteed(assigning)
    alts = g.rules['field']
    for alt in alts:
        names = [e.name for e in alt if e.kind == 'rule']
        ok = any(n in guaranteed for n in names)
        ctx.check(ok, 'R1', 'kern/kernSpineParser.g4:14', f'grammar.field -> {" ".join(names)}', f'field-alternative-without-token:{"_".join(names)}',
                  f'every derivation of field -> {" ".join(names)} passes through a handler that assigns the token',
                  f'some derivation of field -> {" ".join(names)} assigns no token: the cell would import as None')
    # which rules lack a guarantee below each alternative (diagnosis)
    ctx.analysed['R1.assigning_rules'] = sorted(assigning)
    # shadowed handlers: an ancestor's handler always overwrites the token (informational)
    shadow = []
    for r in sorted(assigning):
        for anc in sorted(assigning):
            if anc != r and r in g.reachable(anc) and anc in g.rules:
                shadow.append(f'{r} (overwritten by {anc})')
    for s_ in shadow[:6]:
        ctx.note('R1', 'kern/kernSpineParser.g4:1', LST, f'shadowed handler: {s_}')
    return handlers


def _handler_reads(f):
    """ctx.<rule>() calls and self.<field> reads/writes of a handler."""
    ctxcalls, reads, writes = set(), set(), set()
    for n in walk_local(f.node):
        if isinstance(n, ast.Call) and isinstance(n.func, ast.Attribute) and F.is_name(n.func.value, 'ctx'):
            ctxcalls.add(n.func.attr)
        if isinstance(n, ast.Call) and isinstance(n.func, ast.Attribute) and isinstance(n.func.value, ast.Attribute) \
                and F.is_name(n.func.value.value, 'self') and n.func.attr in ('append', 'extend', 'insert', 'add', 'update'):
            writes.add(n.func.value.attr)
        if isinstance(n, ast.Attribute) and F.is_name(n.value, 'self'):
            if isinstance(n.ctx, ast.Store):
                writes.add(n.attr)
            else:
                reads.add(n.attr)
    return ctxcalls, reads, writes


def r2_components(ctx, g, handlers):
    base = ctx.prog.cls(LST)

    def closure_reads(f, depth=0):
        c, r, w = _handler_reads(f)
        if depth < 2:
            for n in walk_local(f.node):
                if isinstance(n, ast.Call) and isinstance(n.func, ast.Attribute) and F.is_name(n.func.value, 'self'):
                    m = ctx.prog.find_method(f.cls or base, n.func.attr)
                    if m is not None and m is not f:
                        c2, r2, w2 = closure_reads(m, depth + 1)
                        c |= c2
                        r |= r2
                        w |= w2
        return c, r, w
    for rule in ('note', 'rest', 'duration', 'chord'):
        hs = handlers.get(rule, {})
        h = hs.get('exit')
        if h is None:
            raise AnalysisError(f'anchor vanished: listener handler exit{rule[0].upper() + rule[1:]}')
        ctxcalls, reads, writes = closure_reads(h)
        for child in sorted(g.children_rules(rule)):
            at = h.loc
            if child in ctxcalls:
                ctx.holds('R2', at, h.qualname, f'{rule}: component {child} is read in the handler (ctx.{child}())')
                continue
            # the child (or something below it) has its own handler whose product the parent consumes
            produced = set()
            stack, seen = [child], set()
            while stack:
                r = stack.pop()
                if r in seen or r not in g.rules:
                    continue
                seen.add(r)
                for k, f in handlers.get(r, {}).items():
                    _, _, w = closure_reads(f)
                    produced |= w
                if r not in handlers:
                    stack.extend(g.children_rules(r))
            consumed = produced & reads
            if child in ('note', 'rest') and rule == 'chord':
                consumed = consumed | ({'chord_tokens'} & reads)
            if consumed:
                ctx.holds('R2', at, h.qualname, f'{rule}: component {child} is captured by its own handler into {sorted(consumed)} and consumed here')
            elif child == 'restChar_r' and any(isinstance(n, ast.Call) and src(n.func) == 'Subtoken' and 'REST' in src(n)
                                                for n in walk_local(h.node)):
                ctx.holds('R2', at, h.qualname, 'rest: the rest character becomes a REST sub-token')
            elif child in ALLOWED_DROPS:
                ctx.note('R2', at, h.qualname, f'{rule}: {child} is dropped - {ALLOWED_DROPS[child]}')
            else:
                ctx.violation('R2', at, h.qualname, f'component-dropped:{rule}.{child}',
                              f'grammar rule `{rule}` allows a `{child}` child but exit{rule[0].upper() + rule[1:]} neither reads ctx.{child}() nor '
                              f'consumes what a handler below `{child}` produces: that part of the cell is lost on export')
    # per-element capture: one dot sub-token per augmentationDot
    ed = handlers['duration']['exit']
    dots = [n for n in walk_local(ed.node) if isinstance(n, ast.For) and 'ctx.augmentationDot()' in src(n.iter)]
    okd = len(dots) == 1 and any(isinstance(x, ast.Call) and src(x.func) == 'self.duration_subtokens.append' for x in ast.walk(dots[0])) \
        and src(dots[0].iter) in ('range(len(ctx.augmentationDot()))', 'ctx.augmentationDot()')
    ctx.check(okd, 'R2', ed.loc, ed.qualname, 'one-subtoken-per-dot', 'one duration sub-token per augmentation dot')
    # the alteration is appended when present; the pitch always
    en = handlers['note']['exit']
    oka = any(isinstance(n, ast.If) and src(n.test) == 'ctx.alteration()' and
              any('ALTERATION' in src(x) and 'ctx.alteration().getText()' in src(x) for x in ast.walk(n)) for n in walk_local(en.node))
    ctx.check(oka, 'R2', en.loc, en.qualname, 'alteration-captured', 'a note keeps its accidental as an ALTERATION sub-token with the text as written')
    # barline: pieces kept
    eb = handlers.get('barline', {}).get('exit')
    if eb is None:
        raise AnalysisError('anchor vanished: exitBarline')
    c, r, w = _handler_reads(eb)
    ctx.check({'EQUAL', 'barLineType', 'fermata'} <= c, 'R2', eb.loc, eb.qualname, 'barline-pieces',
              'a barline keeps its = / ==, its type and its fermata', f'exitBarline reads only {sorted(c)}')
    dropped = sorted(x for x in g.children_rules('barline') if x not in c)
    ctx.note('R2', eb.loc, eb.qualname, f'barline pieces not kept: {dropped} + repetition letters, "-", "j", "." (only the number is inside the claimed domain)')


TOKEN_CLASSES_NOTE = {'NoteRestToken', 'ChordToken', 'BarToken', 'BoundingBox'}


def r3_verbatim(ctx, handlers):
    n = 0
    for rule, hs in sorted(handlers.items()):
        for kind, f in hs.items():
            for a in walk_local(f.node):
                if isinstance(a, ast.Assign) and any(src(t) == 'self.token' for t in a.targets) and isinstance(a.value, ast.Call):
                    c = F.constructed_class(ctx, a.value, f)
                    if c is None or c.name in TOKEN_CLASSES_NOTE:
                        continue
                    n += 1
                    first = a.value.args[0] if a.value.args else None
                    ctx.check(first is not None and src(first) == 'ctx.getText()', 'R3', f'{f.module.relpath}:{a.lineno}', f.qualname,
                              f'handler-not-verbatim:{f.name}', f'{f.name} builds {c.name}(ctx.getText(), ...): the text is kept verbatim',
                              f'{f.name} builds {c.name}({src(first)[:40] if first is not None else ""}...): the cell text is altered')
    ctx.expect_count('R3', 'non-note token constructions in the listener', n, 12)
    for rule in ('chord',):
        f = handlers[rule]['exit']
        ok = any(isinstance(a, ast.Assign) and src(a.targets[0]) == 'self.token' and isinstance(a.value, ast.Call)
                 and src(a.value.args[0]) == 'ctx.getText()' and src(a.value.args[-1]) == 'self.chord_tokens' for a in walk_local(f.node))
        ctx.check(ok, 'R3', f.loc, f.qualname, 'chord-token-notes', 'the chord token receives every note token collected for the chord')
    # importer-side tokens receive the raw cell
    imp = ctx.prog.cls(f'{N.IMPORTER}.Importer')
    want = {'FieldCommentToken': ('run', 'column'), 'HeaderToken': ('_compute_header_token', None),
            'SpineOperationToken': ('_compute_spine_operator_token', None), 'MetacommentToken': ('_compute_metacomment_token', None)}
    for clsname, (fname, argname) in want.items():
        f = imp.methods[fname]
        calls = [c for c in walk_local(f.node) if isinstance(c, ast.Call) and F.is_name(c.func, clsname)]
        expect = argname or (f.params[2] if fname != '_compute_metacomment_token' else f.params[1])
        ok = len(calls) == 1 and calls[0].args and F.is_name(calls[0].args[0], expect)
        ctx.check(ok, 'R3', f.loc, f.qualname, f'importer-token-verbatim:{clsname}', f'{clsname} receives the raw cell text',
                  f'{clsname} receives `{src(calls[0].args[0]) if calls and calls[0].args else None}`')
    c04.r6_chords(ctx)
    shared.plain_encodings_keep_verbatim_text(ctx, 'R3')
    c01.note_receives_decorations(ctx, 'R2')


def r4_joins(ctx):
    fi = ctx.prog.func(f'{N.TOKENS}.NoteRestToken.export')
    env, joins, ev = c01.export_flows(ctx, fi)
    ctx.expect_count('R4', 'joins fed by the sub-token lists', len(joins), 2)
    for n, fl in joins:
        at = f'{fi.module.relpath}:{n.lineno}'
        which = '+'.join(sorted(fl.sources))
        ctx.check(not fl.sliced, 'R4', at, fi.qualname, f'sliced-join:{which}',
                  f'{which}: no slice or index between the filter and the join', f'{which}: a slice/index drops sub-tokens before `{src(n)[:60]}`')
        if isinstance(n, ast.Call):
            arg = n.args[0]
            if isinstance(arg, (ast.GeneratorExp, ast.ListComp)):
                g = arg.generators[0]
                elt_ok = isinstance(g.target, ast.Name) and src(arg.elt) == f'{g.target.id}.encoding'
                ctx.check(elt_ok, 'R4', at, fi.qualname, f'join-element:{which}', f'{which}: each element contributes its encoding unchanged',
                          f'{which}: elements contribute `{src(arg.elt)[:60]}`')
                if g.ifs:
                    # only the agnostic branch may select by category, and then DURATION + PITCH/ALTERATION must both be emitted
                    sel = ' '.join(src(c) for c in g.ifs)
                    ok = 'TokenCategory.DURATION' in sel or ('TokenCategory.PITCH' in sel and 'TokenCategory.ALTERATION' in sel)
                    ctx.check(ok, 'R4', at, fi.qualname, f'join-extra-filter:{which}',
                              f'{which}: the only additional selection is the duration / pitch split of the agnostic branch',
                              f'{which}: sub-tokens are additionally filtered by `{sel[:80]}`')
    # agnostic branch: duration part + pitch part together cover DURATION, PITCH, ALTERATION
    s = src(fi.node)
    ok = 'TokenCategory.DURATION' in s and 'TokenCategory.PITCH' in s and 'TokenCategory.ALTERATION' in s
    ctx.check(ok, 'R4', fi.loc, fi.qualname, 'agnostic-branch-covers-categories',
              'the agnostic branch emits the DURATION sub-tokens and converts the PITCH + ALTERATION sub-tokens')
    # the filter comprehension itself iterates the whole list
    for lst in ('pitch_duration_subtokens', 'decoration_subtokens'):
        comps = [c for c in walk_local(fi.node) if isinstance(c, (ast.ListComp, ast.GeneratorExp)) and len(c.generators) == 1
                 and src(c.generators[0].iter) == f'self.{lst}']
        ctx.check(len(comps) >= 1, 'R4', fi.loc, fi.qualname, f'whole-list:{lst}', f'the whole list {lst} enters the export')
    # early exits
    rets = [n for n in walk_local(fi.node) if isinstance(n, ast.Return)]
    ctx.check(len(rets) == 1, 'R4', fi.loc, fi.qualname, 'single-exit', 'NoteRestToken.export has a single exit after both parts are built',
              f'{len(rets)} return statements')


def r5_grid(ctx):
    es = ctx.prog.func(f'{EXP}.export_string')
    loops = [n for n in walk_local(es.node) if isinstance(n, ast.For) and src(n.iter) == 'rows']
    ok = len(loops) == 1
    if ok:
        lp = loops[0]
        body = lp.body
        ok = len(body) == 1 and isinstance(body[0], ast.If) and src(body[0].test) == f'not empty_row({lp.target.id})' and not body[0].orelse \
            and len(body[0].body) == 1 and isinstance(body[0].body[0], ast.AugAssign) \
            and src(body[0].body[0].value) == f"'\\t'.join({lp.target.id}) + '\\n'" and isinstance(body[0].body[0].op, ast.Add)
    ctx.check(ok, 'R5', es.loc, es.qualname, 'grid-assembly',
              'every non-empty row is emitted once, in order, as TAB-joined cells followed by a newline',
              'the final assembly loop is not `for row in rows: if not empty_row(row): result += TAB.join(row) + NEWLINE`')
    rets = [n for n in walk_local(es.node) if isinstance(n, ast.Return)]
    ctx.check(len(rets) == 1 and src(rets[0].value) == 'result', 'R5', es.loc, es.qualname, 'grid-returned', 'the assembled text is returned unchanged')
