"""C03 - Export conserves the score content cell for cell (necessary structural clauses)."""
from __future__ import annotations

import ast
import re

from ..errors import AnalysisError
from ..model import src, walk_local, docstring_free
from ..astutil import clone
from .. import names as N
from .. import facts as F
from .. import guards as G
from .. import symex
from .. import grammar as GR
from . import shared, c01, c04
from .exporter_facts import EXP

LST = f'{N.LISTENER}.BaseANTLRSpineParserListener'
GEN_LISTENER = 'kernpy.core.generated.kernSpineParserListener.kernSpineParserListener'
ALLOWED_DROPS = {'chordSpace': 'the chord separator carries no content', 'number': 'the measure number (the property allows it)'}


def run(ctx):
    ctx.explanation = (
        'Static rules for C03 (necessary conditions of conservation, not the behaviour): (R1) listener exhaustiveness against the '
        'grammar - for every alternative of rule `field` every derivation passes through a rule whose exit handler assigns the token '
        '(least fixpoint over the rule table), and every hand-written enter/exit handler overrides a method of the generated listener; '
        '(R2) component coverage - for note, rest, duration and chord every sub-rule the grammar allows as a child is captured into a '
        'sub-token (read in the rule\'s handler, or produced by its own handler and consumed by the parent\'s); (R3) verbatim encodings - '
        'every handler that builds a non-note token passes ctx.getText(), the importer hands the raw cell to the comment/header/spine-'
        'operator tokens, the SimpleToken family exports its stored text; (R4) no-drop joins - NoteRestToken.export joins all elements '
        'of the filtered lists (no slice, index or early exit between filter and join), the agnostic branch emits every DURATION sub-'
        'token plus the converted pitch, Chord/CompoundToken cover all sub-tokens; (R5) grid assembly joins cells with TAB and rows '
        'with newline in list order; (R6) whole-cell consumption; (R7) dotted durations keep the grammar order (shared with C01.R3).')
    ctx.not_decided = ['cell-for-cell equality of export and source on all documents (the generated parser is not analysed)']
    g = GR.load(ctx)
    handlers = r1_exhaustive(ctx, g)
    r2_components(ctx, g, handlers)
    r3_verbatim(ctx, handlers)
    r4_joins(ctx)
    r5_grid(ctx)
    shared.whole_cell_consumption(ctx, 'R6')
    # "single notes exactly their set of signifiers": the only thing that may drop a signifier is the de-duplication, and it drops
    # one exactly when an EQUAL one was read before
    ctx.alias = {'R2': 'R11'}
    c01.r2_dedup(ctx)
    ctx.alias = {}
    # "nothing moved to another spine": the number of paths a spine operator leaves open decides which importer reads the cells to
    # its right (C02.R3/R5 as R12)
    from . import c02
    ctx.alias = {'R3': 'R12', 'R5': 'R12'}
    c02.r3_r5_counts(ctx)
    # "nothing moved to another spine": the token of a cell is what the importer of ITS spine made of ITS text (C18.R7 as R13)
    from . import c18 as _c18
    ctx.alias = {'R7': 'R13'}
    _c18.r7_document_dispatch(ctx)
    ctx.alias = {}
    c01.r3_export_order(ctx, g, None, 'R7')
    # cells are taken literally by the line reader, and every token is built by a listener created for that token alone
    ctx.alias = {'R1': 'R3', 'R2': 'R3'}
    from . import c02, c12
    c02.r1_reader(ctx)
    c12.r2_fresh_listener(ctx, ctx.prog.func(f'{N.KERN_IMP}.KernSpineImporter.import_token'))
    ctx.alias = {}
    # the default selection is "everything" in every call
    # per cell, what is written depends on the spine selection and the category selection only (no other test may turn a
    # token into a placeholder: a repeated signature, a first row, ...)
    from .exporter_facts import RowGate, check_spine_gate, check_category_gate
    gate_ = RowGate(ctx)
    check_spine_gate(ctx, 'R10', gate_)
    check_category_gate(ctx, 'R10', gate_)
    shared.effect_free(ctx, 'R9', [f'{N.PUBLIC}.dumps', f'{N.MAPPER}.valid'],
                       'the default export keeps every category: nothing an earlier call excluded may stay excluded')
    from .. import regen
    regen.check(ctx, 'R8')


def listener_handlers(ctx):
    """{rule name: {'enter': FuncInfo, 'exit': FuncInfo}} for the hand-written listener (base class and subclasses)."""
    base = ctx.prog.cls(LST)
    out = {}
    for c in [base] + ctx.prog.subclasses(base, strict=True):
        for f in c.methods.values():
            m = re.match(r'^(enter|exit)([A-Z]\w*)$', f.name)
            if m:
                rule = m.group(2)[0].lower() + m.group(2)[1:]
                out.setdefault(rule, {})[m.group(1)] = f
    return out


def _assigns_token(ctx, f, depth=0):
    for n in walk_local(f.node):
        if isinstance(n, ast.Assign) and any(src(t) == 'self.token' for t in n.targets) and not (
                isinstance(n.value, ast.Constant) and n.value.value is None):
            return True
        if depth < 2 and isinstance(n, ast.Call) and isinstance(n.func, ast.Attribute) and F.is_name(n.func.value, 'self') and f.cls:
            m = ctx.prog.find_method(f.cls, n.func.attr)
            if m is not None and m is not f and _assigns_token(ctx, m, depth + 1):
                return True
    return False


def r1_exhaustive(ctx, g):
    handlers = listener_handlers(ctx)
    gen = ctx.prog.cls(GEN_LISTENER)
    gen_rules = {m[5:][0].lower() + m[5:][1:] for m in gen.methods if m.startswith('enter')}
    ctx.check(gen_rules == set(g.rules), 'R1', gen.loc, gen.qualname, 'generated-listener-vs-grammar',
              f'the generated listener has one enter/exit pair per grammar rule ({len(g.rules)} rules)',
              f'grammar and generated listener disagree on {sorted(gen_rules ^ set(g.rules))[:5]}')
    for rule, hs in sorted(handlers.items()):
        for kind, f in hs.items():
            ctx.check(f.name in gen.methods, 'R1', f.loc, f.qualname, f'handler-never-called:{f.name}',
                      f'{f.name} overrides a method of the generated listener',
                      f'{f.name} overrides nothing in the generated listener: the walker never calls it')
    ctx.expect_count('R1', 'listener handlers', sum(len(h) for h in handlers.values()), 20)
    assigning = {r for r, hs in handlers.items() if r in g.rules and any(_assigns_token(ctx, f) for f in hs.values())}
    guaranteed = g.guaranteed(assigning)
    alts = g.rules['field']
    for alt in alts:
        names = [e.name for e in alt if e.kind == 'rule']
        ok = any(n in guaranteed for n in names)
        ctx.check(ok, 'R1', 'kern/kernSpineParser.g4:14', f'grammar.field -> {" ".join(names)}', f'field-alternative-without-token:{"_".join(names)}',
                  f'every derivation of field -> {" ".join(names)} passes through a handler that assigns the token',
                  f'some derivation of field -> {" ".join(names)} assigns no token: the cell would import as None')
    # which rules lack a guarantee below each alternative (diagnosis)
    ctx.analysed['R1.assigning_rules'] = sorted(assigning)
    # shadowed handlers: an ancestor's handler always overwrites the token (informational)
    shadow = []
    for r in sorted(assigning):
        for anc in sorted(assigning):
            if anc != r and r in g.reachable(anc) and anc in g.rules:
                shadow.append(f'{r} (overwritten by {anc})')
    for s_ in shadow[:6]:
        ctx.note('R1', 'kern/kernSpineParser.g4:1', LST, f'shadowed handler: {s_}')
    return handlers


def _handler_reads(f):
    """ctx.<rule>() calls and self.<field> reads/writes of a handler."""
    ctxcalls, reads, writes = set(), set(), set()
    for n in walk_local(f.node):
        if isinstance(n, ast.Call) and isinstance(n.func, ast.Attribute) and F.is_name(n.func.value, 'ctx'):
            ctxcalls.add(n.func.attr)
        if isinstance(n, ast.Call) and isinstance(n.func, ast.Attribute) and isinstance(n.func.value, ast.Attribute) \
                and F.is_name(n.func.value.value, 'self') and n.func.attr in ('append', 'extend', 'insert', 'add', 'update'):
            writes.add(n.func.value.attr)
        if isinstance(n, ast.Attribute) and F.is_name(n.value, 'self'):
            if isinstance(n.ctx, ast.Store):
                writes.add(n.attr)
            else:
                reads.add(n.attr)
    return ctxcalls, reads, writes



def _repeated_literals(ctx, fi, text_node, conds=()):
    """`'=' * E` inside the text of a barline, with E an integer expression over `len(ctx.EQUAL())`: the grammar writes one to
    three EQUAL tokens (`EQUAL EQUAL?`, `====` lexes as several), so the piece is one of finitely many literals.  Returns None
    (no such piece) or a function conds -> [(conds', text')] with the piece replaced consistently, one variant per count."""
    def mults(n):
        return [m for m in ast.walk(n) if isinstance(m, ast.BinOp) and isinstance(m.op, ast.Mult)
                and any(isinstance(x, ast.Constant) and isinstance(x.value, str) for x in (m.left, m.right))]
    ms = mults(text_node) + [m for c, _ in conds for m in mults(c)]
    if not ms:
        return None
    keys = {src(m) for m in ms}
    if len(keys) != 1:
        return None
    m0 = ms[0]
    lit, cnt = (m0.left, m0.right) if isinstance(m0.left, ast.Constant) and isinstance(m0.left.value, str) else (m0.right, m0.left)
    lens = {src(c) for c in ast.walk(cnt) if isinstance(c, ast.Call) and F.is_name(c.func, 'len')}
    if len(lens) != 1 or not next(iter(lens)).startswith('len(ctx.'):
        return None
    len_src = next(iter(lens))
    values = {}
    for k in (1, 2, 3):
        class _Sub(ast.NodeTransformer):
            def visit_Call(self, c):
                if src(c) == len_src:
                    return ast.Constant(value=k)
                return self.generic_visit(c)
        ok, v = ctx.ce.try_eval(_Sub().visit(clone(cnt)), fi.module, fi.cls, {})
        if not ok or not isinstance(v, int) or isinstance(v, bool):
            return None
        values[k] = lit.value * v
    key = src(m0)

    def variants(conds):
        out = []
        for k, text in sorted(values.items()):
            class _Rep(ast.NodeTransformer):
                def visit_BinOp(self, b):
                    if src(b) == key:
                        return ast.Constant(value=text)
                    return self.generic_visit(b)
            fold = lambda n: _fold_str_concat(_Rep().visit(clone(n)))
            out.append(([(fold(c), t) for c, t in conds], fold(text_node)))
        return out
    return variants


def _fold_str_concat(node):
    """'a' + 'b' -> 'ab' inside a concatenation (after a repeated literal was replaced by its value)."""
    class _F(ast.NodeTransformer):
        def visit_BinOp(self, b):
            b = self.generic_visit(b)
            if isinstance(b.op, ast.Add) and isinstance(b.left, ast.Constant) and isinstance(b.right, ast.Constant) \
                    and isinstance(b.left.value, str) and isinstance(b.right.value, str):
                return ast.Constant(value=b.left.value + b.right.value)
            return b
    return ast.fix_missing_locations(_F().visit(node))


def r2_components(ctx, g, handlers):
    base = ctx.prog.cls(LST)

    def closure_reads(f, depth=0):
        c, r, w = _handler_reads(f)
        if depth < 2:
            for n in walk_local(f.node):
                if isinstance(n, ast.Call) and isinstance(n.func, ast.Attribute) and F.is_name(n.func.value, 'self'):
                    m = ctx.prog.find_method(f.cls or base, n.func.attr)
                    if m is not None and m is not f:
                        c2, r2, w2 = closure_reads(m, depth + 1)
                        c |= c2
                        r |= r2
                        w |= w2
        return c, r, w
    for rule in ('note', 'rest', 'duration', 'chord'):
        hs = handlers.get(rule, {})
        h = hs.get('exit')
        if h is None:
            raise AnalysisError(f'anchor vanished: listener handler exit{rule[0].upper() + rule[1:]}')
        ctxcalls, reads, writes = closure_reads(h)
        for child in sorted(g.children_rules(rule)):
            at = h.loc
            if child in ctxcalls:
                ctx.holds('R2', at, h.qualname, f'{rule}: component {child} is read in the handler (ctx.{child}())')
                continue
            # the child (or something below it) has its own handler whose product the parent consumes
            produced = set()
            stack, seen = [child], set()
            while stack:
                r = stack.pop()
                if r in seen or r not in g.rules:
                    continue
                seen.add(r)
                for k, f in handlers.get(r, {}).items():
                    _, _, w = closure_reads(f)
                    produced |= w
                if r not in handlers:
                    stack.extend(g.children_rules(r))
            consumed = produced & reads
            if child in ('note', 'rest') and rule == 'chord':
                consumed = consumed | ({'chord_tokens'} & reads)
            if consumed:
                ctx.holds('R2', at, h.qualname, f'{rule}: component {child} is captured by its own handler into {sorted(consumed)} and consumed here')
            elif child == 'restChar_r' and any(isinstance(n, ast.Call) and src(n.func) == 'Subtoken' and 'REST' in src(n)
                                                for n in walk_local(h.node)):
                ctx.holds('R2', at, h.qualname, 'rest: the rest character becomes a REST sub-token')
            elif child in ALLOWED_DROPS:
                ctx.note('R2', at, h.qualname, f'{rule}: {child} is dropped - {ALLOWED_DROPS[child]}')
            else:
                ctx.violation('R2', at, h.qualname, f'component-dropped:{rule}.{child}',
                              f'grammar rule `{rule}` allows a `{child}` child but exit{rule[0].upper() + rule[1:]} neither reads ctx.{child}() nor '
                              f'consumes what a handler below `{child}` produces: that part of the cell is lost on export')
    # per-element capture: one dot sub-token per augmentationDot (what the list holds at the end of every path)
    ed = handlers['duration']['exit']
    okd = True
    n_paths = 0
    for cond, items, sp in F.list_content(ed, 'self.duration_subtokens'):
        n_paths += 1
        dots = [it for it in items if it[0] == 'many' and src(it[1]) == "Subtoken('.', TokenCategory.DURATION)" and not it[3]
                and src(it[2]) in ('range(len(ctx.augmentationDot()))', 'ctx.augmentationDot()')]
        others = [it for it in items if it[0] in ('many', 'unknown', 'copy') and it not in dots]
        okd = okd and len(dots) == 1 and not others
    ctx.check(okd and n_paths > 0, 'R2', ed.loc, ed.qualname, 'one-subtoken-per-dot', 'one duration sub-token per augmentation dot')
    check_duration_figure(ctx, 'R2', ed)
    # the alteration is appended when present; the pitch always
    en = handlers['note']['exit']
    oka = True
    n_alt = 0
    calls = [c for c in walk_local(en.node) if isinstance(c, ast.Call) and src(c.func) == 'self.addNoteRest' and len(c.args) == 2]
    recv = src(calls[0].args[1]) if len(calls) == 1 and isinstance(calls[0].args[1], (ast.Name, ast.Attribute)) else None
    if recv is None:
        oka = False
    else:
        for cond, items, sp in F.list_content(en, recv):
            alts = [it for it in items if it[0] == 'one' and src(it[1]) == 'Subtoken(ctx.alteration().getText(), TokenCategory.ALTERATION)']
            present = {src(n_): t for n_, t in sp.conds}.get('ctx.alteration()')
            if present is None:
                present = not {src(n_): t for n_, t in sp.conds}.get('ctx.alteration() is None', True) if 'ctx.alteration() is None' in {src(n_) for n_, _ in sp.conds} else None
            if present is True:
                n_alt += 1
                oka = oka and len(alts) == 1
            elif present is False:
                oka = oka and not alts
            else:
                oka = False
            pitch = [it for it in items if it[0] == 'one' and src(it[1]) == 'self.diatonic_pitch_and_octave_subtoken']
            dur = [it for it in items if it[0] == 'copy' and src(it[1]) == 'self.duration_subtokens']
            oka = oka and len(pitch) == 1 and len(dur) == 1
    ctx.check(oka and n_alt > 0, 'R2', en.loc, en.qualname, 'alteration-captured',
              'a note keeps its duration, its pitch and - when written - its accidental as an ALTERATION sub-token with the text as written')
    # barline: the text of the token is assembled from the cell's own pieces, never replaced by another spelling
    eb0 = handlers.get('barline', {}).get('exit')
    if eb0 is not None:
        seq = g.sequence_rules('barline')
        eq_mandatory = bool(seq) and seq[0][0] == 'EQUAL' and seq[0][1] in ('', '+')
        bad_lits, n_tok = set(), 0
        variants = []
        for sp in symex.func_sym_paths(eb0):
            tests = {src(n_): t for n_, t in sp.conds}
            if eq_mandatory and (tests.get('ctx.EQUAL(0)') is False or F.forced(sp.condition(), 'ctx.EQUAL(0)', False)):
                continue            # the grammar starts every barline with '=': this path is never taken
            made = [e.expr for e in sp.events if e.kind in ('store', 'assign') and isinstance(e.expr, ast.Call) and F.is_name(e.expr.func, 'BarToken')
                    and e.expr.args]
            if not made:
                continue
            # `TABLE.get(text, text)` with a constant table is the chain `v1 if text == k1 else ... else text`
            a0 = F.joined_text(sp, made[-1].args[0])

            class _Joins(ast.NodeTransformer):       # ''.join(<local list filled piece by piece>) anywhere inside the text expression
                def visit_Call(self, c_):
                    c_ = self.generic_visit(c_)
                    return F.joined_text(sp, c_)
            a0 = _Joins().visit(clone(a0))
            reps = _repeated_literals(ctx, eb0, a0, sp.conds)
            if reps:
                # `'=' * f(len(ctx.EQUAL()))`: one variant per count the grammar allows (1..3), the same count in the text and in
                # every test of the path
                for variant_conds, variant_text in reps(list(sp.conds)):
                    variants.append((sp, variant_conds, variant_text))
                continue
            variants.append((sp, list(sp.conds), a0))
        for sp, sp_conds, a0 in variants:
            alts = [([], a0)]
            if isinstance(a0, ast.Call) and isinstance(a0.func, ast.Attribute) and a0.func.attr == 'get' and len(a0.args) == 2 and not a0.keywords:
                ok_t, table = ctx.ce.try_eval(a0.func.value, eb0.module, eb0.cls, {})
                if ok_t and isinstance(table, dict) and all(isinstance(k_, str) and isinstance(v_, str) for k_, v_ in table.items()):
                    key_t, dflt = F.joined_text(sp, a0.args[0]), F.joined_text(sp, a0.args[1])
                    alts = [([(ast.Compare(left=key_t, ops=[ast.Eq()], comparators=[ast.Constant(value=k_)]), True)], ast.Constant(value=v_))
                            for k_, v_ in table.items()]
                    alts.append(([(ast.Compare(left=key_t, ops=[ast.Eq()], comparators=[ast.Constant(value=k_)]), False) for k_ in table], dflt))
            for extra, text_node in alts:
                parts = F.text_parts(text_node)
                # a comparison of the assembled text with a spelling that cannot match its literal beginning is decided
                feasible = True
                for n_, t in list(sp_conds) + extra:
                    if isinstance(n_, ast.Compare) and len(n_.ops) == 1 and isinstance(n_.ops[0], (ast.Eq, ast.NotEq)) \
                            and isinstance(n_.comparators[0], ast.Constant) and isinstance(n_.comparators[0].value, str):
                        lp = F.text_parts(n_.left)
                        k = n_.comparators[0].value
                        if lp and lp[0][0] == 'lit':
                            lead = lp[0][1]
                            can_equal = k.startswith(lead) if len(lp) > 1 else k == lead
                            if not can_equal and (isinstance(n_.ops[0], ast.Eq)) == t:
                                feasible = False
                if not feasible:
                    continue
                n_tok += 1
                for kind, text in parts:
                    if kind == 'lit' and text not in ('=', '=='):
                        bad_lits.add(text)
                    if kind == 'expr' and not (text.startswith('ctx.') and text.endswith('.getText()')):
                        bad_lits.add(text[:40])
        ctx.check(not bad_lits and n_tok > 0, 'R2', eb0.loc, eb0.qualname, 'barline-text-rewritten',
                  f'on every path the grammar allows, the barline text is "=" / "==" followed by pieces of the cell as written ({n_tok} paths)',
                  f'the barline token can receive the text {sorted(bad_lits)[:3]} that is not a piece of the cell: a barline type is '
                  f'silently replaced by another spelling on export')
    # the DURATION sub-tokens of a note are what the `duration` rule read, in grammar order: a signifier handler that files a mark
    # as DURATION (a grace `q` written after the pitch) makes the exporter write it next to the figure, where the grammar reads two
    # adjacent marks as ONE other token (`q` `q` -> `qq`)
    lst_mod_ = ctx.prog.module(N.LISTENER)
    for f_ in ctx.prog.all_functions():
        if f_.module is not lst_mod_ or isinstance(f_.node, ast.Lambda) or f_.name == 'exitDuration':
            continue
        for n_ in walk_local(f_.node):
            if isinstance(n_, ast.Call) and F.is_name(n_.func, 'Subtoken') and any(src(a_).endswith('TokenCategory.DURATION') for a_ in
                                                                                  list(n_.args) + [k_.value for k_ in n_.keywords]):
                ctx.violation('R2', f'{f_.module.relpath}:{n_.lineno}', f_.qualname, 'duration-subtoken-built-outside-duration-rule',
                              f'`{src(n_)[:70]}` files a piece of the cell as a DURATION sub-token outside exitDuration: it is exported inside the '
                              f'duration group, in another place than it was written, and the text that results is read differently')
    # a hidden token is written as a placeholder: the listener hides barlines (the `-` of `=1-`) and nothing else - a note or rest
    # that is marked hidden is exported as `.` and its line may disappear
    for hf in {id(h_): h_ for hs_ in handlers.values() for h_ in hs_.values()}.values():
        pass
    lst_mod = ctx.prog.module(N.LISTENER)
    for f_ in ctx.prog.all_functions():
        if f_.module is not lst_mod or isinstance(f_.node, ast.Lambda):
            continue
        for n_ in walk_local(f_.node):
            if isinstance(n_, (ast.Assign, ast.AugAssign)) and any(isinstance(t_, ast.Attribute) and t_.attr == 'hidden'
                                                                  for t_ in (n_.targets if isinstance(n_, ast.Assign) else [n_.target])):
                if f_.name != 'exitBarline' and not (isinstance(n_.value, ast.Constant) and n_.value.value is False):
                    ctx.violation('R2', f'{f_.module.relpath}:{n_.lineno}', f_.qualname, 'non-barline-token-hidden',
                                  f'`{src(n_)[:70]}` hides a token that is not a barline: the exporter writes `.` for a hidden token, so the '
                                  f'note / rest loses its duration, pitch and signifiers, and a line of such cells is dropped')
    # ... and the barline token stores that text as it is (a re-spelling inside the constructor is the same rewrite)
    shared.check_token_ctors_verbatim(ctx, 'R2', only={'BarToken'})
    # barline: pieces kept
    eb = handlers.get('barline', {}).get('exit')
    if eb is None:
        raise AnalysisError('anchor vanished: exitBarline')
    c, r, w = _handler_reads(eb)
    ctx.check({'EQUAL', 'barLineType', 'fermata'} <= c, 'R2', eb.loc, eb.qualname, 'barline-pieces',
              'a barline keeps its = / ==, its type and its fermata', f'exitBarline reads only {sorted(c)}')
    dropped = sorted(x for x in g.children_rules('barline') if x not in c)
    ctx.note('R2', eb.loc, eb.qualname, f'barline pieces not kept: {dropped} + repetition letters, "-", "j", "." (only the number is inside the claimed domain)')


TOKEN_CLASSES_NOTE = {'NoteRestToken', 'ChordToken', 'BarToken', 'BoundingBox'}


def check_duration_figure(ctx, rule, ed=None):
    """The duration figure is kept as written: the first duration sub-token carries the text of the modernDuration child itself."""
    if ed is None:
        from . import c01 as _c01
        ed = ctx.prog.find_method(ctx.prog.cls(_c01.LST), 'exitDuration')
        if ed is None:
            raise AnalysisError('anchor vanished: exitDuration')
    n_paths = len(F.list_content(ed, 'self.duration_subtokens'))
    okfig = n_paths > 0
    got_fig = set()
    for cond, items, sp in F.list_content(ed, 'self.duration_subtokens'):
        first = items[0] if items else None
        texts = None
        if first is not None and first[0] == 'one' and isinstance(first[1], ast.Call) and F.is_name(first[1].func, 'Subtoken') and first[1].args:
            texts = src(first[1].args[0])
        got_fig.add(str(texts)[:60])
        okfig = okfig and texts == 'ctx.modernDuration().getText()'
    ctx.check(okfig, rule, ed.loc, ed.qualname, 'duration-figure-verbatim',
              'the duration figure sub-token carries ctx.modernDuration().getText() unchanged',
              f'the duration figure sub-token carries {sorted(got_fig)[:2]}: the figure is rewritten (reduced, normalised) on import, so the '
              f'export differs from the source and a second import/export differs again')


def r3_verbatim(ctx, handlers):
    n = 0
    for rule, hs in sorted(handlers.items()):
        for kind, f in hs.items():
            for a in walk_local(f.node):
                if isinstance(a, ast.Assign) and any(src(t) == 'self.token' for t in a.targets) and isinstance(a.value, ast.Call):
                    c = F.constructed_class(ctx, a.value, f)
                    if c is None or c.name in TOKEN_CLASSES_NOTE:
                        continue
                    n += 1
                    first = a.value.args[0] if a.value.args else None
                    ctx.check(first is not None and src(first) == 'ctx.getText()', 'R3', f'{f.module.relpath}:{a.lineno}', f.qualname,
                              f'handler-not-verbatim:{f.name}', f'{f.name} builds {c.name}(ctx.getText(), ...): the text is kept verbatim',
                              f'{f.name} builds {c.name}({src(first)[:40] if first is not None else ""}...): the cell text is altered')
    ctx.expect_count('R3', 'non-note token constructions in the listener', n, 12)
    for rule in ('chord',):
        f = handlers[rule]['exit']
        ok = any(isinstance(a, ast.Assign) and src(a.targets[0]) == 'self.token' and isinstance(a.value, ast.Call)
                 and src(a.value.args[0]) == 'ctx.getText()' and src(a.value.args[-1]) == 'self.chord_tokens' for a in walk_local(f.node))
        ctx.check(ok, 'R3', f.loc, f.qualname, 'chord-token-notes', 'the chord token receives every note token collected for the chord')
    # importer-side tokens receive the raw cell
    imp = ctx.prog.cls(f'{N.IMPORTER}.Importer')
    want = {'FieldCommentToken': ('run', 'column'), 'HeaderToken': ('_compute_header_token', None),
            'SpineOperationToken': ('_compute_spine_operator_token', None), 'MetacommentToken': ('_compute_metacomment_token', None)}
    for clsname, (fname, argname) in want.items():
        f = imp.methods[fname]
        calls = [c for c in walk_local(f.node) if isinstance(c, ast.Call) and F.is_name(c.func, clsname)]
        expect = argname or (f.params[2] if fname != '_compute_metacomment_token' else f.params[1])
        if not calls:
            raise AnalysisError(f'{f.loc}: {clsname} is not constructed in {fname} any more (moved into a helper that is not inlined): not followed')
        ok = len(calls) == 1 and calls[0].args and F.is_name(calls[0].args[0], expect)
        if not ok and fname == 'run' and len(calls) == 1:
            # the cell of the column loop under whatever name it reaches the constructor (helpers of the row loop inlined)
            lps = [n_ for n_ in walk_local(f.node) if isinstance(n_, ast.For) and 'enumerate(' in src(n_.iter)
                   and isinstance(n_.target, ast.Tuple) and len(n_.target.elts) == 2 and isinstance(n_.target.elts[1], ast.Name)]
            if len(lps) == 1:
                cell = lps[0].target.elts[1].id
                got = set()
                for sp_ in symex.sym_paths(lps[0].body, limit=20000, fi=f):
                    for e_ in sp_.events:
                        for c_ in ([x for x in ast.walk(e_.expr) if isinstance(x, ast.Call)] if isinstance(e_.expr, ast.AST) else []):
                            if F.is_name(c_.func, clsname) and c_.args:
                                got.add(src(c_.args[0]))
                ok = got == {cell}
        ctx.check(ok, 'R3', f.loc, f.qualname, f'importer-token-verbatim:{clsname}', f'{clsname} receives the raw cell text',
                  f'{clsname} receives `{src(calls[0].args[0]) if calls and calls[0].args else None}`')
    c04.r6_chords(ctx)
    shared.plain_encodings_keep_verbatim_text(ctx, 'R3')
    shared.check_token_ctors_verbatim(ctx, 'R3')
    shared.check_cells_unmodified(ctx, 'R3')
    c01.note_receives_decorations(ctx, 'R2')


def r4_joins(ctx):
    """No sub-token is dropped or altered between the lists of the token and the exported text (element-wise model of the
    export, per feasible path)."""
    fi = ctx.prog.func(f'{N.TOKENS}.NoteRestToken.export')
    eps, joins = c01.export_joins(ctx, fi)
    ctx.expect_count('R4', 'joins fed by the sub-token lists', len(joins), 2)
    PD, DECO = 'self.pitch_duration_subtokens', 'self.decoration_subtokens'
    for j, ep in joins:
        at = f'{fi.module.relpath}:{j.node.lineno}'
        which = c01.SRC_NAMES[j.seq.source]
        ctx.check(not j.seq.sliced, 'R4', at, fi.qualname, f'sliced-join:{which}',
                  f'{which}: no slice or index between the list and the join', f'{which}: a slice/index drops sub-tokens before `{src(j.node)[:60]}`')
        ctx.check(src(j.seq.elt) == '_e.encoding', 'R4', at, fi.qualname, f'join-element:{which}',
                  f'{which}: each element contributes its encoding unchanged', f'{which}: elements contribute `{src(j.seq.elt)[:60]}`')
        extra = [a for a in G.atoms_of(j.seq.filter()) if 'filter_categories' not in a]
        foreign = [a for a in extra if not (a.startswith('_e.category == TokenCategory.') or (a.startswith('TokenCategory.') and a.endswith(' == _e.category')))]
        ctx.check(not foreign, 'R4', at, fi.qualname, f'join-extra-filter:{which}',
                  f'{which}: besides the category predicate, the only selection is by the category of the element',
                  f'{which}: sub-tokens are additionally filtered by `{foreign[0][:80] if foreign else ""}`')
    # per path: the whole pitch/duration list reaches the text - either unsplit, or split by category into parts that together
    # cover DURATION, PITCH and ALTERATION; the signifier list is present unless the path is taken because it is empty
    bad = []
    n = 0
    for ep in eps:
        if len(ep.pieces) == 1 and ep.pieces[0].kind == 'const':
            continue        # the EMPTY_TOKEN exit
        n += 1
        pdj = ep.joins(PD)
        cats = [j.seq.category_tests() for j in pdj]
        if not pdj:
            bad.append('a path emits no pitch/duration sub-token')
        elif not any(not c for c in cats):
            covered = set().union(*cats)
            if not {'DURATION', 'PITCH', 'ALTERATION'} <= covered and not _path_excludes(ep, {'DURATION', 'PITCH', 'ALTERATION'} - covered):
                bad.append(f'a path emits only the {sorted(covered)} sub-tokens of the pitch/duration list')
        if not ep.joins(DECO) and DECO not in G.show(ep.cond):
            bad.append('a path emits no signifier although the signifier list was not tested to be empty')
        if any(j.seq.category_tests() for j in ep.joins(DECO)):
            bad.append('signifiers are selected by category')
    ctx.check(not bad and n > 0, 'R4', fi.loc, fi.qualname, 'whole-lists-exported',
              f'on each of the {n} text-producing paths the whole pitch/duration list (unsplit, or split into DURATION + PITCH + '
              f'ALTERATION) and the whole signifier list reach the exported text', '; '.join(sorted(set(bad))[:3]))


def _path_excludes(ep, cats):
    """The path condition says that the list has no element of these categories (an emptiness test of exactly that selection)."""
    t = G.show(ep.cond)
    return all(f'TokenCategory.{c}' in t for c in cats)


def r5_grid(ctx):
    from . import export_model as EM
    es = ctx.prog.func(f'{EXP}.export_string')
    env = G.single_assignments(es.node)
    rets = [n for n in walk_local(es.node) if isinstance(n, ast.Return)]
    ok = bool(rets)
    why = ''
    for r in rets:
        val = G.substitute(r.value, env) if r.value is not None else None
        pcs = EM.pieces_of(val, {'rows'}) if val is not None else []
        good = len(pcs) == 1 and pcs[0].kind == 'join' and pcs[0].sep == "''"
        if good:
            q = pcs[0].seq
            good = not q.sorts and not q.sliced and not q.hashed and src(q.elt) == "'\\t'.join(_e) + '\\n'" \
                and G.canonical(q.filter()) == 'not empty_row(_e)'
        if not good:
            ok = False
            why = f'export_string returns `{src(val)[:120]}`'
    shared.check_stage_loop_complete(ctx, 'R5')
    ctx.check(ok, 'R5', es.loc, es.qualname, 'grid-assembly',
              'every non-empty row is emitted once, in order, as TAB-joined cells followed by a newline',
              why + ': not the rows that are not empty_row, in order, each as TAB.join(row) + NEWLINE')
