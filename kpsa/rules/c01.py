"""C01 - Normalised export is a fixed point of import-then-export (necessary structural clauses)."""
from __future__ import annotations

import ast

from ..errors import AnalysisError
from ..model import src, walk_local, docstring_free
from .. import names as N
from .. import facts as F
from .. import guards as G
from .. import symex
from .. import grammar as GR
from . import c04, c20
from .exporter_facts import check_nullish_tables

NRT = f'{N.TOKENS}.NoteRestToken'
LST = f'{N.LISTENER}.BaseANTLRSpineParserListener'
SOURCES = {'self.pitch_duration_subtokens': 'pd', 'self.decoration_subtokens': 'deco'}


def run(ctx):
    ctx.explanation = (
        'Static rules for C01 (necessary conditions of idempotence/canonicity, not the behaviour): (R1) order taint - in '
        'NoteRestToken.export every sequence that originates in the two sub-token lists and reaches a str.join passes through '
        'sorted()/sort() whose key is a function of the element only and, for the signifier list, is total on distinct encodings '
        '(contains the encoding); (R2) de-duplication discipline - the only function that appends to the listener\'s decoration list '
        'is the guarded helper (a loop over the list that returns when an element with the same encoding exists dominates the '
        'append), enterStart rebinds the list, every *Decoration handler goes through the helper; (R3) the exported order agrees with '
        'the grammar order: category ranks DURATION < PITCH < ALTERATION and DURATION < REST, signifiers after the pitch part, and '
        'inside the DURATION category the sort key does not reorder the sub-tokens away from the grammar sequence `number . q|p|P` - '
        'a key that compares encodings is evaluated on the FIRST sets of the duration parts read from the grammar; (R4) separator '
        'erasure by the plain tokenizer and get_kern_from_ekern; (R5) placeholder / null-row table agreement.')
    ctx.not_decided = ['idempotence of import(export(.)) on all documents: the generated parser is not analysed']
    g = GR.load(ctx)
    flows = r1_order_taint(ctx)
    r2_dedup(ctx)
    r3_export_order(ctx, g, flows)
    r4_separators(ctx)
    check_nullish_tables(ctx, 'R5')
    from . import c03 as _c03
    _c03.check_duration_figure(ctx, 'R3')       # a figure rewritten on import is rewritten again by the next import
    # what the listener captures of a note / rest is what the exporter writes: a component that is dropped, invented (a stale pitch
    # added to a rest) or filed under another category changes the text, and the changed text is read differently the second time
    ctx.alias = {'R2': 'R9'}
    _c03.r2_components(ctx, g, _c03.listener_handlers(ctx))
    ctx.alias = {}
    # the normal form may not depend on where a signifier stands: a line reader that interprets quotes removes a leading `"` (the
    # pizzicato mark) but keeps a trailing one (C02.R1 as R10) ...
    from . import c02 as _c02
    ctx.alias = {'R1': 'R10'}
    _c02.r1_reader(ctx)
    ctx.alias = {}
    # ... and the export re-imports: every selected spine contributes exactly one cell to every row (a hidden token is written as a
    # placeholder, never dropped from the row) - the gate truth tables of C05.R3 / C06.R1 as R11
    from .exporter_facts import RowGate, check_spine_gate, check_category_gate
    gate_ = RowGate(ctx)
    check_spine_gate(ctx, 'R11', gate_)
    check_category_gate(ctx, 'R11', gate_)
    # the signifiers of a note are written as a SET: besides the category predicate nothing may drop one of them - a filter that
    # looks at the list in written order ("keep the first stem") makes the normal form depend on the order they were written in
    from . import c05 as _c05
    _c05.check_no_extra_subtoken_filters(ctx, 'R12')
    # every token reaches the text through the tokenizer of the requested encoding (no raw-text bypass): canonical order and
    # de-duplication are properties of that path
    from . import c04
    ctx.alias = {'R4': 'R8', 'R5': 'R8'}
    c04.r4_header(ctx)
    c04.r5_factory(ctx)
    ctx.alias = {}
    # the default export of one call cannot depend on an earlier call (options that stick, a selection that shrinks)
    from . import shared
    shared.effect_free(ctx, 'R7', [f'{N.PUBLIC}.dumps', f'{N.MAPPER}.valid'],
                       'the default export must be the same text in every call: nothing an earlier export left behind may change it')
    if ctx.tier == 'thorough':
        from .. import regen
        regen.check(ctx, 'R6')


# --------------------------------------------------------------------------- order of the exported sub-tokens
SRC_NAMES = {'self.pitch_duration_subtokens': 'pd', 'self.decoration_subtokens': 'deco'}


def export_joins(ctx, fi):
    """[(join piece, path)] for every join over a sub-token list on every feasible path of NoteRestToken.export, one
    representative per distinct (source, filter, sort) description."""
    from . import export_model as EM
    eps = EM.export_paths(ctx, fi, set(SRC_NAMES))
    seen = {}
    for ep in eps:
        for um in ep.unmodelled(set(SRC_NAMES)):
            raise AnalysisError(f'{fi.loc}: `{um.text[:80]}` uses a sub-token list in a way the element-wise model does not follow')
        for j in ep.joins():
            k = (j.seq.source, G.show(j.seq.filter()), tuple((src(x[0]) if isinstance(x[0], ast.AST) else str(x[0]), x[1]) for x in j.seq.sorts),
                 j.seq.hashed, j.seq.sliced, src(j.seq.elt), j.sep)
            seen.setdefault(k, (j, ep))
    return eps, list(seen.values())


def key_facts(ctx, key, fi):
    """-> (function_of_element_only, mentions_encoding, mentions_category, only_category, primary component is the category)"""
    if key is None or not isinstance(key, ast.AST):
        return False, False, False, False, False
    cb = F.callable_body(ctx, key, fi)
    if cb is None or len(cb[0]) != 1:
        return False, False, False, False, False
    p, body = cb[0][0], cb[1]
    names = {n.id for n in ast.walk(body) if isinstance(n, ast.Name)}
    elem_only = names <= {p}
    attrs = [src(n) for n in ast.walk(body) if isinstance(n, ast.Attribute)]
    # the encoding itself is a component of the key (a function of it - upper(), [0], len() - maps different signifiers to one key)
    comps = list(body.elts) if isinstance(body, ast.Tuple) else [body]
    enc = any(src(c_) == f'{p}.encoding' for c_ in comps)
    cat = any(a.startswith(f'{p}.category') for a in attrs)
    first = body.elts[0] if isinstance(body, ast.Tuple) and body.elts else body
    primary = src(first).startswith(f'{p}.category')
    return elem_only, enc, cat, cat and not enc and all(a.startswith(f'{p}.category') for a in attrs), primary


def _effective_sort(seq):
    """(key, reversed) of the LAST ordering step (a later sorted() decides the order; reversed() flips it)."""
    key, rev, have = None, False, False
    for k, r in seq.sorts:
        if k == 'reversed':
            rev = not rev
        else:
            key, rev, have = k, bool(r), True
    return have, key, rev


def r1_order_taint(ctx):
    fi = ctx.prog.func(f'{NRT}.export')
    eps, joins = export_joins(ctx, fi)
    ctx.expect_count('R1', 'joins fed by the sub-token lists', len(joins), 2)
    for j, ep in joins:
        at = f'{fi.module.relpath}:{j.node.lineno}'
        which = SRC_NAMES[j.seq.source]
        if j.seq.hashed:
            ctx.violation('R1', at, fi.qualname, f'hash-order:{which}', f'the {which} sub-tokens pass through a set: the output order depends on hashing')
            continue
        have, key, rev = _effective_sort(j.seq)
        if not have:
            ctx.violation('R1', at, fi.qualname, f'unsorted-join:{which}',
                          f'the {which} sub-tokens reach `{src(j.node)[:70]}` without passing through sorted(): the exported order is the '
                          f'order in which the signifiers were written, so the normal form is not canonical')
            continue
        elem_only, enc, cat, only_cat, primary = key_facts(ctx, key, fi)
        ctx.check(elem_only, 'R1', at, fi.qualname, f'sort-key-not-element-function:{which}',
                  f'{which}: the sort key is a function of the element only', f'{which}: sort key `{src(key) if key is not None else None}`')
        if which == 'deco':
            ctx.check(enc, 'R1', at, fi.qualname, 'decoration-key-not-total',
                      'signifiers: the sort key contains the encoding (total on distinct encodings, which de-duplication guarantees)',
                      f'signifiers are sorted by `{src(key) if key is not None else None}`: two different signifiers compare '
                      f'equal, so their order is the order in which they were written')
        ctx.check(not rev or which == 'deco', 'R1', at, fi.qualname, f'reversed-order:{which}',
                  f'{which}: ascending order', f'{which}: the order is reversed')
    return eps, joins


# --------------------------------------------------------------------------- R2
def listener_classes(ctx):
    base = ctx.prog.cls(LST)
    return [base] + ctx.prog.subclasses(base, strict=True)


def r2_dedup(ctx):
    base = ctx.prog.cls(LST)
    writers = {}
    for c in listener_classes(ctx):
        for f in c.methods.values():
            for n in walk_local(f.node):
                if isinstance(n, ast.Call) and isinstance(n.func, ast.Attribute) and src(n.func.value) == 'self.decorations' \
                        and n.func.attr in ('append', 'extend', 'insert', 'add', '__iadd__'):
                    writers.setdefault(f.qualname, []).append((f, n))
                if isinstance(n, ast.AugAssign) and src(n.target) == 'self.decorations':
                    writers.setdefault(f.qualname, []).append((f, n))
    ctx.expect_count('R2', 'appenders of the decoration list', len(writers), 1)
    helper = None
    for qn, sites in writers.items():
        f = sites[0][0]
        # the guarded shape: on every path that appends, the path condition says that no element with the same encoding exists
        p = f.params[1] if len(f.params) > 1 else None
        ok = bool(p) and len(sites) == 1
        if ok:
            want = f'any({p}.encoding == _v0.encoding for _v0 in self.decorations)'
            alt = f'any(_v0.encoding == {p}.encoding for _v0 in self.decorations)'
            n_app = 0
            for sp in symex.func_sym_paths(f):
                apps = [e for e in sp.events if e.kind == 'expr' and isinstance(e.expr, ast.Call) and src(e.expr.func) == 'self.decorations.append']
                if not apps:
                    continue
                n_app += 1
                fm = sp.condition()
                guard = [a_ for a_ in G.atoms_of(fm) if a_ in (want, alt)]
                ok = ok and len(apps) == 1 and len(apps[0].expr.args) == 1 and F.is_name(apps[0].expr.args[0], p) \
                    and len(guard) == 1 and F.forced(fm, guard[0], False)
            ok = ok and n_app >= 1
        if not ok and p and len(sites) == 1:
            # the same guard kept in a companion set of the encodings already read (`if enc in self._seen: return` ...
            # `self._seen.add(enc)` next to the append, the set re-bound wherever the list is): recognised, its book-keeping is not
            # followed path by path - unknown, not wrong
            mem = [a_ for sp in symex.func_sym_paths(f) for a_ in G.atoms_of(sp.condition())
                   if '.encoding in self.' in a_ or (' in self.' in a_ and 'encoding' in a_)]
            adds = [n_ for n_ in walk_local(f.node) if isinstance(n_, ast.Call) and isinstance(n_.func, ast.Attribute) and n_.func.attr == 'add'
                    and src(n_.func.value).startswith('self.')]
            if mem and adds:
                raise AnalysisError(f'{f.loc}: {f.name} de-duplicates through the companion set `{src(adds[0].func.value)}`: whether it always '
                                    f'mirrors the decoration list is not followed')
        if ok:
            helper = f
        ctx.check(ok, 'R2', f.loc, f.qualname, 'unguarded-decoration-append',
                  'the append to the decoration list is dominated by a loop that returns when an element with the same encoding exists',
                  f'{f.name} appends to self.decorations without the duplicate guard: a signifier written twice is exported twice, '
                  f'and re-import/export of `4cLL` then differs from `4cL`')
    st = base.methods.get('enterStart')
    okr = st is not None and any(isinstance(n, (ast.Assign, ast.AnnAssign)) and src(n.targets[0] if isinstance(n, ast.Assign) else n.target)
                                 == 'self.decorations' and n.value is not None and src(n.value) in ('[]', 'list()')
                                 for n in walk_local(st.node))
    ctx.check(okr, 'R2', st.loc if st else base.loc, f'{LST}.enterStart', 'decorations-not-reset',
              'enterStart rebinds the decoration list to a fresh list for every cell')
    if helper is not None:
        st_cls = ctx.prog.cls(f'{N.TOKENS}.Subtoken')
        n_h = 0
        for c in listener_classes(ctx):
            for f in c.methods.values():
                if not (f.name.startswith('exit') and f.name.endswith('Decoration')):
                    continue
                n_h += 1
                calls = [n for n in walk_local(f.node) if isinstance(n, ast.Call) and src(n.func) == f'self.{helper.name}']
                env = G.single_assignments(f.node)
                okc = len(calls) >= 1
                for cl in calls:
                    a = G.substitute(cl.args[0], env) if cl.args else None
                    okc = okc and isinstance(a, ast.Call) and F.constructed_class(ctx, a, f) is st_cls \
                        and src(a.args[0]) == 'ctx.getText()' and src(a.args[1]).endswith('DECORATION')
                ctx.check(okc, 'R2', f.loc, f.qualname, f'decoration-handler:{f.name}',
                          f'{f.name} records Subtoken(ctx.getText(), DECORATION) through the guarded helper',
                          f'{f.name} does not record the signifier text through {helper.name}')
        ctx.expect_count('R2', 'decoration handlers', n_h, 2)
    note_receives_decorations(ctx, 'R2')


def note_receives_decorations(ctx, rule):
    """Every NoteRestToken the listener builds receives the WHOLE decoration list: de-duplication works on the whole cell
    (the whole chord), so a note that is given only a part of the list can lose a signifier it was written with."""
    nrt = ctx.prog.cls(NRT)
    init = ctx.prog.find_method(nrt, '__init__')
    n = 0
    for c in listener_classes(ctx):
        for f in c.methods.values():
            for call in walk_local(f.node):
                if isinstance(call, ast.Call) and F.constructed_class(ctx, call, f) is nrt:
                    n += 1
                    b = F.bind_args(call, init, True)
                    d = b.get('decoration_subtokens')
                    ctx.check(d is not None and src(d) == 'self.decorations', rule, f'{f.module.relpath}:{call.lineno}', f.qualname,
                              'note-receives-decoration-subset',
                              'the note token receives the whole de-duplicated decoration list of the cell',
                              f'the note token receives `{src(d)[:60]}`, not the whole decoration list: because duplicates are removed '
                              f'against the whole cell, a chord note that repeats a signifier of an earlier note (`[2c [2e`) loses it')
    ctx.expect_count(rule, 'NoteRestToken constructions in the listener', n, 1)


# --------------------------------------------------------------------------- R3
def r3_export_order(ctx, g, flows=None, rule='R3'):
    fi = ctx.prog.func(f'{NRT}.export')
    if flows is None:
        flows = export_joins(ctx, fi)
    eps, joins = flows
    members = {m.name: m.value for m in ctx.ce.enum_canonical(ctx.prog.cls(N.TOKCAT))}
    tc = ctx.prog.cls(N.TOKCAT)
    # grammar facts
    note_seq = [n for n, q in g.sequence_rules('note') if n != 'noteDecoration']
    rest_seq = [n for n, q in g.sequence_rules('rest') if n != 'restDecoration']
    ctx.check(note_seq == ['duration', 'diatonicPitchAndOctave', 'alteration'] and rest_seq == ['duration', 'restChar_r'], rule,
              'kern/kernSpineParser.g4:1', 'grammar.note', 'grammar-note-sequence',
              'grammar: note = duration? pitch alteration?, rest = duration? r (signifiers anywhere)',
              f'grammar order changed: note {note_seq}, rest {rest_seq}')
    ok = members['DURATION'] < members['PITCH'] < members['ALTERATION'] and members['DURATION'] < members['REST']
    ctx.check(ok, rule, tc.loc, tc.qualname, 'category-ranks',
              f'category ranks follow the grammar order: DURATION({members["DURATION"]}) < PITCH({members["PITCH"]}) < '
              f'ALTERATION({members["ALTERATION"]}), DURATION < REST({members["REST"]})',
              'the category ranks used as the primary sort key do not follow the grammar order duration, pitch, alteration')
    pd = []
    seen_keys = set()
    for j, ep in joins:
        have, key, rev = _effective_sort(j.seq)
        if j.seq.source == 'self.pitch_duration_subtokens' and have and (src(key) if key is not None else None, rev) not in seen_keys:
            seen_keys.add((src(key) if key is not None else None, rev))
            pd.append((j, key, rev))
    for j, key, rev in pd:
        at = f'{fi.module.relpath}:{j.seq.node.lineno if j.seq.node is not None else j.node.lineno}'
        elem_only, enc, cat, only_cat, primary_ok = key_facts(ctx, key, fi)
        if not cat:
            ctx.violation(rule, at, fi.qualname, 'pitch-duration-key-without-category',
                          f'the pitch/duration sub-tokens are not ordered by category first (key `{src(key) if key is not None else None}`)')
            continue
        # category must be the primary component
        ctx.check(primary_ok and not rev, rule, at, fi.qualname, 'category-primary-key', 'the category rank is the primary, ascending sort key')
        if only_cat:
            ctx.holds(rule, at, fi.qualname, 'inside one category the (stable) sort keeps the listener order, which is the grammar order')
            continue
        # the key compares encodings inside a category: evaluate on the duration parts
        seq = g.sequence_rules('duration')
        firsts = [(name, g.first_chars(name)) for name, q in seq]
        groups = []   # grammar order: number, dots, (grace | appoggiatura)
        groups.append(firsts[0][1])
        groups.append(firsts[1][1])
        groups.append(set().union(*[f for _, f in firsts[2:]]))
        bad = []
        for i in range(len(groups) - 1):
            for a in groups[i]:
                for b in groups[i + 1]:
                    if not (a < b):
                        bad.append((a, b))
        bad.sort()
        ctx.check(not bad, rule, at, fi.qualname, 'duration-parts-reordered',
                  'comparing encodings keeps the grammar order of the duration parts',
                  f'the key `{src(key)}` compares encodings inside the DURATION category: {bad[0][1]!r} sorts before {bad[0][0]!r}, so a '
                  f'dotted duration is exported dot first (`4.c` -> `.4c`), which re-imports as a different token (`4c.`) - the export '
                  f'is not a fixed point and a dot can be lost (`16..r` -> `..16r` -> `16r.`)')
    ctx.expect_count(rule, 'sorted pitch/duration joins', len(pd), 1)
    # listener builds the duration sub-tokens in grammar order
    ed = ctx.prog.func(f'{LST}.exitDuration')
    orders = set()
    for cond, items, sp in F.list_content(ed, 'self.duration_subtokens'):
        order = []
        for it in items:
            text = ' '.join(src(x) for x in it[1:] if isinstance(x, ast.AST))
            hit = [k for k in ('modernDuration', 'augmentationDot', 'graceNote', 'appoggiatura') if f'ctx.{k}()' in text]
            order.append(hit[0] if len(hit) == 1 else f'?{text[:30]}')
        orders.add(tuple(order))
    okl = bool(orders)
    for order in orders:
        ranks = [{'modernDuration': 0, 'augmentationDot': 1, 'graceNote': 2, 'appoggiatura': 2}.get(k, -1) for k in order]
        okl = okl and -1 not in ranks and ranks == sorted(ranks) and ranks[:2] == [0, 1]
    ctx.check(okl, rule, ed.loc,
              ed.qualname, 'listener-duration-order', 'exitDuration builds number, dots, grace/appoggiatura in grammar order',
              f'exitDuration reads {sorted(orders)[-1] if orders else None}')
    # signifiers after the pitch part
    ok_after = True
    n_with_deco = 0
    for ep in eps:
        order = [p.seq.source for p in ep.all_pieces() if p.kind == 'join']
        di = [k for k, x in enumerate(order) if x == 'self.decoration_subtokens']
        pi = [k for k, x in enumerate(order) if x == 'self.pitch_duration_subtokens']
        if di:
            n_with_deco += 1
            if pi and max(pi) > min(di):
                ok_after = False
    ctx.check(ok_after and n_with_deco > 0, rule, fi.loc, fi.qualname, 'decorations-after-pitch',
              'the signifier part follows the duration/pitch part on every path')


# --------------------------------------------------------------------------- R4
def r4_separators(ctx):
    sep = {'TOKEN_SEPARATOR': ctx.ce.module_const(N.TOKENS, 'TOKEN_SEPARATOR'),
           'DECORATION_SEPARATOR': ctx.ce.module_const(N.TOKENS, 'DECORATION_SEPARATOR')}
    pf = ctx.prog.func(f'{N.TOKENIZERS}.KernTokenizer.tokenize')
    if pf.cls is not None and pf.cls.name != 'KernTokenizer' and pf.cls.qualname not in ctx.prog.normalizer.known:
        pf, rets = F.class_returns(ctx, ctx.prog.cls(f'{N.TOKENIZERS}.KernTokenizer'), 'tokenize')
    else:
        rets = symex.returns(pf)
    for cond, val, sp in rets:
        core, removed = c04._replace_chain(ctx, pf, val)
        deleted = {a for a, b in (removed or []) if b == ''}
        ctx.check(core is not None and set(sep.values()) <= deleted, 'R4', pf.loc, pf.qualname, 'plain-erases-separators',
                  'the plain kern tokenizer erases both separator constants', f'KernTokenizer deletes {sorted(deleted)}')
    c20.check_get_kern_from_ekern(ctx, 'R4')
