"""C09 - Transposition is exact interval arithmetic (decided: finite obligations, enumerated completely)."""
from __future__ import annotations

import ast

from ..errors import AnalysisError
from ..model import src
from .. import names as N
from .. import facts as F
from .. import guards as G
from .. import symex
from ..affine import affine, split_cases, NotAffine, Aff

STEP = {'C': 0, 'D': 1, 'E': 2, 'F': 3, 'G': 4, 'A': 5, 'B': 6}
SEMI = {'C': 0, 'D': 2, 'E': 4, 'F': 5, 'G': 7, 'A': 9, 'B': 11}
MAJOR_SEMI = [0, 2, 4, 5, 7, 9, 11]
PERFECT = {1, 4, 5}
Q_PERFECT = {'dd': -2, 'd': -1, 'P': 0, 'A': 1, 'AA': 2}
Q_MAJOR = {'dd': -3, 'd': -2, 'm': -1, 'M': 0, 'A': 1, 'AA': 2}


def expected_intervals():
    exp = {}
    for n in range(1, 8):
        q = Q_PERFECT if n in PERFECT else Q_MAJOR
        for name, d in q.items():
            exp[f'{name}{n}'] = 4 * (n - 1) + MAJOR_SEMI[n - 1] + d
    exp['octave'] = 4 * 7 + 12
    return exp


def _dict_literal_node(ctx, modname, name):
    node, mod = ctx.prog.const_node(modname, name)
    return node, mod


def run(ctx):
    ctx.level = 'proof'
    ctx.exhaustive = True
    ctx.explanation = (
        'Static decision of C09: the 39-entry chroma table and the 40-entry interval table are evaluated from the AST '
        '(no import) and compared entry by entry with an independent letter/semitone model '
        '(chroma = c + 4*step + semitone + alteration; interval = 4*dstep + dsemitone); the inverse tables, the base-40 '
        'affine arithmetic of get_chroma/to_transposed (same modulus at all sites, sign of the direction) and the delegation '
        'chain transpose -> transpose_agnostics -> AgnosticPitch.to_transposed are checked on origins. Because the chroma map '
        'is injective and affine in (steps, semitones) with coefficients (4,1), these finite obligations imply the statement '
        'for every pitch, interval and direction whose result is spellable; inverse, identity, octave and P4+P5 laws are '
        'derived obligations. The obligations are enumerated completely (exhaustive).')
    ctx.trusted_base = ['CPython ast module', 'kpsa constant evaluator and affine normaliser',
                        'Python int semantics of + - * // %, dict lookup']
    ctx.not_decided = ['the string codec around the arithmetic (that is C16)']
    r1_chromas(ctx)
    r2_intervals(ctx)
    B = r3_arithmetic(ctx)
    r4_delegation(ctx)
    from . import c16
    ctx.alias = {'R2': 'R5', 'R3': 'R5'}
    c16.r2_octave(ctx)           # transpose() reads and writes pitches with the Humdrum codec: it must be the exact inverse pair
    c16.r3_alphabets(ctx)
    ctx.alias = {}
    r6_american_reader(ctx)
    from . import shared as _sh
    _sh.no_memoised_mutable_results(ctx, 'R4', [f'{N.TRANSPOSER}.transpose_agnostics', f'{N.TRANSPOSER}.transpose',
                                                f'{N.PITCH}.AgnosticPitch.to_transposed', f'{N.TRANSPOSER}.transpose_encoding_to_agnostic'])
    ctx.extra['base'] = B


# --------------------------------------------------------------------------- R1
def r1_chromas(ctx):
    node, mod = _dict_literal_node(ctx, N.PITCH, 'Chromas')
    at = f'{mod.relpath}:{node.lineno}'
    fn = f'{N.PITCH}.Chromas'
    chromas = ctx.ce.module_const(N.PITCH, 'Chromas')
    if not isinstance(chromas, dict):
        raise AnalysisError('Chromas is not a dict')
    if isinstance(node, ast.Dict):
        ctx.check(len(node.keys) == len(chromas), 'R1', at, fn, 'chromas-duplicate-key',
                  f'no duplicate key in the Chromas literal ({len(node.keys)} keys)')
    ctx.expect_count('R1', 'Chromas entries', len(chromas), 35)
    if 'C' not in chromas:
        ctx.violation('R1', at, fn, 'chromas-missing:C', "entry 'C' missing: offset cannot be read")
        return
    c = chromas['C']
    for name, val in chromas.items():
        letter, alt = name[:1], name[1:]
        ok_shape = letter in STEP and (set(alt) <= {'+'} or set(alt) <= {'-'})
        if not ok_shape:
            ctx.violation('R1', at, fn, f'chromas-entry:{name}', f'entry {name!r} is not letter + homogeneous accidentals')
            continue
        a = len(alt) if '+' in alt else -len(alt)
        exp = c + 4 * STEP[letter] + SEMI[letter] + a
        ctx.check(val == exp, 'R1', at, fn, f'chromas-entry:{name}',
                  f'Chromas[{name!r}] = {val} = {c} + 4*{STEP[letter]} + {SEMI[letter]} + ({a})',
                  f'Chromas[{name!r}] = {val} but the letter/semitone model gives {exp}')
    for letter in STEP:
        for a in (-2, -1, 0, 1, 2):
            name = letter + ('+' * a if a > 0 else '-' * (-a))
            ctx.check(name in chromas, 'R1', at, fn, f'chromas-missing:{name}',
                      f'spelling {name!r} (<= 2 accidentals) present', f'spelling {name!r} missing from Chromas')
    vals = list(chromas.values())
    ctx.check(len(set(vals)) == len(vals) and all(isinstance(v, int) and 0 <= v < 40 for v in vals),
              'R1', at, fn, 'chromas-injective', 'values pairwise distinct and within [0, 40)')
    inv = ctx.ce.module_const(N.PITCH, 'ChromasByValue')
    n2, m2 = _dict_literal_node(ctx, N.PITCH, 'ChromasByValue')
    ctx.check(isinstance(inv, dict) and dict(inv) == {v: k for k, v in chromas.items()}, 'R1',
              f'{m2.relpath}:{n2.lineno}', f'{N.PITCH}.ChromasByValue', 'chromas-inverse',
              'ChromasByValue is the exact inverse of Chromas')


# --------------------------------------------------------------------------- R2
def r2_intervals(ctx):
    node, mod = _dict_literal_node(ctx, N.TRANSPOSER, 'Intervals')
    at = f'{mod.relpath}:{node.lineno}'
    fn = f'{N.TRANSPOSER}.Intervals'
    iv = ctx.ce.module_const(N.TRANSPOSER, 'Intervals')
    if not isinstance(iv, dict):
        raise AnalysisError('Intervals is not a dict')
    if isinstance(node, ast.Dict):
        ctx.check(len(node.keys) == len(iv), 'R2', at, fn, 'intervals-duplicate-key',
                  f'no duplicate key in the Intervals literal ({len(node.keys)} keys)')
    exp = expected_intervals()
    by_name = {}
    for k, v in iv.items():
        if v in by_name:
            ctx.violation('R2', at, fn, f'intervals-duplicate-name:{v}', f'interval name {v!r} occurs twice')
        by_name[v] = k
    for name, val in exp.items():
        if name not in by_name:
            ctx.violation('R2', at, fn, f'intervals-missing:{name}', f'interval {name!r} missing')
            continue
        ctx.check(by_name[name] == val, 'R2', at, fn, f'intervals-entry:{name}',
                  f'{name} = {val} = 4*dstep + dsemitone',
                  f'{name} = {by_name[name]} but 4*dstep + dsemitone = {val}')
    for name in by_name:
        if name not in exp:
            ctx.violation('R2', at, fn, f'intervals-extra:{name}', f'unexpected interval name {name!r}')
    ibn = ctx.ce.module_const(N.TRANSPOSER, 'IntervalsByName')
    n2, m2 = _dict_literal_node(ctx, N.TRANSPOSER, 'IntervalsByName')
    ctx.check(isinstance(ibn, dict) and dict(ibn) == {v: k for k, v in iv.items()}, 'R2',
              f'{m2.relpath}:{n2.lineno}', f'{N.TRANSPOSER}.IntervalsByName', 'intervals-inverse',
              'IntervalsByName is the exact inverse of Intervals')
    av = ctx.ce.module_const(N.TRANSPOSER, 'AVAILABLE_INTERVALS')
    n3, m3 = _dict_literal_node(ctx, N.TRANSPOSER, 'AVAILABLE_INTERVALS')
    ctx.check(list(av) == sorted(exp.keys()), 'R2', f'{m3.relpath}:{n3.lineno}',
              f'{N.TRANSPOSER}.AVAILABLE_INTERVALS', 'available-intervals',
              'AVAILABLE_INTERVALS is the sorted list of the 40 interval names')
    if all(n in by_name for n in ('P1', 'octave', 'P4', 'P5')):
        ctx.check(by_name['P1'] == 0 and by_name['octave'] == 40 and by_name['P4'] + by_name['P5'] == by_name['octave'],
                  'R2', at, fn, 'intervals-laws', 'derived laws: P1 = 0, octave = 40 = 4*7 + 12, P4 + P5 = octave')
    # the public re-export must be the same objects
    for pub in ('Intervals', 'IntervalsByName', 'AVAILABLE_INTERVALS'):
        b = ctx.prog.resolve(ctx.prog.module('kernpy'), pub)
        ok = b is not None and b.kind == 'assign' and b.module.name == N.TRANSPOSER
        ctx.check(ok, 'R2', at, f'kernpy.{pub}', f'public-reexport:{pub}',
                  f'kernpy.{pub} is the constant defined in transposer.py')


# --------------------------------------------------------------------------- R3
def _table_term(ctx, fi, table_names):
    def term(node):
        if isinstance(node, ast.Subscript) and isinstance(node.value, ast.Name):
            b = ctx.prog.resolve(fi.module, node.value.id)
            if b is not None and b.kind == 'assign' and b.module.name == N.PITCH and node.value.id in table_names:
                return f'{node.value.id}[{src(node.slice)}]'
        return None
    return term


def _const(ctx, fi):
    def const(node):
        if isinstance(node, (ast.Name, ast.Attribute)):
            base = node
            while isinstance(base, ast.Attribute):
                base = base.value
            if isinstance(base, ast.Name) and base.id in fi.all_params and base.id not in ('cls',):
                return False, None
            return ctx.ce.try_eval(node, fi.module, fi.cls, {})
        return False, None
    return const


def r3_arithmetic(ctx):
    AP = f'{N.PITCH}.AgnosticPitch'
    gc = ctx.prog.func(f'{AP}.get_chroma')
    self_p = gc.params[0]
    rets = symex.returns(gc)
    B = None
    if len(rets) != 1:
        ctx.violation('R3', gc.loc, gc.qualname, 'get_chroma-paths', f'{len(rets)} return paths; expected one affine expression')
    else:
        _, val, _ = rets[0]
        try:
            a = affine(val, _const(ctx, gc), _table_term(ctx, gc, {'Chromas'}))
            look = f'Chromas[{self_p}.name]'
            octv = f'{self_p}.octave'
            B = a.coef(octv)
            ok = a.coef(look) == 1 and a.const == 0 and set(a.terms) == {look, octv} and B == 40
            ctx.check(ok, 'R3', gc.loc, gc.qualname, 'get_chroma-affine',
                      f'get_chroma = 40*octave + Chromas[name] (affine form {a.key()})',
                      f'get_chroma is `{a.key()}`, expected 40*{octv} + {look}')
        except NotAffine as e:
            ctx.violation('R3', gc.loc, gc.qualname, 'get_chroma-affine', f'get_chroma is not affine: {e}')
    tt = ctx.prog.func(f'{AP}.to_transposed')
    params = tt.params  # cls, agnostic_pitch, raw_interval, direction
    if len(params) < 4:
        raise AnalysisError(f'{tt.loc}: to_transposed signature changed: {params}')
    _, p_pitch, p_int, p_dir = params[:4]
    rets = symex.returns(tt)
    UP = ctx.ce.eval(ast.parse('Direction.UP.value', mode='eval').body, tt.module)
    DOWN = ctx.ce.eval(ast.parse('Direction.DOWN.value', mode='eval').body, tt.module)
    chroma_term = f'{p_pitch}.get_chroma()'
    n_cases = 0
    for cond, val, sp in rets:
        val = F.fold(ctx, val, tt)
        condn = F.fold(ctx, F._conj_node(sp), tt) if sp.conds else None
        cls = F.constructed_class(ctx, val, tt)
        if cls is None or cls.qualname != AP:
            ctx.violation('R3', f'{tt.module.relpath}:{sp.path.end_node.lineno}', tt.qualname, 'to_transposed-returns',
                          f'returns `{src(val)}`, expected a new AgnosticPitch(name, octave)')
            continue
        init = ctx.prog.find_method(cls, '__init__')
        b = F.bind_args(val, init, True)
        if 'name' not in b or 'octave' not in b:
            raise AnalysisError(f'{tt.loc}: AgnosticPitch(...) arguments not recognised')
        whole = ast.Tuple(elts=[b['name'], b['octave']], ctx=ast.Load())
        if condn is not None:
            whole = ast.IfExp(test=condn, body=whole, orelse=ast.Constant(value=None))
        for g, e in split_cases(whole):
            if isinstance(e, ast.Constant):
                continue
            n_cases += 1
            name_e, oct_e = e.elts
            at = f'{tt.module.relpath}:{sp.path.end_node.lineno}'
            # which direction(s) does this case cover?
            ats = G.atoms_of(g)
            up_atom = G._cmp_atom(ast.Name(id=p_dir), ast.Eq(), ast.Constant(value=UP))[1]
            down_atom = G._cmp_atom(ast.Name(id=p_dir), ast.Eq(), ast.Constant(value=DOWN))[1]
            unknown = [x for x in ats if x not in (up_atom, down_atom)]
            if unknown:
                ctx.violation('R3', at, tt.qualname, 'to_transposed-guard',
                              f'the transposed pitch depends on `{unknown[0]}`, not only on the direction')
                continue
            dirs = []
            for d, valn in (('up', {up_atom: True, down_atom: False}), ('down', {up_atom: False, down_atom: True})):
                if G.evaluate(g, {k: valn[k] for k in ats}):
                    dirs.append(d)
            if not dirs:
                continue
            # name = ChromasByValue[X % B], octave = X // B
            ok_shape = (isinstance(name_e, ast.Subscript) and isinstance(name_e.value, ast.Name)
                        and name_e.value.id == 'ChromasByValue'
                        and ctx.prog.resolve(tt.module, 'ChromasByValue') is not None
                        and ctx.prog.resolve(tt.module, 'ChromasByValue').module.name == N.PITCH)
            if not ok_shape:
                ctx.violation('R3', at, tt.qualname, 'to_transposed-name',
                              f'name is `{src(name_e)}`, expected ChromasByValue[chroma % 40]')
                continue
            idx, octn = name_e.slice, oct_e
            # divmod idiom: divmod(X, B)[0] / [1]
            X1, B1 = _divmod_part(idx, 'mod')
            X2, B2 = _divmod_part(octn, 'div')
            if X1 is None or X2 is None:
                ctx.violation('R3', at, tt.qualname, 'to_transposed-divmod',
                              f'index `{src(idx)}` / octave `{src(octn)}` are not chroma % B and chroma // B')
                continue
            try:
                cst = _const(ctx, tt)
                a1, a2 = affine(X1, cst), affine(X2, cst)
                b1, b2 = affine(B1, cst), affine(B2, cst)
            except NotAffine as ex:
                ctx.violation('R3', at, tt.qualname, 'to_transposed-affine', f'not affine: {ex}')
                continue
            okB = b1.is_const() and b2.is_const() and b1.const == b2.const == 40 and (B is None or B == b1.const)
            ctx.check(okB, 'R3', at, tt.qualname, 'to_transposed-base',
                      f'same base 40 in `% {b1.key()}`, `// {b2.key()}` and get_chroma',
                      f'base mismatch: % {b1.key()}, // {b2.key()}, get_chroma uses {B}')
            ctx.check(a1 == a2, 'R3', at, tt.qualname, 'to_transposed-same-chroma',
                      'name and octave are decoded from the same chroma value',
                      f'name uses `{a1.key()}` but octave uses `{a2.key()}`')
            for d in dirs:
                sign = 1 if d == 'up' else -1
                ok = (a1.coef(chroma_term) == 1 and a1.coef(p_int) == sign and a1.const == 0
                      and set(a1.terms) == {chroma_term, p_int})
                ctx.check(ok, 'R3', at, tt.qualname, f'to_transposed-sign:{d}',
                          f'direction {d}: chroma\' = chroma {"+" if sign > 0 else "-"} interval',
                          f'direction {d}: chroma\' = `{a1.key()}`, expected {chroma_term} {"+" if sign > 0 else "-"} {p_int}')
    ctx.expect_count('R3', 'to_transposed cases', n_cases, 1)
    return B


def _divmod_part(node, which):
    if isinstance(node, ast.BinOp) and isinstance(node.op, ast.Mod if which == 'mod' else ast.FloorDiv):
        return node.left, node.right
    if isinstance(node, ast.Subscript) and isinstance(node.value, ast.Call) and isinstance(node.value.func, ast.Name) \
            and node.value.func.id == 'divmod' and isinstance(node.slice, ast.Constant) and len(node.value.args) == 2:
        if node.slice.value == (1 if which == 'mod' else 0):
            return node.value.args[0], node.value.args[1]
    return None, None


# --------------------------------------------------------------------------- R4
def r4_delegation(ctx):
    tr = ctx.prog.func(f'{N.TRANSPOSER}.transpose')
    ta = ctx.prog.func(f'{N.TRANSPOSER}.transpose_agnostics')
    tt = ctx.prog.func(f'{N.PITCH}.AgnosticPitch.to_transposed')
    # transpose_agnostics -> AgnosticPitch.to_transposed(input_pitch, interval, direction)
    rets = symex.returns(ta)
    p_pitch, p_int, p_dir = ta.params[:3]
    for cond, val, sp in rets:
        at = f'{ta.module.relpath}:{sp.path.end_node.lineno if sp.path.end_node else ta.node.lineno}'
        r = F.callee(ctx, val, ta) if isinstance(val, ast.Call) else None
        if not (r and r[0] == 'def' and r[1] is tt):
            ctx.violation('R4', at, ta.qualname, 'transpose_agnostics-delegation',
                          f'returns `{src(val)}`, expected AgnosticPitch.to_transposed(...)')
            continue
        b = F.bind_args(val, tt, True)
        tp = tt.params[1:4]
        ok = (F.is_name(b.get(tp[0]), p_pitch) and F.is_name(b.get(tp[1]), p_int) and F.is_name(b.get(tp[2]), p_dir))
        if not ok and F.is_name(b.get(tp[0]), p_pitch) and b.get(tp[1]) is not None and b.get(tp[2]) is not None:
            # the sign is decided here and to_transposed is always asked to move 'up': the same signed move when, on the path where the
            # direction equals 'up', the interval is handed over as it is, and negated on the other path
            okd_, dv_ = ctx.ce.try_eval(b[tp[2]], ta.module)
            up_atoms = [a_ for a_ in G.atoms_of(cond) if a_.replace(' ', '') in (f"{p_dir}=='up'", f"{p_dir}==Direction.UP.value", f"Direction.UP.value=={p_dir}")]
            if okd_ and dv_ == 'up' and len(up_atoms) == 1:
                goes_up = F.forced(cond, up_atoms[0], True)
                goes_down = F.forced(cond, up_atoms[0], False)
                iv = src(b[tp[1]]).replace(' ', '')
                if (goes_up and iv == p_int) or (goes_down and iv in (f'-{p_int}', f'-1*{p_int}', f'0-{p_int}')):
                    ctx.holds('R4', at, ta.qualname, f'the sign of the move is decided in transpose_agnostics ({iv} under `{G.show(cond)[:40]}`), '
                                                     f"to_transposed is asked to move 'up' by it")
                    continue
        ctx.check(ok and cond == ('const', True), 'R4', at, ta.qualname, 'transpose_agnostics-args',
                  'pitch, interval and direction reach AgnosticPitch.to_transposed unchanged',
                  f'arguments are `{src(val)}`')
    # transpose: export(transpose_agnostics(import(input_encoding), interval, direction=direction))
    rets = symex.returns(tr)
    names = tr.params
    want = {'input_encoding', 'interval', 'input_format', 'output_format', 'direction'}
    if not want <= set(names):
        raise AnalysisError(f'{tr.loc}: transpose signature changed: {names}')
    for cond, val, sp in rets:
        at = f'{tr.module.relpath}:{sp.path.end_node.lineno if sp.path.end_node else tr.node.lineno}'
        ok, why = _match_transpose(ctx, tr, val, ta)
        ctx.check(ok and cond == ('const', True), 'R4', at, tr.qualname, 'transpose-chain',
                  'transpose = export_pitch[output_format](transpose_agnostics(import_pitch[input_format](input_encoding), '
                  'interval, direction))', f'delegation chain broken: {why}; value `{src(val)}`')
    d = F.param_default(tr, 'direction')
    ok, v = ctx.ce.try_eval(d, tr.module) if d is not None else (False, None)
    ctx.check(ok and v == 'up', 'R4', tr.loc, tr.qualname, 'transpose-default-direction', "default direction is 'up'")
    for fac, fmt_cls in ((f'{N.PITCH}.PitchImporterFactory', 'HumdrumPitchImporter'),
                         (f'{N.PITCH}.PitchExporterFactory', 'HumdrumPitchExporter')):
        fi = ctx.prog.func(f'{fac}.create')
        table = F.dispatch_table(ctx, fi, fi.params[1])
        end, val, sp = table.get('kern', table[Ellipsis])
        c = F.constructed_class(ctx, val, fi) if end == 'return' else None
        glue_call = False
        if c is None and end == 'return' and isinstance(val, ast.Call):
            t_, _b = F._static_callee(ctx, val, fi)
            glue_call = t_ is not None and t_.name != '__init__' and not ctx.prog.is_anchor(t_)
        if c is None and end == 'return' and isinstance(val, ast.Call) and (glue_call or (
                isinstance(val.func, ast.Name) and ctx.prog.resolve(fi.module, val.func.id) is None)):
            # the class is a value taken from a registry and called through a variable: the checker's own interpreter follows the
            # look-up for the constant 'kern' (no repository code runs)
            from ..consteval import Instance, NotConst
            try:
                obj = ctx.ce.eval(ast.parse(f"{fi.cls.name}.create('kern')", mode='eval').body, fi.module, None, {})
            except NotConst as e_:
                raise AnalysisError(f'{fi.loc}: create(\'kern\') returns `{src(val)[:60]}`: the class called is a run-time value ({e_})')
            if not isinstance(obj, Instance):
                raise AnalysisError(f'{fi.loc}: create(\'kern\') evaluates to `{obj!r}`: not followed')
            c = obj.ci
        ctx.check(c is not None and c.name == fmt_cls, 'R4', fi.loc, fi.qualname, f'factory-kern:{fmt_cls}',
                  f"create('kern') returns {fmt_cls}()")
    # public re-export
    b = ctx.prog.resolve(ctx.prog.module('kernpy'), 'transpose')
    ctx.check(b is not None and b.kind == 'def' and b.value is tr, 'R4', tr.loc, 'kernpy.transpose',
              'public-reexport:transpose', 'kernpy.transpose is transposer.transpose')


def _match_transpose(ctx, tr, val, ta):
    # val: <Exporter>.export_pitch(<T>)
    if not (isinstance(val, ast.Call) and isinstance(val.func, ast.Attribute) and val.func.attr == 'export_pitch'
            and len(val.args) == 1):
        return False, 'result is not export_pitch(...) of the transposed pitch'
    exp = val.func.value
    if not (isinstance(exp, ast.Call) and src(exp.func) == 'PitchExporterFactory.create' and len(exp.args) == 1
            and F.is_name(exp.args[0], 'output_format')):
        return False, 'exporter is not PitchExporterFactory.create(output_format)'
    t = val.args[0]
    r = F.callee(ctx, t, tr) if isinstance(t, ast.Call) else None
    if isinstance(t, ast.Call) and not (r and r[0] == 'def' and r[1] is ta):
        # a sibling entry point that is one expression (transpose_encoding_to_agnostic) is looked through once
        t2 = F.expand_call(ctx, t, tr)
        if t2 is not None:
            t = t2
            r = F.callee(ctx, t, tr) if isinstance(t, ast.Call) else None
    if not (r and r[0] == 'def' and r[1] is ta):
        return False, 'exported value is not transpose_agnostics(...)'
    b = F.bind_args(t, ta, False)
    p_pitch, p_int, p_dir = ta.params[:3]
    if not F.is_name(b.get(p_int), 'interval'):
        return False, 'interval not forwarded unchanged'
    if not F.is_name(b.get(p_dir), 'direction'):
        return False, 'direction not forwarded unchanged'
    imp = b.get(p_pitch)
    if not (isinstance(imp, ast.Call) and isinstance(imp.func, ast.Attribute) and imp.func.attr == 'import_pitch'
            and len(imp.args) == 1 and F.is_name(imp.args[0], 'input_encoding')):
        return False, 'pitch is not import_pitch(input_encoding)'
    fac = imp.func.value
    if not (isinstance(fac, ast.Call) and src(fac.func) == 'PitchImporterFactory.create' and len(fac.args) == 1
            and F.is_name(fac.args[0], 'input_format')):
        return False, 'importer is not PitchImporterFactory.create(input_format)'
    return True, ''


# --------------------------------------------------------------------------- R6: the American spelling reader, on its whole domain
def r6_american_reader(ctx):
    """transpose(..., input_format='american') reads `<letter><sharps or flats><octave digits>`.  The reader is a small pure
    function: the checker's own interpreter (no repository code runs) evaluates it for every letter, every run of up to two
    sharps / flats and the octaves 0..9, and compares with the spelling that was written: name = letter + alteration (lower case as
    the reader returns it), octave = the number."""
    from ..consteval import Instance, NotConst
    ci = ctx.prog.cls(f'{N.PITCH}.AmericanPitchImporter')
    f = ctx.prog.find_method(ci, '_parse_pitch')
    if f is None:
        raise AnalysisError(f'anchor vanished: AmericanPitchImporter._parse_pitch')
    bad, n = [], 0
    for letter in 'ABCDEFG':
        for acc in ('', '#', '##', '-', '--', '+', '++', 'b', 'bb'):
            for octave in range(0, 10):
                text = f'{letter}{acc}{octave}'
                try:
                    got = ctx.ce._run_function(f, [Instance(ci), text], {})
                except NotConst as e:
                    raise AnalysisError(f'{f.loc}: the American reader is not a function the interpreter follows ({e})')
                n += 1
                if not (isinstance(got, tuple) and len(got) == 2 and got[0] == (letter + acc).lower() and got[1] == octave):
                    bad.append((text, got))
    ctx.check(not bad, 'R6', f.loc, f.qualname, 'american-reader',
              f'the American reader returns (letter + alteration, octave) for all {n} spellings letter x alteration x octave 0..9',
              f'the American reader misreads {len(bad)} of {n} spellings, e.g. {bad[0][0]!r} -> {bad[0][1]!r}' + (f', {bad[1][0]!r} -> {bad[1][1]!r}' if len(bad) > 1 else '') +
              ': a pitch given in American notation is transposed from another pitch than the one written' if bad else '')
