"""C05 - Category filtering removes exactly the unselected material."""
from __future__ import annotations

import ast

from ..errors import AnalysisError
from ..model import src, walk_local
from ..consteval import EnumMember
from .. import names as N
from .. import facts as F
from .. import guards as G
from .. import symex
from .exporter_facts import RowGate, check_category_gate, check_nullish_tables, EXP


def run(ctx):
    ctx.explanation = (
        'Static rules for C05: (R1) the selected set is TokenCategoryHierarchyMapper.valid(include=kwargs include, exclude=kwargs '
        'exclude) - argument origins unswapped - and the keyword loop cannot overwrite it; None values are skipped; (R2) every '
        'category set that reaches ExportOptions.token_categories from the API or the CLI is descendant-closed (it comes from '
        'valid(...), from the full enum, or is a literal the constant evaluator proves closed under the hierarchy) - a set that is not '
        'closed silently drops every token of a nested category; (R3) the category gate of append_row has the truth table `not hidden '
        "and (ComplexToken or category in token_categories)`, its false branch appends the placeholder ('*' under SIGNATURES, '.' "
        'otherwise); (R4) placeholder / null-row table agreement; (R5) NoteRestToken.export and CompoundToken.export apply the '
        'predicate to the category of every element of every sub-token list, and every tokenizer passes membership in its '
        'token_categories as that predicate. (C11.R5 decides that valid is closure(include) - closure(exclude).)')
    ctx.not_decided = ['equality with the reference filter on whole documents; the effect of `hidden` barlines']
    r1_selected_set(ctx)
    r2_closed_sets(ctx)
    gate = RowGate(ctx)
    check_category_gate(ctx, 'R3', gate)
    for u in gate.unknown:
        ctx.violation('R3', gate.f.loc, gate.f.qualname, f'gate-extra-condition:{" ".join(u.split())[:60]}',
                      f'append_row branches on `{u}`: whether a token is exported no longer depends only on the selection and the token')
    check_nullish_tables(ctx, 'R4')
    r5_subtoken_filter(ctx)
    from . import c11, shared
    ctx.alias = {'R5': 'R6'}
    c11.r5_selection(ctx)     # the selected set is closure(include) - closure(exclude)
    ctx.alias = {}
    shared.effect_free(ctx, 'R6', [f'{N.MAPPER}.valid', f'{N.GENERIC}.Generic.parse_options_to_ExportOptions'],
                       'the selection must not depend on earlier calls nor alter the caller\'s include / exclude sets')
    # "selected material is never altered or reordered": the order of what is left after the filter is the canonical order of the
    # unfiltered export (the sort is applied on every path, whatever the filter leaves) ...
    from . import c01, c06
    ctx.alias = {'R1': 'R7'}
    c01.r1_order_taint(ctx)
    # ... and every cell of every line goes through the gate (no record is skipped as a whole on the category of one of its cells)
    ctx.alias = {'R1': 'R8'}
    c06.r1b_body_loop(ctx)
    # ... and every note of a chord is written, whatever is left of it ("sub-parts of each note are deleted", not the note)
    from . import c04
    ctx.alias = {'R6': 'R9'}
    c04.r6_chords(ctx)
    ctx.alias = {}


def _kwargs_get(node, kw, key):
    s = src(node)
    return s in (f"{kw}.get('{key}', None)", f"{kw}.get('{key}')", f"{kw}['{key}']", f"{kw}.pop('{key}', None)", f"{kw}.pop('{key}')")


def _literalise(ctx, node, fi, env):
    """Names of single-assignment locals and of module / class constants that denote a collection of strings are replaced by
    the literal collection (so that membership tests become comparisons with constants)."""
    node = G.substitute(node, env)

    class T(ast.NodeTransformer):
        def visit_Name(self, n):
            return self._try(n)

        def visit_Attribute(self, n):
            r = self._try(n)
            return r if r is not n else self.generic_visit(n)

        def _try(self, n):
            if not isinstance(getattr(n, 'ctx', None), ast.Load):
                return n
            base = n
            while isinstance(base, ast.Attribute):
                base = base.value
            if isinstance(base, ast.Name) and base.id in fi.all_params and not (
                    base.id in ('self', 'cls') and isinstance(n, ast.Attribute) and isinstance(n.value, ast.Name) and fi.cls is not None
                    and ctx.prog.find_class_attr(fi.cls, n.attr) is not None):
                return n
            ok_, v = ctx.ce.try_eval(n, fi.module, fi.cls, {})
            if ok_ and isinstance(v, (list, tuple, set, frozenset)) and v and all(isinstance(x, str) for x in v):
                return ast.copy_location(ast.Tuple(elts=[ast.Constant(value=x) for x in sorted(v)], ctx=ast.Load()), n)
            return n
    return T().visit(node)


def r1_selected_set(ctx):
    po = ctx.prog.func(f'{N.GENERIC}.Generic.parse_options_to_ExportOptions')
    kw = po.node.args.kwarg.arg if po.node.args.kwarg else None
    if kw is None:
        raise AnalysisError(f'{po.loc}: parse_options_to_ExportOptions no longer takes **kwargs')
    # (a) the selected set: on every path, options.token_categories = valid(include=<include option>, exclude=<exclude option>)
    stores = {}
    for sp in symex.func_sym_paths(po):
        for e in sp.events:
            if e.kind == 'store' and isinstance(e.target, ast.Attribute) and e.target.attr == 'token_categories':
                stores.setdefault(id(e.node), (e.node, []))[1].append(e.expr)
    ctx.expect_count('R1', 'assignment of options.token_categories', len(stores), 1)
    for st, values in stores.values():
        at = f'{po.module.relpath}:{st.lineno}'
        ok = True
        shown = ''
        for call in values:
            shown = src(call)[:120]
            r = F.callee(ctx, call, po) if isinstance(call, ast.Call) else None
            good = False
            if r and r[0] == 'def' and r[1].name == 'valid' and r[1].cls is not None and r[1].cls.qualname in (N.MAPPER, N.TOKCAT):
                b = F.bind_args(call, r[1], True)
                good = b.get('include') is not None and b.get('exclude') is not None \
                    and _kwargs_get(b['include'], kw, 'include') and _kwargs_get(b['exclude'], kw, 'exclude')
            ok = ok and good
        ctx.check(ok, 'R1', at, po.qualname, 'selected-set-origin',
                  'token_categories = valid(include=<include option>, exclude=<exclude option>)',
                  f'token_categories is `{shown}`: not valid(include=include, exclude=exclude) with unswapped origins')
    # (b) every other keyword: copied to the option of the same name iff it is not in the skip list and its value is not None
    sets = [n for n in walk_local(po.node) if isinstance(n, ast.Call) and F.is_name(n.func, 'setattr')]
    ctx.expect_count('R1', 'setattr(options, key, value) site', len(sets), 1)
    env = G.single_assignments(po.node)
    for sc in sets:
        at = f'{po.module.relpath}:{sc.lineno}'
        if not (len(sc.args) == 3 and F.is_name(sc.args[0], 'options') and isinstance(sc.args[1], ast.Name) and isinstance(sc.args[2], ast.Name)):
            ctx.violation('R1', at, po.qualname, 'option-copy-shape', f'`{src(sc)[:80]}` does not copy a keyword to the option of the same name')
            continue
        kv, vv = sc.args[1].id, sc.args[2].id
        loop = None
        for n in walk_local(po.node):
            if isinstance(n, ast.For) and any(x is sc for x in ast.walk(n)) and isinstance(n.target, ast.Tuple) and len(n.target.elts) == 2 \
                    and [getattr(e, 'id', None) for e in n.target.elts] == [kv, vv]:
                loop = n
        if loop is None:
            ctx.violation('R1', at, po.qualname, 'option-copy-loop', 'the keyword copy is not inside a loop over (key, value) pairs')
            continue
        conds = []
        it = loop.iter
        if isinstance(it, ast.Call) and isinstance(it.func, ast.Attribute) and it.func.attr == 'items':
            base = G.substitute(it.func.value, env)
            if isinstance(base, ast.DictComp) and len(base.generators) == 1 and isinstance(base.generators[0].target, ast.Tuple) \
                    and src(base.generators[0].iter) == f'{kw}.items()':
                k2, v2 = (e.id for e in base.generators[0].target.elts)
                if not (F.is_name(base.key, k2) and F.is_name(base.value, v2)):
                    ctx.violation('R1', at, po.qualname, 'option-copy-transforms', 'keys or values are transformed before they are copied')
                    continue
                ren = {k2: ast.Name(id=kv, ctx=ast.Load()), v2: ast.Name(id=vv, ctx=ast.Load())}
                conds += [G.substitute(c, ren, recursive=False) for c in base.generators[0].ifs]
            elif src(base) != kw:
                ctx.violation('R1', at, po.qualname, 'option-copy-source', f'the copied pairs come from `{src(base)[:60]}`, not from the keyword arguments')
                continue
        else:
            ctx.violation('R1', at, po.qualname, 'option-copy-source', f'the copied pairs come from `{src(it)[:60]}`')
            continue
        # path condition inside the loop body
        reach = []
        for sp in symex.sym_paths(loop.body, fi=po):
            hit = [i for i, e in enumerate(sp.events) if e.kind == 'expr' and isinstance(e.node, ast.Expr) and e.node.value is sc]
            if hit:
                before = [(e.expr, e.target) for e in sp.events[:hit[0]] if e.kind == 'cond']
                reach.append(G.conj([G._formula(_literalise(ctx, c if t else ast.UnaryOp(op=ast.Not(), operand=c), po, env))
                                     for c, t in before]))
        fm = G.conj([G._formula(_literalise(ctx, c, po, env)) for c in conds] + [G.disj(reach)])
        naming = {}
        # a key removed from the keyword dict before the loop is skipped by construction
        skipped = set()
        for n_ in walk_local(po.node):
            if isinstance(n_, ast.Call) and isinstance(n_.func, ast.Attribute) and n_.func.attr == 'pop' and F.is_name(n_.func.value, kw) \
                    and n_.args and isinstance(n_.args[0], ast.Constant) and getattr(n_, 'lineno', 0) < loop.lineno:
                skipped.add(n_.args[0].value)
        popped = set(skipped)
        for a in G.atoms_of(fm):
            if a == f'{vv} is None':
                naming[a] = 'none'
                continue
            for k_ in ('include', 'exclude', 'token_categories'):
                if a in (f"'{k_}' == {kv}", f"{kv} == '{k_}'"):
                    naming[a] = k_
                    skipped.add(k_)
        eq, cex, unknown = G.compare(
            fm, lambda v: not any(v.get(k_, False) for k_ in ('include', 'exclude', 'token_categories')) and not v.get('none', False), naming,
            constraints=lambda v: sum(1 for k_ in ('include', 'exclude', 'token_categories') if v.get(k_, False)) <= 1
            and not any(v.get(k_, False) for k_ in popped))
        ok = eq and not unknown and skipped == {'include', 'exclude', 'token_categories'} and 'none' in naming.values()
        why = f'a keyword is copied under `{G.show(fm)[:160]}`'
        if unknown:
            why += (f': the condition `{unknown[0]}` is not `value is not None` - an option passed explicitly with a falsy value '
                    f'(spine_ids=[], spine_types=[], from_measure=0, show_measure_numbers=False) is silently ignored, so an empty '
                    f'selection exports everything')
        if skipped != {'include', 'exclude', 'token_categories'}:
            why += '; include / exclude / token_categories are not all skipped (the computed selection can be overwritten)'
        ctx.check(ok, 'R1', at, po.qualname, 'option-copy-condition',
                  'a keyword is copied to the option of the same name iff it is not include/exclude/token_categories and its value is not None',
                  why)
    # starts from defaults
    okd = any(isinstance(n, ast.Assign) and F.is_name(n.targets[0], 'options') and src(n.value) == 'ExportOptions.default()'
              for n in walk_local(po.node))
    ctx.check(okd, 'R1', po.loc, po.qualname, 'starts-from-defaults', 'options start from ExportOptions.default()')


def _closure(tree, cats):
    out = set()

    def sub(t, inside):
        for k, v in t.items():
            i = inside or k in cats
            if i:
                out.add(k)
            sub(v, i)
    sub(tree, False)
    return out


def category_set_status(ctx, node, f):
    """-> ('closed', why) | ('open', missing) | ('unknown', text)"""
    if node is None or (isinstance(node, ast.Constant) and node.value is None):
        return 'closed', 'default (all categories)'
    if isinstance(node, ast.Call):
        r = F.callee(ctx, node, f)
        if r and r[0] == 'def' and r[1].name == 'valid' and r[1].cls is not None and r[1].cls.qualname in (N.MAPPER, N.TOKCAT):
            return 'closed', 'result of valid(...)'
        if r and r[0] == 'def' and r[1].name == 'all' and r[1].cls is not None and r[1].cls.qualname in (N.MAPPER, N.TOKCAT):
            return 'closed', 'all categories'
    ok, v = ctx.ce.try_eval(node, f.module, f.cls, {})
    if ok and isinstance(v, (set, list, tuple, frozenset)) and all(isinstance(x, EnumMember) for x in v):
        tree = ctx.ce.class_const(N.MAPPER, 'hierarchy')
        cl = _closure(tree, set(v))
        if cl == set(v):
            return 'closed', f'literal set closed under the hierarchy ({len(v)} categories)'
        return 'open', sorted(m.name for m in cl - set(v))
    return 'unknown', src(node)[:80]


def r2_closed_sets(ctx):
    eo = ctx.prog.cls(f'{N.EXPORTER}.ExportOptions')
    init = ctx.prog.find_method(eo, '__init__')
    n = 0
    for f in ctx.prog.all_functions():
        note_only = f.module.name.startswith('kernpy.polish_scores')
        for c in walk_local(f.node):
            if not (isinstance(c, ast.Call) and F.constructed_class(ctx, c, f) is eo):
                continue
            if f.cls is eo and f.name == 'default':
                b = {k.arg: k.value for k in c.keywords}
            else:
                b = F.bind_args(c, init, True)
            n += 1
            at = f'{f.module.relpath}:{c.lineno}'
            status, info = category_set_status(ctx, b.get('token_categories'), f)
            if note_only:
                ctx.note('R2', at, f.qualname, f'token_categories is {status} ({info}) - polish_scores is not reachable from any '
                                               f'observation point of the properties')
                continue
            if status == 'closed':
                ctx.holds('R2', at, f.qualname, f'token_categories is descendant-closed: {info}')
            elif status == 'open':
                ctx.violation('R2', at, f.qualname, 'category-set-not-closed',
                              f'token_categories=`{src(b.get("token_categories"))}` is not descendant-closed (missing {info[:6]}...): '
                              f'the category gate tests plain membership, so every token whose category is a descendant (notes, '
                              f'clefs, headers, ...) is replaced by a placeholder')
            else:
                raise AnalysisError(f'{at}: token_categories `{info}` is neither valid(...) nor a constant set')
    ctx.expect_count('R2', 'ExportOptions constructions', n, 3)


def filtered_element_wise(ctx, rule, f, lst, construct, what):
    """Every read of `self.<lst>` that reaches the text returned by `f` passes, element by element, exactly the predicate
    `filter_categories is None or filter_categories(element.category)` (decided per path, under the path condition)."""
    from .. import seqs
    kw = f.node.args.kwarg.arg if f.node.args.kwarg else None
    if kw is None:
        raise AnalysisError(f'{f.loc}: {f.qualname} no longer takes **kwargs')
    fn = f"{kw}.get('filter_categories')"
    a_none, a_call = f'{fn} is None', f'{fn}({seqs.ELT}.category)'
    pred = ('or', [('atom', a_none), ('atom', a_call)])
    n_reads = 0
    bad = []
    for sp in symex.func_sym_paths(f):
        if sp.end != 'return' or sp.value is None:
            continue
        if any('@iter' in n.id for n in ast.walk(sp.value) if isinstance(n, ast.Name)):
            raise AnalysisError(f'{f.loc}: {f.qualname} builds its result in a loop the element-wise analysis does not follow')
        pm = seqs.parent_map(sp.value)
        pc = sp.condition()
        for occ in seqs.reads_of(sp.value, f'self.{lst}'):
            n_reads += 1
            kind, fm, elt = seqs.consumer_filter(occ, pm)
            if kind == 'slice':
                bad.append(f'`{src(elt)[:60]}` takes a part of self.{lst} (not element by element)')
                continue
            sound, complete, extra = seqs.implies_under(pc, fm, pred)
            extra = [a for a in extra if not a.startswith(f'{seqs.ELT}.category == ') and ' == ' + f'{seqs.ELT}.category' not in a]
            if not sound:
                bad.append(f'an element of self.{lst} passes `{G.show(fm)[:80]}` although the predicate rejects its category '
                           f'(path: {G.show(pc)[:80]})')
            elif not complete and (extra or not _only_category_tests(fm, pred)):
                bad.append(f'an element of self.{lst} that the predicate accepts is dropped by `{G.show(fm)[:80]}` (path: {G.show(pc)[:80]})')
    if n_reads == 0:
        bad.append(f'self.{lst} never reaches the exported text')
    ctx.check(not bad, rule, f.loc, f.qualname, construct, what, '; '.join(sorted(set(bad))[:3]))
    ctx.count(f'{rule}.element-wise reads of {lst}', n_reads)


def _only_category_tests(fm, pred):
    """fm is pred plus tests of the element's category against constants (a per-category selection of an already filtered list
    is decided by the composition rules of C01)."""
    from .. import seqs
    known = set(G.atoms_of(pred))
    return all(a in known or a.startswith(f'{seqs.ELT}.category == ') or a.endswith(f' == {seqs.ELT}.category') for a in G.atoms_of(fm))


def check_no_extra_subtoken_filters(ctx, rule):
    nrt = ctx.prog.func(f'{N.TOKENS}.NoteRestToken.export')
    # the same through the element-wise export model, which composes ALL the filters a list passes before it is joined (a second
    # comprehension over the already filtered list, a filter after the sort): besides the predicate only tests of the element's
    # category may take part - a test on the element's text or on what the OTHER list holds removes selected material
    from . import export_model as EM
    srcs_ = ['self.pitch_duration_subtokens', 'self.decoration_subtokens']
    kw_ = nrt.node.args.kwarg.arg if nrt.node.args.kwarg else 'kwargs'
    known_ = {f"{kw_}.get('filter_categories') is None", f"{kw_}.get('filter_categories')({EM.ELT}.category)"}
    extra_seen = set()
    for ep in EM.export_paths(ctx, nrt, srcs_):
        for j in ep.joins():
            for a_ in G.atoms_of(j.seq.filter()):
                if a_ in known_ or a_.startswith(f'{EM.ELT}.category == ') or a_.endswith(f' == {EM.ELT}.category') \
                        or a_.startswith(f'{EM.ELT}.category in ') or f'{EM.ELT}.category' in a_ and 'encoding' not in a_:
                    continue
                extra_seen.add((j.seq.source.rpartition('.')[2], a_))
    for lst_, a_ in sorted(extra_seen):
        ctx.violation(rule, nrt.loc, nrt.qualname, f'subtoken-extra-filter:{lst_}',
                      f'before it is written, {lst_} is filtered once more by `{a_[:90]}`: a sub-token whose category is selected is dropped '
                      f'(or kept) depending on its text / on what is left of the other list, so the filtered export is not the unfiltered one '
                      f'with the unselected parts deleted')


def r5_subtoken_filter(ctx):
    nrt = ctx.prog.func(f'{N.TOKENS}.NoteRestToken.export')
    for lst in ('pitch_duration_subtokens', 'decoration_subtokens'):
        filtered_element_wise(ctx, 'R5', nrt, lst, f'subtoken-filter:{lst}',
                              f'every element of {lst} is kept iff no predicate is given or predicate(category) holds (whole list, no slice)')
    check_no_extra_subtoken_filters(ctx, 'R5')
    ct = ctx.prog.func(f'{N.TOKENS}.CompoundToken.export')
    filtered_element_wise(ctx, 'R5', ct, 'subtokens', 'subtoken-filter:compound',
                          'CompoundToken.export keeps a sub-token iff no predicate is given or predicate(category) holds')
    # every tokenizer passes membership in its own token_categories
    tk = ctx.prog.module(N.TOKENIZERS)
    n = 0
    for f in ctx.prog.all_functions():
        if f.module is not tk or f.name != 'tokenize':
            continue
        env = G.single_assignments(f.node)
        for c in walk_local(f.node):
            if isinstance(c, ast.Call) and isinstance(c.func, ast.Attribute) and c.func.attr == 'export':
                kws = {k.arg: k.value for k in c.keywords}
                fc = kws.get('filter_categories')
                n += 1
                cb = F.callable_body(ctx, G.substitute(fc, env), f) if fc is not None else None
                ok = cb is not None and len(cb[0]) == 1 and src(cb[1]) == f'{cb[0][0]} in self.token_categories'
                ctx.check(ok, 'R5', f'{f.module.relpath}:{c.lineno}', f.qualname, 'tokenizer-predicate',
                          'the tokenizer passes `category in self.token_categories` as the sub-token predicate',
                          f'the tokenizer passes `{src(fc)[:80] if fc is not None else None}` as the predicate')
    ctx.expect_count('R5', 'token.export calls in the tokenizers', n, 3)
    tf = ctx.prog.func(f'{N.TOKENIZERS}.Tokenizer.__init__')
    okt = any(isinstance(x, ast.Assign) and src(x.targets[0]) == 'self.token_categories' and src(x.value) == 'token_categories'
              for x in walk_local(tf.node))
    ctx.check(okt, 'R5', tf.loc, tf.qualname, 'tokenizer-stores-categories', 'Tokenizer stores the category set it is given')
    et = ctx.prog.func(f'{EXP}.export_token')
    calls = [c for c in walk_local(et.node) if isinstance(c, ast.Call) and isinstance(c.func, ast.Attribute) and c.func.attr == 'create'
             and src(c.func.value) == 'TokenizerFactory']
    okc = len(calls) >= 1 and all(any(k.arg == 'token_categories' and src(k.value) == 'options.token_categories' for k in c_.keywords)
                                  for c_ in calls)
    ctx.check(okc, 'R5', et.loc, et.qualname, 'export-token-forwards-categories', 'export_token hands options.token_categories to the tokenizer')
