"""C05 - Category filtering removes exactly the unselected material."""
from __future__ import annotations

import ast

from ..errors import AnalysisError
from ..model import src, walk_local
from ..consteval import EnumMember
from .. import names as N
from .. import facts as F
from .. import guards as G
from .. import symex
from .exporter_facts import RowGate, check_category_gate, check_nullish_tables, EXP


def run(ctx):
    ctx.explanation = (
        'Static rules for C05: (R1) the selected set is TokenCategoryHierarchyMapper.valid(include=kwargs include, exclude=kwargs '
        'exclude) - argument origins unswapped - and the keyword loop cannot overwrite it; None values are skipped; (R2) every '
        'category set that reaches ExportOptions.token_categories from the API or the CLI is descendant-closed (it comes from '
        'valid(...), from the full enum, or is a literal the constant evaluator proves closed under the hierarchy) - a set that is not '
        'closed silently drops every token of a nested category; (R3) the category gate of append_row has the truth table `not hidden '
        "and (ComplexToken or category in token_categories)`, its false branch appends the placeholder ('*' under SIGNATURES, '.' "
        'otherwise); (R4) placeholder / null-row table agreement; (R5) NoteRestToken.export and CompoundToken.export apply the '
        'predicate to the category of every element of every sub-token list, and every tokenizer passes membership in its '
        'token_categories as that predicate. (C11.R5 decides that valid is closure(include) - closure(exclude).)')
    ctx.not_decided = ['equality with the reference filter on whole documents; the effect of `hidden` barlines']
    r1_selected_set(ctx)
    r2_closed_sets(ctx)
    gate = RowGate(ctx)
    check_category_gate(ctx, 'R3', gate)
    for u in gate.unknown:
        ctx.violation('R3', gate.f.loc, gate.f.qualname, f'gate-extra-condition:{" ".join(u.split())[:60]}',
                      f'append_row branches on `{u}`: whether a token is exported no longer depends only on the selection and the token')
    check_nullish_tables(ctx, 'R4')
    r5_subtoken_filter(ctx)
    from . import c11, shared
    ctx.alias = {'R5': 'R6'}
    c11.r5_selection(ctx)     # the selected set is closure(include) - closure(exclude)
    ctx.alias = {}
    shared.effect_free(ctx, 'R6', [f'{N.MAPPER}.valid', f'{N.GENERIC}.Generic.parse_options_to_ExportOptions'],
                       'the selection must not depend on earlier calls nor alter the caller\'s include / exclude sets')


def _kwargs_get(node, kw, key):
    s = src(node)
    return s in (f"{kw}.get('{key}', None)", f"{kw}.get('{key}')", f"{kw}['{key}']")


def r1_selected_set(ctx):
    po = ctx.prog.func(f'{N.GENERIC}.Generic.parse_options_to_ExportOptions')
    kw = po.node.args.kwarg.arg if po.node.args.kwarg else None
    if kw is None:
        raise AnalysisError(f'{po.loc}: parse_options_to_ExportOptions no longer takes **kwargs')
    valid = ctx.prog.func(f'{N.MAPPER}.valid')
    stores = [n for n in walk_local(po.node) if isinstance(n, ast.Assign) and len(n.targets) == 1
              and isinstance(n.targets[0], ast.Attribute) and n.targets[0].attr == 'token_categories']
    ctx.expect_count('R1', 'assignment of options.token_categories', len(stores), 1)
    for st in stores:
        at = f'{po.module.relpath}:{st.lineno}'
        call = st.value
        r = F.callee(ctx, call, po) if isinstance(call, ast.Call) else None
        ok = False
        if r and r[0] == 'def' and r[1].name == 'valid' and r[1].cls is not None and r[1].cls.qualname in (N.MAPPER, N.TOKCAT):
            b = F.bind_args(call, r[1], True)
            ok = b.get('include') is not None and b.get('exclude') is not None \
                and _kwargs_get(b['include'], kw, 'include') and _kwargs_get(b['exclude'], kw, 'exclude')
        ctx.check(ok, 'R1', at, po.qualname, 'selected-set-origin',
                  'token_categories = valid(include=<include option>, exclude=<exclude option>)',
                  f'token_categories is `{src(call)[:120]}`: not valid(include=include, exclude=exclude) with unswapped origins')
    # every other keyword: copied to the option of the same name iff it is not in the skip list and its value is not None
    sets = [n for n in walk_local(po.node) if isinstance(n, ast.Call) and F.is_name(n.func, 'setattr')]
    ctx.expect_count('R1', 'setattr(options, key, value) site', len(sets), 1)
    for sc in sets:
        at = f'{po.module.relpath}:{sc.lineno}'
        if not (len(sc.args) == 3 and F.is_name(sc.args[0], 'options') and isinstance(sc.args[1], ast.Name) and isinstance(sc.args[2], ast.Name)):
            ctx.violation('R1', at, po.qualname, 'option-copy-shape', f'`{src(sc)[:80]}` does not copy a keyword to the option of the same name')
            continue
        kv, vv = sc.args[1].id, sc.args[2].id
        loop = None
        for n in walk_local(po.node):
            if isinstance(n, ast.For) and sc in list(ast.walk(n)) and isinstance(n.target, ast.Tuple) and len(n.target.elts) == 2 \
                    and [getattr(e, 'id', None) for e in n.target.elts] == [kv, vv]:
                loop = n
        if loop is None:
            ctx.violation('R1', at, po.qualname, 'option-copy-loop', 'the keyword copy is not inside a loop over (key, value) pairs')
            continue
        conds = []
        it = loop.iter
        env = G.single_assignments(po.node)
        if isinstance(it, ast.Call) and isinstance(it.func, ast.Attribute) and it.func.attr == 'items':
            base = G.substitute(it.func.value, env)
            if isinstance(base, ast.DictComp) and len(base.generators) == 1 and isinstance(base.generators[0].target, ast.Tuple) \
                    and src(base.generators[0].iter) == f'{kw}.items()':
                k2, v2 = (e.id for e in base.generators[0].target.elts)
                if not (F.is_name(base.key, k2) and F.is_name(base.value, v2)):
                    ctx.violation('R1', at, po.qualname, 'option-copy-transforms', 'keys or values are transformed before they are copied')
                    continue
                ren = {k2: ast.Name(id=kv, ctx=ast.Load()), v2: ast.Name(id=vv, ctx=ast.Load())}
                conds += [G.substitute(c, ren, recursive=False) for c in base.generators[0].ifs]
            elif src(base) != kw:
                ctx.violation('R1', at, po.qualname, 'option-copy-source', f'the copied pairs come from `{src(base)[:60]}`, not from the keyword arguments')
                continue
        else:
            ctx.violation('R1', at, po.qualname, 'option-copy-source', f'the copied pairs come from `{src(it)[:60]}`')
            continue
        # path condition inside the loop body
        reach = []
        for sp in symex.sym_paths(loop.body):
            if any(e.kind == 'expr' and e.node is not None and isinstance(e.node, ast.Expr) and e.node.value is sc for e in sp.events):
                vals = [n_ if t else ast.UnaryOp(op=ast.Not(), operand=n_) for n_, t in sp.path.conds()]
                # only the conditions evaluated before the setattr matter: all of them on this path precede it or follow it; keep all
                reach.append(G.conj([G._formula(v) for v in vals]) if vals else ('const', True))
        fm = G.conj([G._formula(c) for c in conds] + [G.disj(reach)])
        naming = {}
        skip = None
        for a in G.atoms_of(fm):
            if a == f'{vv} is None':
                naming[a] = 'none'
            elif a.startswith(f'{kv} in '):
                try:
                    node = ast.parse(a[len(f'{kv} in '):], mode='eval').body
                    ok_, v = ctx.ce.try_eval(G.substitute(node, env), po.module)
                    if ok_ and {'include', 'exclude', 'token_categories'} <= set(v):
                        naming[a] = 'skip'
                        skip = set(v)
                except SyntaxError:
                    pass
        eq, cex, unknown = G.compare(fm, lambda v: (not v.get('skip', False)) and (not v.get('none', False)), naming)
        ok = eq and not unknown and 'skip' in naming.values() and 'none' in naming.values()
        why = f'a keyword is copied under `{G.show(fm)[:160]}`'
        if unknown:
            why += (f': the condition `{unknown[0]}` is not `value is not None` - an option passed explicitly with a falsy value '
                    f'(spine_ids=[], spine_types=[], from_measure=0, show_measure_numbers=False) is silently ignored, so an empty '
                    f'selection exports everything')
        if 'skip' not in naming.values():
            why += '; include / exclude / token_categories are not skipped (the computed selection can be overwritten)'
        ctx.check(ok, 'R1', at, po.qualname, 'option-copy-condition',
                  'a keyword is copied to the option of the same name iff it is not include/exclude/token_categories and its value is not None',
                  why)
    rets = symex.returns(po)
    # starts from defaults
    okd = any(isinstance(n, ast.Assign) and F.is_name(n.targets[0], 'options') and src(n.value) == 'ExportOptions.default()'
              for n in walk_local(po.node))
    ctx.check(okd, 'R1', po.loc, po.qualname, 'starts-from-defaults', 'options start from ExportOptions.default()')


def _closure(tree, cats):
    out = set()

    def sub(t, inside):
        for k, v in t.items():
            i = inside or k in cats
            if i:
                out.add(k)
            sub(v, i)
    sub(tree, False)
    return out


def category_set_status(ctx, node, f):
    """-> ('closed', why) | ('open', missing) | ('unknown', text)"""
    if node is None or (isinstance(node, ast.Constant) and node.value is None):
        return 'closed', 'default (all categories)'
    if isinstance(node, ast.Call):
        r = F.callee(ctx, node, f)
        if r and r[0] == 'def' and r[1].name == 'valid' and r[1].cls is not None and r[1].cls.qualname in (N.MAPPER, N.TOKCAT):
            return 'closed', 'result of valid(...)'
        if r and r[0] == 'def' and r[1].name == 'all' and r[1].cls is not None and r[1].cls.qualname in (N.MAPPER, N.TOKCAT):
            return 'closed', 'all categories'
    ok, v = ctx.ce.try_eval(node, f.module, f.cls, {})
    if ok and isinstance(v, (set, list, tuple, frozenset)) and all(isinstance(x, EnumMember) for x in v):
        tree = ctx.ce.class_const(N.MAPPER, 'hierarchy')
        cl = _closure(tree, set(v))
        if cl == set(v):
            return 'closed', f'literal set closed under the hierarchy ({len(v)} categories)'
        return 'open', sorted(m.name for m in cl - set(v))
    return 'unknown', src(node)[:80]


def r2_closed_sets(ctx):
    eo = ctx.prog.cls(f'{N.EXPORTER}.ExportOptions')
    init = ctx.prog.find_method(eo, '__init__')
    n = 0
    for f in ctx.prog.all_functions():
        note_only = f.module.name.startswith('kernpy.polish_scores')
        for c in walk_local(f.node):
            if not (isinstance(c, ast.Call) and F.constructed_class(ctx, c, f) is eo):
                continue
            if f.cls is eo and f.name == 'default':
                b = {k.arg: k.value for k in c.keywords}
            else:
                b = F.bind_args(c, init, True)
            n += 1
            at = f'{f.module.relpath}:{c.lineno}'
            status, info = category_set_status(ctx, b.get('token_categories'), f)
            if note_only:
                ctx.note('R2', at, f.qualname, f'token_categories is {status} ({info}) - polish_scores is not reachable from any '
                                               f'observation point of the properties')
                continue
            if status == 'closed':
                ctx.holds('R2', at, f.qualname, f'token_categories is descendant-closed: {info}')
            elif status == 'open':
                ctx.violation('R2', at, f.qualname, 'category-set-not-closed',
                              f'token_categories=`{src(b.get("token_categories"))}` is not descendant-closed (missing {info[:6]}...): '
                              f'the category gate tests plain membership, so every token whose category is a descendant (notes, '
                              f'clefs, headers, ...) is replaced by a placeholder')
            else:
                raise AnalysisError(f'{at}: token_categories `{info}` is neither valid(...) nor a constant set')
    ctx.expect_count('R2', 'ExportOptions constructions', n, 3)


def _is_filter_pred(ctx, test, var, fn_names):
    """fn is None or fn(var.category)"""
    fm = G._formula(test)
    ats = G.atoms_of(fm)
    for fn in fn_names:
        a_none = f'{fn} is None'
        a_call = f'{fn}({var}.category)'
        if set(ats) == {a_none, a_call}:
            ok = all(G.evaluate(fm, {a_none: x, a_call: y}) == (x or y) for x in (False, True) for y in (False, True))
            if ok:
                return True
    return False


def r5_subtoken_filter(ctx):
    nrt = ctx.prog.func(f'{N.TOKENS}.NoteRestToken.export')
    kw = nrt.node.args.kwarg.arg
    fn_names = [n.targets[0].id for n in walk_local(nrt.node) if isinstance(n, ast.Assign) and isinstance(n.targets[0], ast.Name)
                and src(n.value) in (f"{kw}.get('filter_categories')", f"{kw}.get('filter_categories', None)")]
    ctx.expect_count('R5', 'filter predicate lookup in NoteRestToken.export', len(fn_names), 1)
    for lst in ('pitch_duration_subtokens', 'decoration_subtokens'):
        comps = [n for n in walk_local(nrt.node) if isinstance(n, (ast.ListComp, ast.GeneratorExp))
                 and len(n.generators) == 1 and src(n.generators[0].iter) == f'self.{lst}']
        reads = [n for n in walk_local(nrt.node) if isinstance(n, ast.Attribute) and n.attr == lst and src(n.value) == 'self']
        at = nrt.loc
        ok = len(comps) >= 1 and len(reads) == len(comps)
        for c in comps:
            g = c.generators[0]
            at = f'{nrt.module.relpath}:{c.lineno}'
            ok = ok and isinstance(g.target, ast.Name) and F.is_name(c.elt, g.target.id) and len(g.ifs) == 1 \
                and _is_filter_pred(ctx, g.ifs[0], g.target.id, fn_names)
        ctx.check(ok, 'R5', at, nrt.qualname, f'subtoken-filter:{lst}',
                  f'every element of {lst} is kept iff no predicate is given or predicate(category) holds (whole list, no slice)',
                  f'{lst} is not filtered element by element with `fn is None or fn(s.category)`')
    ct = ctx.prog.func(f'{N.TOKENS}.CompoundToken.export')
    kw2 = ct.node.args.kwarg.arg
    fn2 = [n.targets[0].id for n in walk_local(ct.node) if isinstance(n, ast.Assign) and isinstance(n.targets[0], ast.Name)
           and src(n.value) in (f"{kw2}.get('filter_categories', None)", f"{kw2}.get('filter_categories')")]
    loops = [n for n in walk_local(ct.node) if isinstance(n, ast.For) and src(n.iter) == 'self.subtokens']
    ok = len(loops) == 1 and len(fn2) == 1
    if ok:
        lp = loops[0]
        ok = len(lp.body) == 1 and isinstance(lp.body[0], ast.If) and _is_filter_pred(ctx, lp.body[0].test, lp.target.id, fn2) \
            and not lp.body[0].orelse
    ctx.check(ok, 'R5', ct.loc, ct.qualname, 'subtoken-filter:compound',
              'CompoundToken.export keeps a sub-token iff no predicate is given or predicate(category) holds')
    # every tokenizer passes membership in its own token_categories
    tk = ctx.prog.module(N.TOKENIZERS)
    n = 0
    for f in ctx.prog.all_functions():
        if f.module is not tk or f.name != 'tokenize':
            continue
        for c in walk_local(f.node):
            if isinstance(c, ast.Call) and isinstance(c.func, ast.Attribute) and c.func.attr == 'export':
                kws = {k.arg: k.value for k in c.keywords}
                fc = kws.get('filter_categories')
                n += 1
                ok = isinstance(fc, ast.Lambda) and len(fc.args.args) == 1 \
                    and src(fc.body) == f'{fc.args.args[0].arg} in self.token_categories'
                ctx.check(ok, 'R5', f'{f.module.relpath}:{c.lineno}', f.qualname, 'tokenizer-predicate',
                          'the tokenizer passes `category in self.token_categories` as the sub-token predicate',
                          f'the tokenizer passes `{src(fc)[:80] if fc is not None else None}` as the predicate')
    ctx.expect_count('R5', 'token.export calls in the tokenizers', n, 3)
    tf = ctx.prog.func(f'{N.TOKENIZERS}.Tokenizer.__init__')
    okt = any(isinstance(x, ast.Assign) and src(x.targets[0]) == 'self.token_categories' and src(x.value) == 'token_categories'
              for x in walk_local(tf.node))
    ctx.check(okt, 'R5', tf.loc, tf.qualname, 'tokenizer-stores-categories', 'Tokenizer stores the category set it is given')
    et = ctx.prog.func(f'{EXP}.export_token')
    calls = [c for c in walk_local(et.node) if isinstance(c, ast.Call) and isinstance(c.func, ast.Attribute) and c.func.attr == 'create'
             and src(c.func.value) == 'TokenizerFactory']
    okc = len(calls) == 1 and any(k.arg == 'token_categories' and src(k.value) == 'options.token_categories' for k in calls[0].keywords)
    ctx.check(okc, 'R5', et.loc, et.qualname, 'export-token-forwards-categories', 'export_token hands options.token_categories to the tokenizer')
