"""C11 - Category algebra follows the documented tree."""
from __future__ import annotations

import ast
import re

from ..errors import AnalysisError
from ..model import src, walk_local, docstring_free
from ..consteval import EnumMember
from .. import names as N
from .. import facts as F
from .. import guards as G
from .. import symex


def run(ctx):
    ctx.explanation = (
        'Static rules for C11: (R1) the hierarchy literal, evaluated from the AST, is a forest whose nodes are exactly the '
        'TokenCategory members, each once; (R2) it equals the tree printed in README.md; (R3) every query reachable from the '
        'public API that looks a caller-supplied category up in the ROOT hierarchy does so through a deep locator (a function '
        'that recurses over all children with the same key on a miss) - a shallow lookup is wrong for every nested category; '
        '(R4) the recursive helpers iterate over every entry and combine every recursive result; (R5) valid = closure(include) '
        '- closure(exclude) as a set-algebra shape on origins, None/list/tuple/single arguments are normalised, match is '
        '"closure(category) meets valid", is_child is reflexive; the TokenCategory facade forwards its arguments unswapped. '
        'Decides these clauses for all categories at once; does not prove full functional correctness of the helpers.')
    ctx.not_decided = ['full functional correctness of the recursive helpers on all 496k include/exclude pairs']
    tree = r1_forest(ctx)
    r2_readme(ctx, tree)
    r3_deep_lookup(ctx)
    r4_recursion(ctx)
    r5_selection(ctx)
    r6_no_shared_defaults(ctx)
    r6_facade(ctx)


# --------------------------------------------------------------------------- R1
def _edges(tree, parent=None, out=None):
    out = out if out is not None else []
    for k, v in tree.items():
        out.append((parent, k))
        if isinstance(v, dict):
            _edges(v, k, out)
    return out


def _literal_key_count(node, resolve=None, depth=0):
    """Keys written in the literal (a repeated sibling key is counted twice here and once in the evaluated dict).  A branch given
    by name (a class attribute holding a dict literal) is counted through `resolve`; anything else makes the count unknown."""
    n = 0
    if isinstance(node, ast.Dict):
        if any(k is None for k in node.keys):
            raise AnalysisError('the hierarchy literal uses ** unpacking: its written keys are not counted')
        n += len(node.keys)
        for v in node.values:
            n += _literal_key_count(v, resolve, depth)
    elif isinstance(node, (ast.Name, ast.Attribute)) and resolve is not None and depth < 6:
        lit = resolve(node)
        if lit is None:
            raise AnalysisError(f'the hierarchy literal takes a branch from `{ast.unparse(node)}`, which is not a dict literal: not counted')
        n += _literal_key_count(lit, resolve, depth + 1)
    elif not isinstance(node, ast.Dict):
        raise AnalysisError(f'the hierarchy literal holds `{ast.unparse(node)[:40]}`: not a dict literal, its keys are not counted')
    return n


def r1_forest(ctx):
    mapper = ctx.prog.cls(N.MAPPER)
    r = ctx.prog.find_class_attr(mapper, 'hierarchy')
    if r is None:
        raise AnalysisError('anchor vanished: TokenCategoryHierarchyMapper.hierarchy')
    node, owner = r
    at = f'{owner.module.relpath}:{node.lineno}'
    fn = f'{N.MAPPER}.hierarchy'
    tree = ctx.ce.class_const(N.MAPPER, 'hierarchy')
    members = ctx.ce.enum_canonical(ctx.prog.cls(N.TOKCAT))
    ctx.expect_count('R1', 'TokenCategory members', len(members), 30)
    edges = _edges(tree)
    nodes = [c for _, c in edges]
    ok_types = all(isinstance(c, EnumMember) and c.cls == N.TOKCAT for c in nodes)
    ctx.check(ok_types, 'R1', at, fn, 'hierarchy-node-types', 'every node of the hierarchy literal is a TokenCategory member')

    def leaves_ok(t):
        return all(isinstance(v, dict) and leaves_ok(v) for v in t.values())
    ctx.check(leaves_ok(tree), 'R1', at, fn, 'hierarchy-leaf-shape', 'every subtree (leaves included) is a dict')
    def resolve_branch(n_):
        name_ = n_.id if isinstance(n_, ast.Name) else (n_.attr if isinstance(n_.value, ast.Name) and n_.value.id in ('cls', mapper.name) else None)
        r_ = ctx.prog.find_class_attr(mapper, name_) if name_ else None
        return r_[0] if r_ is not None and isinstance(r_[0], ast.Dict) else None
    ctx.check(_literal_key_count(node, resolve_branch) == len(nodes), 'R1', at, fn, 'hierarchy-duplicate-sibling',
              f'no key is repeated among siblings in the literal ({len(nodes)} keys)')
    for m in members:
        k = nodes.count(m)
        ctx.check(k == 1, 'R1', at, fn, f'hierarchy-occurrences:{m.name}',
                  f'{m.name} occurs exactly once in the hierarchy', f'{m.name} occurs {k} times in the hierarchy')
    extra = [c for c in nodes if c not in members]
    ctx.check(not extra, 'R1', at, fn, 'hierarchy-extra', 'no node outside the enum', f'nodes outside the enum: {extra}')
    return tree


# --------------------------------------------------------------------------- R2
def parse_readme_tree(text):
    m = re.search(r'See the hierarchy as a tree.*?```txt\n(.*?)```', text, re.S)
    if not m:
        return None
    edges = []
    stack = {}
    for line in m.group(1).splitlines():
        mm = re.search(r'[A-Z_][A-Z_0-9]*\s*$', line)
        if not mm:
            continue
        name = mm.group(0).strip()
        depth = (mm.start() // 4) - 1
        stack[depth] = name
        edges.append((stack.get(depth - 1) if depth > 0 else None, name))
    return edges


def r2_readme(ctx, tree):
    text = ctx.prog.read('README.md')
    edges = parse_readme_tree(text)
    if edges is None:
        raise AnalysisError('README.md: the documented hierarchy block was not found')
    line = text[:text.index('See the hierarchy as a tree')].count('\n') + 1
    at = f'README.md:{line}'
    fn = f'{N.MAPPER}.hierarchy'
    ctx.expect_count('R2', 'README tree nodes', len(edges), 30)
    lit = {(p.name if p else None, c.name) for p, c in _edges(tree) if isinstance(c, EnumMember)}
    doc = set(edges)
    for e in sorted(doc - lit, key=str):
        ctx.violation('R2', at, fn, f'readme-edge-missing:{e[0]}>{e[1]}',
                      f'documented edge {e[0]} -> {e[1]} is not in the hierarchy literal')
    for e in sorted(lit - doc, key=str):
        ctx.violation('R2', at, fn, f'readme-edge-extra:{e[0]}>{e[1]}',
                      f'hierarchy edge {e[0]} -> {e[1]} is not in the documented tree')
    for e in sorted(lit & doc, key=str):
        ctx.holds('R2', at, fn, f'edge {e[0]} -> {e[1]} documented and implemented')
    ctx.check(len(edges) == len(doc), 'R2', at, fn, 'readme-duplicate', 'no category is listed twice in the documented tree')


# --------------------------------------------------------------------------- R3
PUBLIC_QUERIES = ['is_child', 'children', 'nodes', 'leaves', 'valid', 'match', 'all', 'tree']


def _is_root_expr(node, fi):
    """cls.hierarchy / TokenCategoryHierarchyMapper.hierarchy"""
    return isinstance(node, ast.Attribute) and node.attr == 'hierarchy' and isinstance(node.value, ast.Name) \
        and node.value.id in ('cls', 'self', 'TokenCategoryHierarchyMapper')


def _mapper_calls(ctx, fi, mapper):
    """(call, target FuncInfo) for calls to methods of the mapper class made in fi."""
    out = []
    for n in walk_local(fi.node):
        if isinstance(n, ast.Call) and isinstance(n.func, ast.Attribute) and isinstance(n.func.value, ast.Name) \
                and n.func.value.id in ('cls', 'self', 'TokenCategoryHierarchyMapper'):
            t = ctx.prog.find_method(mapper, n.func.attr)
            if t is not None:
                out.append((n, t))
    return out


def _reachable(ctx, mapper, queries=None):
    seen, todo = {}, []
    for q in (queries or PUBLIC_QUERIES):
        f = ctx.prog.find_method(mapper, q)
        if f is None:
            raise AnalysisError(f'anchor vanished: {N.MAPPER}.{q}')
        todo.append(f)
    while todo:
        f = todo.pop()
        if f.qualname in seen:
            continue
        seen[f.qualname] = f
        for _, t in _mapper_calls(ctx, f, mapper):
            todo.append(t)
    return seen


def _root_params(ctx, funcs, mapper):
    """Parameters that may receive the ROOT hierarchy at some call site (fixpoint)."""
    root = set()   # (qualname, param)
    changed = True
    while changed:
        changed = False
        for f in funcs.values():
            for call, t in _mapper_calls(ctx, f, mapper):
                if t.qualname not in funcs:
                    continue
                b = F.bind_args(call, t, True)
                for p, a in b.items():
                    is_root = _is_root_expr(a, f) or (isinstance(a, ast.Name) and (f.qualname, a.id) in root)
                    if is_root and (t.qualname, p) not in root:
                        root.add((t.qualname, p))
                        changed = True
    return root


def _deep_locator_pairs(ctx, f, mapper):
    """(tree_param, key_param) pairs for which f is a deep locator: on a miss it recurses over ALL the
    entries of tree_param with the SAME key_param and propagates a found result."""
    pairs = set()
    for call, t in _mapper_calls(ctx, f, mapper):
        if t is not f:
            continue
        b = F.bind_args(call, f, True)
        for tp in f.params[1:]:
            for kp in f.params[1:]:
                if tp == kp or tp not in b or kp not in b:
                    continue
                if not F.is_name(b[kp], kp):
                    continue
                sub = b[tp]
                if _iterates_all_children(f, sub, tp):
                    pairs.add((tp, kp))
    return pairs


def _iterates_all_children(f, sub, tp):
    """`sub` is a child subtree of tp taken while iterating over all entries of tp."""
    for n in walk_local(f.node):
        iters = []
        if isinstance(n, ast.For):
            iters.append((n.target, n.iter))
        elif isinstance(n, (ast.ListComp, ast.SetComp, ast.GeneratorExp, ast.DictComp)):
            for g in n.generators:
                # a filter on the RESULT of the recursive call (`if rec(child) is not None`) is evaluated for every entry: the call
                # is still made for all children
                if not g.ifs or all(any(isinstance(c, ast.Call) and isinstance(c.func, ast.Attribute) and c.func.attr == f.name
                                        and any(src(a) == src(sub) for a in list(c.args) + [k.value for k in c.keywords])
                                        for c in ast.walk(t)) for t in g.ifs):
                    iters.append((g.target, g.iter))
        for target, it in iters:
            s = src(it)
            if s == f'{tp}.values()' and isinstance(target, ast.Name) and F.is_name(sub, target.id):
                return True
            if s == f'{tp}.items()' and isinstance(target, ast.Tuple) and len(target.elts) == 2 \
                    and isinstance(target.elts[1], ast.Name) and F.is_name(sub, target.elts[1].id):
                return True
            if s in (tp, f'{tp}.keys()') and isinstance(target, ast.Name) and src(sub) == f'{tp}[{target.id}]':
                return True
    return False


def r3_deep_lookup(ctx):
    mapper = ctx.prog.cls(N.MAPPER)
    funcs = _reachable(ctx, mapper)
    root_params = _root_params(ctx, funcs, mapper)
    n_lookups = 0
    n_root_reads = 0
    for f in funcs.values():
        deep = _deep_locator_pairs(ctx, f, mapper)
        params = set(f.params[1:]) | set(f.kwonly)
        for n in walk_local(f.node):
            base = key = None
            kind = None
            if isinstance(n, ast.Subscript) and isinstance(n.ctx, ast.Load):
                base, key, kind = n.value, n.slice, 'subscript'
            elif isinstance(n, ast.Call) and isinstance(n.func, ast.Attribute) and n.func.attr == 'get' and n.args:
                base, key, kind = n.func.value, n.args[0], '.get'
            elif isinstance(n, ast.Compare) and len(n.ops) == 1 and isinstance(n.ops[0], (ast.In, ast.NotIn)):
                base, key, kind = n.comparators[0], n.left, 'in'
            if base is None:
                continue
            is_root = _is_root_expr(base, f) or (isinstance(base, ast.Name) and (f.qualname, base.id) in root_params)
            if not is_root:
                continue
            n_root_reads += 1
            if not (isinstance(key, ast.Name) and key.id in params):
                continue   # constant key or derived key: not a caller-supplied category
            n_lookups += 1
            at = f'{f.module.relpath}:{n.lineno}'
            tp = base.id if isinstance(base, ast.Name) else None
            ok = tp is not None and (tp, key.id) in deep
            ctx.check(ok, 'R3', at, f.qualname, f'shallow-lookup:{kind}:{key.id}',
                      f'lookup of `{key.id}` in the root hierarchy ({kind}) is inside a deep locator over `{tp}`',
                      f'`{src(n)}` looks the caller-supplied category `{key.id}` up at the ROOT level only '
                      f'(no recursion over all children with the same key): wrong for every nested category')
    ctx.count('R3.root_hierarchy_reads', n_root_reads)
    ctx.expect_count('R3', 'keyed lookups of a caller-supplied category in the root hierarchy', n_lookups, 1)
    ctx.analysed['R3.functions_reachable_from_public_queries'] = sorted(f.name for f in funcs.values())


# --------------------------------------------------------------------------- R4
def r4_recursion(ctx):
    mapper = ctx.prog.cls(N.MAPPER)
    # the text rendering of the tree (`tree`) is not a category query: helpers only it reaches are not held to the rule
    funcs = _reachable(ctx, mapper, [q for q in PUBLIC_QUERIES if q != 'tree'])
    n = 0
    for f in funcs.values():
        rec_calls = [c for c, t in _mapper_calls(ctx, f, mapper) if t is f]
        if not rec_calls:
            continue
        n += 1
        # every recursive call must sit in a loop/comprehension over all entries of a tree parameter
        for call in rec_calls:
            at = f'{f.module.relpath}:{call.lineno}'
            b = F.bind_args(call, f, True)
            ok = any(_iterates_all_children(f, a, tp) for tp in f.params[1:] + f.kwonly for a in b.values())
            ctx.check(ok, 'R4', at, f.qualname, 'recursion-covers-children',
                      'the recursive call is made for every entry of the subtree (unfiltered iteration over values/items)',
                      f'`{src(call)}` is not made for every child of the subtree')
        for node in walk_local(f.node):
            if isinstance(node, ast.Break):
                ctx.violation('R4', f'{f.module.relpath}:{node.lineno}', f.qualname, 'recursion-break',
                              'a `break` cuts the iteration over the children')
            if isinstance(node, (ast.For,)):
                it = src(node.iter)
                if re.search(r'\[[^\]]*:[^\]]*\]', it):
                    ctx.violation('R4', f'{f.module.relpath}:{node.lineno}', f.qualname, 'recursion-slice',
                                  f'iteration over a slice `{it}` skips children')
    ctx.expect_count('R4', 'recursive helpers reachable from the public queries', n, 2)


# --------------------------------------------------------------------------- R5
def _set_terms(node, bound):
    """Set algebra normal form: the set of generator terms a set-valued expression is the union of -
    ('elem', X): the members of X;  ('nodes', X): the descendants nodes(c) of every member c of X.
    `bound` maps a comprehension variable to the source text of the collection it ranges over.  None: not recognised."""
    if isinstance(node, ast.Set):
        out = set()
        for e in node.elts:
            if isinstance(e, ast.Name) and e.id in bound:
                out.add(_single(('elem', bound[e.id])))
            elif isinstance(e, (ast.Name, ast.Attribute)):
                out.add(('one', src(e)))
            else:
                return None
        return out
    if isinstance(node, ast.Call) and isinstance(node.func, ast.Name) and node.func.id in ('set', 'frozenset', 'list', 'tuple'):
        if not node.args and not node.keywords:
            return set()
        if len(node.args) == 1 and not node.keywords:
            a = node.args[0]
            if isinstance(a, (ast.List, ast.Tuple, ast.Set)):
                return _set_terms(ast.Set(elts=a.elts), bound)
            inner = _set_terms(a, bound)
            return inner if inner is not None else {('elem', src(a))}
    if isinstance(node, ast.Call) and src(node.func) in ('cls.nodes', 'TokenCategoryHierarchyMapper.nodes', 'self.nodes') and not (node.args and node.keywords):
        a = node.args[0] if node.args else (node.keywords[0].value if node.keywords and node.keywords[0].arg == 'parent' else None)
        if isinstance(a, ast.Name) and a.id in bound:
            return {_single(('nodes', bound[a.id]))}
        if isinstance(a, (ast.Name, ast.Attribute)):
            return {('nodes1', src(a))}
        return None
    if isinstance(node, ast.Call) and src(node.func) in ('cls.leaves', 'TokenCategoryHierarchyMapper.leaves', 'self.leaves') and not (node.args and node.keywords):
        # the leaves below a category: a recognised generator that is NOT the descendants (inner categories are missing)
        a = node.args[0] if node.args else (node.keywords[0].value if node.keywords else None)
        if isinstance(a, ast.Name) and a.id in bound:
            return {('leaves', bound[a.id])}
        if isinstance(a, (ast.Name, ast.Attribute)):
            return {('leaves1', src(a))}
        return None
    if isinstance(node, ast.BoolOp) and isinstance(node.op, ast.Or) and len(node.values) == 2:
        # `A or B`: A when it is not empty, otherwise B - contained in the union of both, equal to neither in general
        l, r = _set_terms(node.values[0], bound), _set_terms(node.values[1], bound)
        if l is None or r is None:
            return None
        return l if not r else (l | r | {('either', src(node)[:60])})
    if isinstance(node, ast.BinOp) and isinstance(node.op, ast.BitOr):
        l, r = _set_terms(node.left, bound), _set_terms(node.right, bound)
        return l | r if l is not None and r is not None else None
    if isinstance(node, ast.Call) and isinstance(node.func, ast.Attribute) and node.func.attr == 'union':
        recv = node.func.value
        parts = [] if src(recv) in ('set', 'frozenset') else [recv]
        out = set()
        for a in list(node.args):
            if isinstance(a, ast.Starred):
                t = _union_over(a.value, bound)
                if t is None:
                    return None
                out |= t
            else:
                parts.append(a)
        if node.keywords:
            return None
        for p_ in parts:
            t = _set_terms(p_, bound)
            if t is None:
                return None
            out |= t
        return out
    if isinstance(node, ast.SetComp) and len(node.generators) == 2 and not node.generators[0].ifs and not node.generators[1].ifs \
            and isinstance(node.generators[0].target, ast.Name) and isinstance(node.generators[1].target, ast.Name) \
            and F.is_name(node.elt, node.generators[1].target.id):
        b2 = dict(bound, **{node.generators[0].target.id: src(node.generators[0].iter)})
        return _set_terms(node.generators[1].iter, b2)
    if isinstance(node, ast.SetComp) and len(node.generators) == 1 and not node.generators[0].ifs \
            and isinstance(node.generators[0].target, ast.Name) and F.is_name(node.elt, node.generators[0].target.id):
        return {('elem', src(node.generators[0].iter))}
    if isinstance(node, ast.IfExp):
        # T if X is not empty else X / set(): the union over an empty X is empty
        for body, other, tests in ((node.body, node.orelse, lambda a: (f'len({a}) > 0', a, f'len({a}) != 0', f'len({a}) >= 1')),
                                   (node.orelse, node.body, lambda a: (f'len({a}) == 0', f'not {a}'))):
            t = _set_terms(body, bound)
            if t:
                xs = {x for _, x in t}
                if len(xs) == 1:
                    a = next(iter(xs))
                    if src(other) in (a, 'set()', f'set({a})') and src(node.test) in tests(a):
                        return t
        return None
    if isinstance(node, (ast.Name, ast.Attribute, ast.Call)) and not bound:
        return {('elem', src(node))}
    return None


def _single(term):
    """A term over the one-member collection `{x}` is the term of its member."""
    kind, x = term
    try:
        n = ast.parse(x, mode='eval').body
    except SyntaxError:
        return term
    if isinstance(n, ast.Set) and len(n.elts) == 1 and isinstance(n.elts[0], (ast.Name, ast.Attribute)):
        return ({'elem': 'one', 'nodes': 'nodes1'}[kind], src(n.elts[0]))
    return term


def _nonempty_meet(node):
    """(A, B) when the boolean expression says that the sets A and B have a member in common."""
    def meet(x):
        if isinstance(x, ast.BinOp) and isinstance(x.op, ast.BitAnd):
            return x.left, x.right
        if isinstance(x, ast.Call) and isinstance(x.func, ast.Attribute) and x.func.attr == 'intersection' and len(x.args) == 1 and not x.keywords:
            return x.func.value, x.args[0]
        return None
    if isinstance(node, ast.Compare) and len(node.ops) == 1 and isinstance(node.left, ast.Call) and F.is_name(node.left.func, 'len') \
            and len(node.left.args) == 1 and isinstance(node.comparators[0], ast.Constant):
        k, op = node.comparators[0].value, node.ops[0]
        if (isinstance(op, ast.Gt) and k == 0) or (isinstance(op, ast.NotEq) and k == 0) or (isinstance(op, ast.GtE) and k == 1):
            return meet(node.left.args[0])
        if meet(node.left.args[0]) is not None:
            return 'other-size-test'        # a size test of the common members that is not "at least one"
    if isinstance(node, ast.Compare) and len(node.ops) == 1 and isinstance(node.comparators[0], ast.Call) and F.is_name(node.comparators[0].func, 'len') \
            and isinstance(node.left, ast.Constant) and ((isinstance(node.ops[0], ast.Lt) and node.left.value == 0)
                                                          or (isinstance(node.ops[0], ast.LtE) and node.left.value == 1)):
        return meet(node.comparators[0].args[0])
    if isinstance(node, ast.Call) and F.is_name(node.func, 'bool') and len(node.args) == 1:
        return meet(node.args[0])
    if isinstance(node, ast.UnaryOp) and isinstance(node.op, ast.Not) and isinstance(node.operand, ast.Call) \
            and isinstance(node.operand.func, ast.Attribute) and node.operand.func.attr == 'isdisjoint' and len(node.operand.args) == 1:
        return node.operand.func.value, node.operand.args[0]
    if isinstance(node, ast.Call) and F.is_name(node.func, 'any') and len(node.args) == 1 \
            and isinstance(node.args[0], (ast.GeneratorExp, ast.ListComp)) and len(node.args[0].generators) == 1:
        g = node.args[0].generators[0]
        e = node.args[0].elt
        if not g.ifs and isinstance(g.target, ast.Name) and isinstance(e, ast.Compare) and len(e.ops) == 1 and isinstance(e.ops[0], ast.In) \
                and F.is_name(e.left, g.target.id):
            return g.iter, e.comparators[0]
    return None


def _union_over(node, bound):
    """Terms of `*node` given to union(): a comprehension / generator / map over a collection X."""
    if isinstance(node, (ast.ListComp, ast.GeneratorExp, ast.SetComp)) and len(node.generators) == 1 and not node.generators[0].ifs \
            and isinstance(node.generators[0].target, ast.Name):
        return _set_terms(node.elt, dict(bound, **{node.generators[0].target.id: src(node.generators[0].iter)}))
    if isinstance(node, ast.Call) and F.is_name(node.func, 'map') and len(node.args) == 2 and not node.keywords:
        fn, coll = node.args
        if isinstance(fn, ast.Lambda) and len(fn.args.args) == 1:
            return _set_terms(fn.body, dict(bound, **{fn.args.args[0].arg: src(coll)}))
        call = ast.Call(func=fn, args=[ast.Name(id='_m', ctx=ast.Load())], keywords=[])
        return _set_terms(call, dict(bound, _m=src(coll)))
    return None


def _closure_of(node, f):
    """(X, recognised): X when `node` is the descendant closure of the collection X - the members of X together with nodes(c)
    of every member c, however the union is written; recognised tells whether the set algebra followed the expression."""
    t = _set_terms(node, {})
    if t is None:
        return None, False
    xs = {x for _, x in t}
    if len(xs) == 1 and t == {('elem', next(iter(xs))), ('nodes', next(iter(xs)))}:
        return next(iter(xs)), True
    return None, True


def _validator_table(ctx, f, none_value):
    """Facts of _validate_include/_validate_exclude: None -> default; list/tuple -> set(x); set -> x; else {x}."""
    p = f.params[1]
    res = {}
    for sp in symex.func_sym_paths(f):
        cond = sp.condition()
        ats = G.atoms_of(cond)
        res.setdefault('paths', []).append((cond, sp.end, sp.value))
    return res


def _empty_tree_has_no_nodes(ctx, nd_):
    """_nodes(tree) starts from the keys of the tree (or from nothing) and adds to that only inside loops / comprehensions over
    the entries of the tree: for an empty tree the result is empty."""
    t = nd_.params[1]
    body = docstring_free(nd_.body)
    rets = [n for n in walk_local(nd_.node) if isinstance(n, ast.Return)]
    if len(rets) != 1 or rets[0].value is None:
        return False
    rv = rets[0].value
    over_tree = (f'{t}.values()', f'{t}.items()', f'{t}.keys()', t)
    if isinstance(rv, ast.Name):
        inits = [n for n in body if isinstance(n, ast.Assign) and len(n.targets) == 1 and F.is_name(n.targets[0], rv.id)]
        if len(inits) != 1 or src(inits[0].value) not in (f'set({t}.keys())', f'set({t})', 'set()'):
            return False
        for n in body:
            if n is inits[0] or n is rets[0]:
                continue
            if not (isinstance(n, ast.For) and src(n.iter) in over_tree):
                return False
        return True
    # one expression: a set built from the keys and from unions over the entries
    names = {src(g.iter) for n in ast.walk(rv) if isinstance(n, ast.comprehension) for g in [n]}
    return bool(names) and names <= set(over_tree) and not any(isinstance(n, ast.Constant) and n.value not in (None,) and not isinstance(n.value, bool)
                                                              for n in ast.walk(rv))


def r6_no_shared_defaults(ctx):
    from . import shared
    shared.no_shared_mutable_defaults(ctx, 'R6')


def r5_selection(ctx):
    mapper = ctx.prog.cls(N.MAPPER)
    valid = ctx.prog.func(f'{N.MAPPER}.valid')
    inc_p, exc_p = valid.params[1:3]
    rets = symex.returns(valid)
    ctx.expect_count('R5', 'return paths of valid', len(rets), 1)
    if len(rets) > 200:
        raise AnalysisError(f'{valid.loc}: valid has {len(rets)} return paths')
    vi = ctx.prog.find_method(mapper, '_validate_include')
    ve = ctx.prog.find_method(mapper, '_validate_exclude')
    for cond, val, sp in rets:
        at = f'{valid.module.relpath}:{sp.path.end_node.lineno}'
        A = B = None
        if isinstance(val, ast.BinOp) and isinstance(val.op, ast.Sub):
            A, B = val.left, val.right
        elif isinstance(val, ast.Call) and isinstance(val.func, ast.Attribute) and val.func.attr == 'difference' \
                and len(val.args) == 1:
            A, B = val.func.value, val.args[0]
        elif isinstance(val, ast.SetComp) and len(val.generators) == 1 and len(val.generators[0].ifs) == 1 \
                and F.is_name(val.elt, getattr(val.generators[0].target, 'id', None)):
            t = val.generators[0].ifs[0]
            if isinstance(t, ast.Compare) and isinstance(t.ops[0], ast.NotIn) and F.is_name(t.left, val.elt.id):
                A, B = val.generators[0].iter, t.comparators[0]
        if A is None and isinstance(val, ast.SetComp) and len(val.generators) == 1 and val.generators[0].ifs \
                and F.is_name(val.elt, getattr(val.generators[0].target, 'id', None)):
            it_ = val.generators[0].iter
            inner_diff = (isinstance(it_, ast.BinOp) and isinstance(it_.op, ast.Sub)) or (
                isinstance(it_, ast.Call) and isinstance(it_.func, ast.Attribute) and it_.func.attr == 'difference')
            if isinstance(it_, ast.Name):
                vals_ = [a_.value for a_ in walk_local(valid.node) if isinstance(a_, ast.Assign) and any(F.is_name(t_, it_.id) for t_ in a_.targets)]
                inner_diff = len(vals_) == 1 and ((isinstance(vals_[0], ast.BinOp) and isinstance(vals_[0].op, ast.Sub)) or (
                    isinstance(vals_[0], ast.Call) and isinstance(vals_[0].func, ast.Attribute) and vals_[0].func.attr == 'difference'))
            if inner_diff:
                ctx.violation('R5', at, valid.qualname, 'valid-extra-filter',
                              f'valid filters the difference closure(include) - closure(exclude) once more (`if {src(val.generators[0].ifs[0])[:70]}`): '
                              f'a category that is selected by that difference (a group whose members were all excluded, ...) is dropped')
                continue
        if A is None:
            if isinstance(val, ast.Name) or any(isinstance(n_, ast.Name) and ('@' in n_.id or '#' in n_.id) for n_ in ast.walk(val)):
                # the result is accumulated in place (a loop the set algebra does not follow): unknown, not wrong
                raise AnalysisError(f'{at}: valid builds its result in place (`{src(val)[:60]}`): the set-algebra rule does not follow it')
            if _set_terms(val, {}) is None:
                # neither a difference nor a union the set algebra recognises (another algorithm - a walk with inherited flags, a
                # parent table): unknown, not wrong.  A recognised union WITHOUT the difference is reported below.
                raise AnalysisError(f'{at}: valid returns `{src(val)[:80]}`: not a set expression the rule follows')
            ctx.violation('R5', at, valid.qualname, 'valid-shape',
                          f'valid returns `{src(val)[:120]}`, expected closure(include) - closure(exclude)')
            continue
        want_a = {f'cls._validate_include({inc_p})', f'cls._validate_include(include={inc_p})'}
        want_b = {f'cls._validate_exclude({exc_p})', f'cls._validate_exclude(exclude={exc_p})'}

        def is_closure(X, want):
            if isinstance(X, ast.Name) and any(isinstance(n_, ast.Call) and isinstance(n_.func, ast.Attribute) and F.is_name(n_.func.value, X.id)
                                               and n_.func.attr in ('add', 'update', 'discard', 'remove', 'difference_update', 'intersection_update')
                                               for n_ in walk_local(valid.node)):
                # the operand is a set filled in place by a walk over the hierarchy (another algorithm for the same closure):
                # unknown, not wrong
                raise AnalysisError(f'{at}: the operand `{X.id}` of valid is filled in place (a work-list walk): the set-algebra rule does not follow it')
            c, recognised = _closure_of(X, valid)
            if c in want:
                return True, c
            if not recognised and not (src(X) in want or src(X) in ('set()', 'frozenset()')):
                raise AnalysisError(f'{at}: the set algebra does not follow `{src(X)[:100]}`')
            # the closure of the empty set is the empty set: X itself (or set()) on a path where X is known to be empty
            sx = src(X)
            if sx in want or sx in ('set()', 'frozenset()'):
                for w in (want if sx not in want else [sx]):
                    a = f'nonempty({w})'
                    ats = G.atoms_of(cond)
                    if a in ats:
                        import itertools
                        others = [x for x in ats if x != a]
                        if not any(G.evaluate(cond, dict(zip(others, bits), **{a: True}))
                                   for bits in itertools.product([False, True], repeat=len(others))):
                            return True, f'{w} (empty on this path)'
            return False, c
        oka, ca = is_closure(A, want_a)
        okb, cb = is_closure(B, want_b)
        ctx.check(oka, 'R5', at, valid.qualname, 'valid-include-closure',
                  'left operand is the descendant closure of the normalised include set',
                  f'left operand `{src(A)[:100]}` is not closure(_validate_include(include)) (closure of `{ca}`)')
        ctx.check(okb, 'R5', at, valid.qualname, 'valid-exclude-closure',
                  'right operand is the descendant closure of the normalised exclude set',
                  f'right operand `{src(B)[:100]}` is not closure(_validate_exclude(exclude)) (closure of `{cb}`)')
    # validators: truth table of the isinstance chain
    for f, dflt, tag in ((vi, 'all', 'include'), (ve, 'empty', 'exclude')):
        if f is None:
            raise AnalysisError(f'anchor vanished: _validate_{tag}')
        _check_validator(ctx, f, dflt, tag)
    # all() = every node of the hierarchy
    allf = ctx.prog.func(f'{N.MAPPER}.all')
    rets = symex.returns(allf)
    ok = len(rets) == 1 and F.same(ctx, allf, rets[0][1], 'cls._nodes(cls.hierarchy)')
    ctx.check(ok, 'R5', allf.loc, allf.qualname, 'all-is-nodes-of-root', 'all() is the node set of the whole hierarchy')
    # nodes(parent) = _nodes(_find_subtree(root, parent)), empty set when not found
    nodes = ctx.prog.func(f'{N.MAPPER}.nodes')
    p = nodes.params[1]
    rets = symex.returns(nodes)
    loc_ = f'cls._find_subtree(cls.hierarchy, {p})'
    none_atom = f'{loc_} is None'
    ok = bool(rets)
    shown = []
    for cond, val, sp in rets:
        fm = G._formula(ast.parse(G.show(cond).replace('tree=', '').replace('parent=', ''), mode='eval').body) if False else cond
        ats = [a.replace('tree=', '').replace('parent=', '') for a in G.atoms_of(cond)]
        v = src(val).replace('tree=', '').replace('parent=', '')
        shown.append(f'{v} if {G.show(cond)}')
        if ats != [none_atom]:
            ok = False
            continue
        absent = G.evaluate(cond, {G.atoms_of(cond)[0]: True})
        present_forms = {f'cls._nodes({loc_})'}
        nd_ = ctx.prog.func(f'{N.MAPPER}._nodes')
        one = F.expand_call(ctx, ast.parse(f'cls._nodes({loc_})', mode='eval').body, nodes)
        if one is not None:         # _nodes written as one expression: the expression itself is the same set
            present_forms.add(src(one).replace('tree=', '').replace('parent=', ''))
        absent_forms = {'set()', 'frozenset()'}
        if v == 'cls._nodes({})' and _empty_tree_has_no_nodes(ctx, nd_):
            absent_forms.add(v)     # the node set of an empty tree is empty (read from _nodes itself)
        ok = ok and (v in absent_forms if absent else v in present_forms)
    ok = ok and len(rets) == 2
    ctx.check(ok, 'R5', nodes.loc, nodes.qualname, 'nodes-via-deep-locator',
              'nodes(c) = _nodes(_find_subtree(root, c)) (empty when absent)',
              f'nodes returns {shown}')
    # _match: closure(category) & valid(...) non-empty
    m = ctx.prog.func(f'{N.MAPPER}._match')
    cat = m.params[1]
    rets = symex.returns(m)
    okm = False
    if len(rets) == 1:
        ab = _nonempty_meet(rets[0][1])
        if ab is None:
            raise AnalysisError(f'{m.loc}: `{src(rets[0][1])[:100]}` is not recognised as "two sets have a member in common"')
        want_t = {('one', cat), ('nodes1', cat)}
        for a_, b_ in ((ab, ab[::-1]) if ab != 'other-size-test' else ()):
            if src(b_) in ('cls.valid(include, exclude)', 'cls.valid(include=include, exclude=exclude)'):
                t_ = _set_terms(a_, {})
                if t_ is None:
                    raise AnalysisError(f'{m.loc}: the set algebra does not follow `{src(a_)[:100]}`')
                okm = okm or t_ == want_t
    if False:
        s = src(rets[0][1])
        tn = {f'cls.nodes({cat}) | {{{cat}}}', f'{{{cat}}} | cls.nodes({cat})'}
        vv = 'cls.valid(include, exclude)'
        forms = set()
        for t in tn:
            forms |= {f'len({t} & {vv}) > 0', f'len(({t}) & {vv}) > 0', f'len({vv} & ({t})) > 0',
                      f'bool(({t}) & {vv})', f'len(({t}) & {vv}) != 0', f'len(({t}) & {vv}) >= 1',
                      f'not ({t}).isdisjoint({vv})'}
        okm = s in forms
    ctx.check(okm, 'R5', m.loc, m.qualname, 'match-shape',
              'match = (closure(category) & valid(include, exclude)) is non-empty',
              f'_match returns `{src(rets[0][1]) if rets else None}`')
    mt = ctx.prog.func(f'{N.MAPPER}.match')
    rets = symex.returns(mt)
    c2 = mt.params[1]
    okd = len(rets) == 1 and F.same(ctx, mt, rets[0][1],
                                    f'cls._match({c2}, include=cls._validate_include(include), exclude=cls._validate_exclude(exclude))')
    raw_rets = [n.value for n in walk_local(mt.node) if isinstance(n, ast.Return) and n.value is not None]
    raw_call = raw_rets[0] if len(raw_rets) == 1 and isinstance(raw_rets[0], ast.Call) and src(raw_rets[0].func) == 'cls._match' else None
    if not okd and raw_call is not None:
        b_m = F.bind_args(raw_call, m, True)
        if F.is_name(b_m.get(m.params[1]), c2) and {src(b_m.get('include')), src(b_m.get('exclude'))} <= {'include', 'exclude'}:
            # still a delegation with the same category; the selection is normalised by valid() itself (rule valid-include-closure /
            # valid-exclude-closure: valid computes closure(_validate_include(include)) - closure(_validate_exclude(exclude))), and
            # _match hands exactly these two arguments to valid (rule match-shape): the second normalisation was a no-op
            if src(b_m.get('include')) == 'include' and src(b_m.get('exclude')) == 'exclude' and okm:
                okd = True
            else:
                raise AnalysisError(f'{mt.loc}: match hands include/exclude to _match unnormalised; whether _match / valid normalise them is not followed')
    ctx.check(okd, 'R5', mt.loc, mt.qualname, 'match-delegation',
              'match normalises include/exclude and delegates to _match with the same category')
    # is_child reflexive and delegating with unswapped arguments
    ic = ctx.prog.func(f'{N.MAPPER}.is_child')
    pp, cc = None, None
    for x in ic.params[1:]:
        if x == 'parent':
            pp = x
        if x == 'child':
            cc = x
    if not (pp and cc):
        raise AnalysisError(f'{ic.loc}: is_child signature changed')
    refl = False
    others = []
    for cond, val, sp in symex.returns(ic):
        if isinstance(val, ast.Constant) and val.value is True:
            ats = G.atoms_of(cond)
            eq = G._cmp_atom(ast.Name(id=pp), ast.Eq(), ast.Name(id=cc))[1]
            if ats == [eq] and G.evaluate(cond, {eq: True}):
                refl = True
        else:
            others.append(val)
    ctx.check(refl, 'R5', ic.loc, ic.qualname, 'is_child-reflexive', 'is_child(c, c) is True (explicit reflexive guard)')
    for val in others:
        s = src(val)
        good = {f'cls._is_child({pp}, {cc}, tree=cls.hierarchy)', f'{cc} in cls.nodes({pp})',
                f'{cc} in cls.nodes(parent={pp})', f'cls._is_child(parent={pp}, child={cc}, tree=cls.hierarchy)'}
        ctx.check(s in good, 'R5', ic.loc, ic.qualname, 'is_child-descendant',
                  f'non-reflexive case is the descendant test `{s}`',
                  f'non-reflexive case is `{s}`: not a descendant test of child under parent')


def _check_validator(ctx, f, dflt, tag):
    p = f.params[1]
    sps = symex.func_sym_paths(f)
    none_atom = f'{p} is None'
    lt_atoms = {f'isinstance({p}, (list, tuple))', f'isinstance({p}, (tuple, list))'}
    set_atom = f'isinstance({p}, set)'
    cases = {'none': {none_atom: True}, 'list': {none_atom: False, 'LT': True, set_atom: False},
             'set': {none_atom: False, 'LT': False, set_atom: True}, 'single': {none_atom: False, 'LT': False, set_atom: False}}
    expect = {'none': {'all': {'cls.all()'}, 'empty': {'set()'}}[dflt], 'list': {f'set({p})'}, 'set': {p}, 'single': {f'{{{p}}}'}}
    for case, base_val in cases.items():
        got = set()
        raised_always = True
        for sp in sps:
            cond = sp.condition()
            ats = G.atoms_of(cond)
            free = [a for a in ats if a not in (none_atom, set_atom) and a not in lt_atoms]
            # the element-type test (all(isinstance(...))) is free: we look at the non-raising outcome
            import itertools
            for bits in itertools.product([False, True], repeat=len(free)):
                val = {}
                for a in ats:
                    if a == none_atom:
                        val[a] = base_val.get(none_atom, False)
                    elif a in lt_atoms:
                        val[a] = base_val.get('LT', False)
                    elif a == set_atom:
                        val[a] = base_val.get(set_atom, False)
                for a, b in zip(free, bits):
                    val[a] = b
                if G.evaluate(cond, val) and sp.end == 'return':
                    got.add(src(sp.value))
        ctx.check(got and got <= expect[case], 'R5', f.loc, f.qualname, f'validate-{tag}:{case}',
                  f'_validate_{tag}: {case} argument -> {sorted(expect[case])[0]}',
                  f'_validate_{tag}: {case} argument -> {sorted(got)}; expected {sorted(expect[case])}')


# --------------------------------------------------------------------------- R6
def r6_facade(ctx):
    """TokenCategory.<q> forwards to the mapper with unswapped arguments."""
    tc = ctx.prog.cls(N.TOKCAT)
    mapper = ctx.prog.cls(N.MAPPER)
    pairs = {'is_child': {'parent': 'parent', 'child': 'child'}, 'children': {'parent': 'target'},
             'valid': {'include': 'include', 'exclude': 'exclude'}, 'leaves': {'target': 'target'},
             'nodes': {'parent': 'target'}, 'match': {'category': 'target', 'include': 'include', 'exclude': 'exclude'},
             'tree': {}}
    for q, amap in pairs.items():
        f = ctx.prog.find_method(tc, q)
        if f is None:
            raise AnalysisError(f'anchor vanished: TokenCategory.{q}')
        t = ctx.prog.find_method(mapper, q)
        rets = symex.returns(f)
        ok = False
        if len(rets) == 1 and isinstance(rets[0][1], ast.Call):
            call = rets[0][1]
            r = F.callee(ctx, call, f)
            if r and r[0] == 'def' and r[1] is t:
                b = F.bind_args(call, t, True)
                ok = all(F.is_name(b.get(tp), fp) for tp, fp in amap.items()) and len(b) == len(amap)
        ctx.check(ok, 'R6', f.loc, f.qualname, f'facade:{q}',
                  f'TokenCategory.{q} forwards its arguments unswapped to TokenCategoryHierarchyMapper.{q}')
    # the public re-export
    for pub in ('TokenCategory', 'TokenCategoryHierarchyMapper'):
        b = ctx.prog.resolve(ctx.prog.module('kernpy'), pub)
        ctx.check(b is not None and b.kind == 'class' and b.value.module.name == N.TOKENS, 'R6',
                  b.value.loc if b else 'kernpy/__init__.py:1', f'kernpy.{pub}', f'public-reexport:{pub}',
                  f'kernpy.{pub} is the class defined in tokens.py')
