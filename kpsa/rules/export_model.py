"""Symbolic model of a token's export(): per feasible path, the returned text as a sequence of PIECES, where every piece that
comes from a sub-token list is described element-wise (source list, filters, sort keys, element expression).
The rules of C01 / C03 / C05 / C10 about NoteRestToken.export are phrased on this model, so they do not depend on local
names, on extracted helpers, on the order of filter / sort / copy steps or on early returns."""
from __future__ import annotations

import ast
from typing import List, Optional

from ..errors import AnalysisError
from ..astutil import clone
from ..model import src
from .. import guards as G
from .. import symex
from .. import seqs

ELT = seqs.ELT


class Seq:
    def __init__(self, source):
        self.source = source          # text of the source list, e.g. 'self.pitch_duration_subtokens'
        self.filters = []             # formulas over the element `_e`, innermost first
        self.sorts = []               # (key node or None, reverse flag) in application order; ('reversed',) entries flip
        self.elt = ast.Name(id=ELT, ctx=ast.Load())
        self.hashed = False           # passed through set(): the order depends on hashing
        self.sliced = False
        self.node = None

    @property
    def identity(self):
        return isinstance(self.elt, ast.Name) and self.elt.id == ELT

    def filter(self):
        return G.conj(self.filters)

    def category_tests(self):
        """Names of the TokenCategory members whose elements the filters ADMIT, when the filters restrict the category at all
        (categories are mutually exclusive: `cat != PITCH and cat == ALTERATION` admits ALTERATION only).  Empty set: no
        restriction by category."""
        f = self.filter()
        ats = G.atoms_of(f)
        cat = {}
        for a in ats:
            for pre, suf in ((f'{ELT}.category == TokenCategory.', ''), ('TokenCategory.', f' == {ELT}.category')):
                if a.startswith(pre) and a.endswith(suf):
                    cat[a] = a[len(pre):len(a) - len(suf)] if suf else a[len(pre):]
        if not cat:
            return set()
        others = [a for a in ats if a not in cat]

        def admits(true_atom):
            val = {a: True for a in others}
            val.update({a: (a == true_atom) for a in cat})
            return G.evaluate(f, val)
        if admits(None):
            return set()            # an element of none of the tested categories passes: not a restriction
        return {k for a, k in cat.items() if admits(a)}

    def last_sort(self):
        return self.sorts[-1] if self.sorts else None

    def __repr__(self):
        return f'<Seq {self.source} if {G.show(self.filter())} -> {src(self.elt)} sorts={len(self.sorts)}>'


def _rename(node, old, new):
    class R(ast.NodeTransformer):
        def visit_Name(self, n):
            if n.id == old:
                return ast.copy_location(ast.Name(id=new, ctx=n.ctx), n)
            return n
    return R().visit(clone(node))


def describe(node, sources) -> Optional[Seq]:
    s = src(node)
    if s in sources:
        q = Seq(s)
        q.node = node
        return q
    if isinstance(node, ast.Call) and isinstance(node.func, ast.Name) and node.args:
        f = node.func.id
        if f in ('list', 'tuple', 'iter'):
            return describe(node.args[0], sources)
        if f == 'sorted':
            q = describe(node.args[0], sources)
            if q is None:
                return None
            kw = {k.arg: k.value for k in node.keywords}
            rev = 'reverse' in kw and not (isinstance(kw['reverse'], ast.Constant) and kw['reverse'].value is False)
            key = kw.get('key')
            if key is not None and not q.identity:
                return None
            q.sorts.append((key, rev))
            q.hashed = False
            q.node = node
            return q
        if f == 'reversed':
            q = describe(node.args[0], sources)
            if q is not None:
                q.sorts.append(('reversed', True))
            return q
        if f in ('set', 'frozenset'):
            q = describe(node.args[0], sources)
            if q is not None:
                q.hashed = True
            return q
    if isinstance(node, ast.Subscript):
        q = describe(node.value, sources)
        if q is not None:
            q.sliced = True
        return q
    if isinstance(node, (ast.ListComp, ast.GeneratorExp, ast.SetComp)) and len(node.generators) == 1:
        g = node.generators[0]
        q = describe(g.iter, sources)
        if q is None:
            return None
        if not isinstance(g.target, ast.Name) or not q.identity:
            return None
        v = g.target.id
        for i in g.ifs:
            q.filters.append(G._formula(_rename(i, v, ELT)))
        q.elt = _rename(node.elt, v, ELT)
        if isinstance(node, ast.SetComp):
            q.hashed = True
        q.node = node
        return q
    return None


class Piece:
    def __init__(self, kind, text=None, seq=None, sep=None, inner=None, node=None):
        self.kind = kind      # const | join | call | other
        self.text = text      # const: source text; call: function text
        self.seq = seq        # join: Seq
        self.sep = sep        # join: separator source text
        self.inner = inner    # call: pieces of the (first) argument
        self.node = node

    def walk(self):
        yield self
        for p in self.inner or []:
            yield from p.walk()

    def __repr__(self):
        if self.kind == 'join':
            return f'{self.sep}.join({self.seq!r})'
        if self.kind == 'call':
            return f'{self.text}({self.inner})'
        return f'{self.kind}:{self.text}'


def pieces_of(node, sources) -> List[Piece]:
    if isinstance(node, ast.BinOp) and isinstance(node.op, ast.Add):
        return pieces_of(node.left, sources) + pieces_of(node.right, sources)
    if isinstance(node, ast.Call) and isinstance(node.func, ast.Attribute) and node.func.attr == 'join' and len(node.args) == 1 \
            and not node.keywords:
        q = describe(node.args[0], sources)
        if q is not None:
            return [Piece('join', seq=q, sep=src(node.func.value), node=node)]
        # a join over a concatenation of lists: SEP.join(A + [x] + B)  (the separators between the parts are not modelled)
        parts = _concat_operands(node.args[0])
        if len(parts) > 1:
            out = []
            for part in parts:
                qp = describe(part, sources)
                if qp is not None:
                    out.append(Piece('join', seq=qp, sep=src(node.func.value), node=node))
                elif isinstance(part, (ast.List, ast.Tuple)):
                    for e in part.elts:
                        out.extend(pieces_of(e, sources))
                else:
                    out.append(Piece('other', text=src(part), node=part))
            return out
    if isinstance(node, (ast.Constant, ast.Name)):
        return [Piece('const', text=src(node), node=node)]
    if isinstance(node, ast.Call) and len(node.args) == 1 and not node.keywords and _mentions(node.args[0], sources):
        return [Piece('call', text=src(node.func), inner=pieces_of(node.args[0], sources), node=node)]
    return [Piece('other', text=src(node), node=node)]


def _concat_operands(node):
    if isinstance(node, ast.BinOp) and isinstance(node.op, ast.Add):
        return _concat_operands(node.left) + _concat_operands(node.right)
    return [node]


def _mentions(node, sources):
    return any(isinstance(n, ast.Attribute) and src(n) in sources for n in ast.walk(node))


class ExportPath:
    def __init__(self, sp, pieces):
        self.sp = sp
        self.cond = sp.condition()
        self.pieces = pieces
        self.value = sp.value

    def all_pieces(self):
        for p in self.pieces:
            yield from p.walk()

    def joins(self, source=None):
        return [p for p in self.all_pieces() if p.kind == 'join' and (source is None or p.seq.source == source)]

    def unmodelled(self, sources):
        """Pieces that mention a source list but are not described element-wise."""
        return [p for p in self.all_pieces() if p.kind == 'other' and _mentions(p.node, sources)]


def export_paths(ctx, fi, sources, limit=20000) -> List[ExportPath]:
    out = []
    for sp in symex.func_sym_paths(fi, limit):
        if sp.end != 'return' or sp.value is None:
            continue
        if any('@iter' in n.id for n in ast.walk(sp.value) if isinstance(n, ast.Name)):
            raise AnalysisError(f'{fi.loc}: {fi.qualname} builds its result in a loop the element-wise model does not follow')
        # a local that survived the substitution stands for a container that is filled in place: not followed element-wise
        import builtins
        bound = {x.id for c in ast.walk(sp.value) if isinstance(c, ast.comprehension) for x in ast.walk(c.target) if isinstance(x, ast.Name)}
        bound |= {a.arg for l in ast.walk(sp.value) if isinstance(l, ast.Lambda) for a in l.args.args}
        for n in ast.walk(sp.value):
            if isinstance(n, ast.Name) and n.id not in bound and n.id not in fi.all_params and not hasattr(builtins, n.id) \
                    and ctx.prog.resolve(fi.module, n.id) is None and '#' not in n.id and '@' not in n.id:
                raise AnalysisError(f'{fi.loc}: {fi.qualname} builds its result through the local container `{n.id}` '
                                    f'(filled in place): the element-wise model does not follow it')
        out.append(ExportPath(sp, pieces_of(sp.value, sources)))
    if not out:
        raise AnalysisError(f'{fi.loc}: {fi.qualname} has no returning path')
    return out
