"""C10 - Agnostic encoding depends only on staff position and accidental."""
from __future__ import annotations

import ast

from ..errors import AnalysisError
from ..model import src, walk_local, docstring_free
from ..affine import affine, NotAffine
from .. import names as N
from .. import facts as F
from .. import guards as G
from .. import symex
from .. import grammar as GR
from .exporter_facts import EXP

GK = N.GKERN
RANGE = range(-30, 31)


def run(ctx):
    ctx.explanation = (
        'Static rules for C10 (relative to the API\'s Clef.bottom_line constants): (R1) LETTER_TO_INDEX is the C-based order 0..6, '
        'LETTERS the same order in lower case, and 7 is the modulus/divisor of gkern_to_g_clef_pitch and the octave factor of '
        'compute_position; (R2) compute_position is the affine translation 7*(oct(p) - oct(base)) + idx(p) - idx(base) with '
        'accidentals stripped before the letter lookup, so k diatonic steps move the position by k; (R3) writer/reader agreement of '
        'the T@n / S@n codec: with the parity case split, reader(writer(line_space)) = line_space + 2 (enumerated over both parities '
        'and signs), bottom line -> LETTERS[2] = e, identity under G2 iff bottom_line(GClef) = E4, and the letter repetition agrees '
        'with HumdrumPitchExporter (sibling "steps -> kern letters"); (R4) the accidental is carried unchanged: the string handed to '
        'the pitch conversion contains only characters the Humdrum pitch importer understands (alphabet of the selected categories '
        'read from the grammar) and the ALTERATION text reaches the output; (R5) octave marks: the clef object returned by '
        'create_clef does not depend on ^/v, dispatch covers G, F3, F4, C1-C4; (R6) the clef in force is read from the node\'s own '
        'signature context under the key the importer writes and is forwarded to both agnostic tokenizers.')
    ctx.not_decided = ['the musical truth of the seven bottom-line constants (the property is stated relative to them)']
    seven = r1_tables(ctx)
    r2_position(ctx, seven)
    r3_codec(ctx, seven)
    r4_accidentals(ctx)
    r5_clefs(ctx)
    r6_clef_in_force(ctx)
    from . import c04
    ctx.alias = {'R6': 'R8'}
    c04.r6_chords(ctx)           # the conversion callback reaches every note of a chord
    ctx.alias = {}
    # the clef in force after a join is the clef of the spine the join continues: which sub-spine a *v keeps (C02.R5), and every
    # node owning its own copy of the signature context (C08.R1), decide which clef the notes below are converted under
    from . import c02, c08
    ctx.alias = {'R3': 'R9', 'R5': 'R9'}
    c02.r3_r5_counts(ctx)
    ctx.alias = {}
    c08.check_signature_clone(ctx, 'R6')
    # "differs from the kern export only in the pitch letters": the agnostic tokenizers receive the very category set the others do
    ctx.alias = {'R5': 'R10'}
    c04.r5_factory(ctx)
    ctx.alias = {}
    if ctx.tier == 'thorough':
        from .. import regen
        regen.check(ctx, 'R7')


def _position_terms(ctx):
    """compute_position's return value with the letter lookups named: -> (cp, argument node, term function, tables seen)"""
    cp = ctx.prog.func(f'{GK}.PitchPositionReferenceSystem.compute_position')
    nested = ctx.prog.nested_functions(cp)
    tables = []

    def letter_expr(node):
        """The subscript of a letter lookup with a call of a local / private one-expression helper replaced by its body."""
        if isinstance(node, ast.Call) and len(node.args) == 1 and not node.keywords:
            cb = F.callable_body(ctx, node.func, cp)
            if cb is not None and len(cb[0]) == 1:
                return G.substitute(cb[1], {cb[0][0]: node.args[0]}, recursive=False)
        return node

    def term(node):
        if isinstance(node, ast.Subscript):
            ok, v = ctx.ce.try_eval(node.value, cp.module, cp.cls, {})
            if ok and isinstance(v, dict) and v and all(isinstance(k, str) for k in v):
                tables.append((node, dict(v)))
                return f'IDX[{src(letter_expr(node.slice))}]'
        return None
    return cp, term, tables


def r1_tables(ctx):
    cp, term, tables = _position_terms(ctx)
    for cond, val, sp in symex.returns(cp):
        if isinstance(val, ast.Call) and val.args:
            for n in ast.walk(val.args[0]):
                term(n)
    if not tables:
        raise AnalysisError(f'{cp.loc}: no letter -> index table is consulted by compute_position')
    for node, lti in tables[:1]:
        ctx.check(all(t == {'C': 0, 'D': 1, 'E': 2, 'F': 3, 'G': 4, 'A': 5, 'B': 6} for _, t in tables), 'R1',
                  f'{cp.module.relpath}:{node.lineno}', cp.qualname,
                  'letter-index-table', 'the letter -> index table is the C-based diatonic order 0..6', f'letter table = {lti}')
    letters = ctx.ce.module_const(GK, 'LETTERS')
    ln, lm = ctx.prog.const_node(GK, 'LETTERS')
    ctx.check(list(letters) == ['c', 'd', 'e', 'f', 'g', 'a', 'b'], 'R1', f'{lm.relpath}:{ln.lineno}', f'{GK}.LETTERS', 'letters-table',
              'LETTERS is the same order in lower case', f'LETTERS = {letters}')
    return len(letters)


def r2_position(ctx, seven):
    cp, term, tables = _position_terms(ctx)
    p = cp.params[1]
    rets = symex.returns(cp)
    if len(rets) != 1:
        ctx.violation('R2', cp.loc, cp.qualname, 'position-paths', f'{len(rets)} return paths')
        return
    val = rets[0][1]
    ok_cls = isinstance(val, ast.Call) and src(val.func) == 'PositionInStaff' and len(val.args) == 1
    if not ok_cls:
        ctx.violation('R2', cp.loc, cp.qualname, 'position-shape', f'compute_position returns `{src(val)[:80]}`')
        return
    try:
        a = affine(val.args[0], None, term)
    except NotAffine as e:
        # the expression is outside the affine fragment the rule reads (a product with a constant it does not resolve, a helper it
        # does not follow): nothing is known about it - not "wrong"
        raise AnalysisError(f'{cp.loc}: the staff position `{src(val.args[0])[:80]}` is outside the affine fragment ({e}): not decided')

    def strip_forms(q):
        return {f"AgnosticPitch({q}.name.replace('+', '').replace('-', ''), {q}.octave).name",
                f"AgnosticPitch({q}.name.replace('-', '').replace('+', ''), {q}.octave).name",
                f"{q}.name.replace('+', '').replace('-', '')", f"{q}.name.replace('-', '').replace('+', '')",
                f"{q}.name[0]", f"{q}.name[:1]"}
    idx_terms = {t: c for t, c in a.terms.items() if t.startswith('IDX[')}
    other = {t: c for t, c in a.terms.items() if not t.startswith('IDX[')}
    ok_aff = other == {f'{p}.octave': seven, 'self.base_pitch.octave': -seven} and a.const == 0 and len(idx_terms) == 2 \
        and sorted(idx_terms.values()) == [-1, 1]
    ctx.check(ok_aff, 'R2', cp.loc, cp.qualname, 'position-affine',
              f'position = {seven}*(oct(p) - oct(base)) + idx(p) - idx(base): coefficient 1 on the diatonic step, {seven} per octave',
              f'position is `{a.key()}`')
    okh = len(idx_terms) == 2
    for t, c in idx_terms.items():
        inner = t[len('IDX['):-1]
        okh = okh and inner in strip_forms(p if c == 1 else 'self.base_pitch')
    ctx.check(okh, 'R2', cp.loc, cp.qualname, 'accidentals-stripped-before-lookup',
              'the letter lookup strips + and -: the accidental does not move the position',
              f'letters are looked up as {sorted(idx_terms)}')
    rp = ctx.prog.func(f'{GK}.Clef.reference_point')
    rr = symex.returns(rp)
    ctx.check(len(rr) == 1 and F.same(ctx, rp, rr[0][1], 'PitchPositionReferenceSystem(self.bottom_line())'), 'R2', rp.loc, rp.qualname,
              'reference-is-bottom-line', 'the reference of a clef is its bottom-line pitch')
    st = ctx.prog.func(f'{GK}.Staff.position_in_staff')
    sr = symex.returns(st)
    ctx.check(len(sr) == 1 and src(sr[0][1]) == 'clef.reference_point().compute_position(pitch)', 'R2', st.loc, st.qualname,
              'staff-position-delegates', 'Staff.position_in_staff = clef.reference_point().compute_position(pitch)')


def _eval_int(ctx, node, mapping, mod):
    ok, v = F.eval_concrete(ctx, node, mapping, mod)
    if not ok:
        raise AnalysisError(f'cannot evaluate `{src(node)[:80]}` with {mapping}')
    return v


def r3_codec(ctx, seven):
    pis = ctx.prog.cls(f'{GK}.PositionInStaff')
    line_f, space_f, isline_f, str_f = (ctx.prog.func(f'{pis.qualname}.{m}') for m in ('line', 'space', 'is_line', '__str__'))
    LINE_C, SPACE_C = ctx.ce.class_const(pis.qualname, 'LINE_CHARACTER'), ctx.ce.class_const(pis.qualname, 'SPACE_CHARACTER')
    sep = ctx.ce.module_const(N.TOKENS, 'TOKEN_SEPARATOR')
    exprs = {}
    for nm, f in (('line', line_f), ('space', space_f), ('is_line', isline_f)):
        r = symex.returns(f)
        if len(r) != 1:
            raise AnalysisError(f'{f.loc}: {len(r)} return paths')
        exprs[nm] = r[0][1]
    # writer: __str__ -> (type char, number expr) per is_line case
    wcases = {}
    for cond, val, sp in symex.returns(str_f):
        ats = G.atoms_of(cond)
        if ats != ['self.is_line()']:
            ctx.violation('R3', str_f.loc, str_f.qualname, 'writer-case-split', f'__str__ branches on {ats}')
            return
        il = G.evaluate(cond, {'self.is_line()': True})
        if not isinstance(val, ast.JoinedStr) or len(val.values) != 3:
            ctx.violation('R3', str_f.loc, str_f.qualname, 'writer-shape', f'__str__ returns `{src(val)[:80]}`')
            return
        ch = ctx.ce.try_eval(val.values[0].value, str_f.module, pis)
        sp_ = ctx.ce.try_eval(val.values[1].value, str_f.module, pis)
        num = val.values[2].value
        num_src = src(num)
        which = 'line' if 'self.line()' in num_src else ('space' if 'self.space()' in num_src else None)
        wcases[il] = (ch[1] if ch[0] else None, sp_[1] if sp_[0] else None, which)
    ctx.check(wcases.get(True) == (LINE_C, sep, 'line') and wcases.get(False) == (SPACE_C, sep, 'space'), 'R3', str_f.loc, str_f.qualname,
              'writer-table', f'writer: line -> {LINE_C}{sep}line(), space -> {SPACE_C}{sep}space()', f'writer cases: {wcases}')
    # reader: the checker's evaluator interprets gkern_to_g_clef_pitch on what the writer emits for every position of RANGE
    rd = ctx.prog.func(f'{GK}.gkern_to_g_clef_pitch')
    letters = list(ctx.ce.module_const(GK, 'LETTERS'))
    bad = []
    for ls in RANGE:
        il = _eval_int(ctx, exprs['is_line'], {'self.line_space': ls}, pis.module)
        which = 'line' if il else 'space'
        n = _eval_int(ctx, exprs[which], {'self.line_space': ls}, pis.module)
        ch = LINE_C if il else SPACE_C
        if (ls % 2 == 0) != bool(il):
            bad.append((ls, ch, n, 'parity'))
            continue
        text = f'{ch}{sep}{n}'
        ok_, got = F.eval_function(ctx, rd, {rd.params[0]: text})
        if not ok_:
            raise AnalysisError(f'{rd.loc}: gkern_to_g_clef_pitch cannot be interpreted on {text!r}')
        d = ls + 2          # steps above middle C: the bottom line (position 0) is e
        octave = 4 + d // 7
        letter = letters[d % 7]
        want = letter * (octave - 4 + 1) if octave >= 4 else letter.upper() * (3 - octave + 1)
        if got != want:
            bad.append((ls, text, got, want))
    ctx.check(not bad, 'R3', rd.loc, rd.qualname, 'codec-inverse',
              f'reader(writer(line_space)) is the kern spelling of line_space + 2 steps above middle C for both parities and signs '
              f'({len(RANGE)} positions interpreted): lines and spaces alternate without gap or overlap, letters repeat as '
              f'HumdrumPitchExporter does for octave 4 + d // 7, bottom line -> {letters[2]!r}',
              f'reader and writer of the T@n/S@n codec disagree, e.g. (line_space, text, got, expected) = {bad[:3]}')
    ctx.check(len(letters) == seven, 'R1', rd.loc, rd.qualname, 'seven-everywhere',
              f'len(LETTERS) = {seven}: the modulus of the reader equals the octave factor of compute_position',
              f'len(LETTERS) = {len(letters)}, octave factor {seven}')
    # identity under G2
    gb, r = clef_bottom_line(ctx, 'GClef')
    okg = len(r) == 1 and F.same(ctx, gb, r[0][1], "AgnosticPitch('E', 4)")
    ctx.check(okg, 'R3', gb.loc, gb.qualname, 'g2-identity',
              'bottom_line(GClef) = E4: position 0 <-> e, so the agnostic spelling under G2 is the pitch itself',
              f'bottom_line(GClef) is `{src(r[0][1]) if r else None}`: the agnostic encoding under G2 is no longer the identity')
    ge = ctx.prog.func(f'{GK}.GKernExporter.export')
    r = symex.returns(ge)
    ctx.check(len(r) == 1 and src(r[0][1]) in ('str(self.agnostic_position(staff, pitch))',), 'R3', ge.loc, ge.qualname,
              'exporter-writes-position', 'GKernExporter.export writes the position through PositionInStaff.__str__')


def r4_accidentals(ctx):
    g = GR.load(ctx)
    pg = ctx.prog.func(f'{GK}.pitch_to_gkern_string')
    p = pg.params[0]
    r = symex.returns(pg)
    ok = len(r) == 1 and F.same(ctx, pg, r[0][1], f'gkern_to_g_clef_pitch(GKernExporter({pg.params[1]}).export(Staff(), {p})) + {p}.accidentals()')
    ctx.check(ok, 'R4', pg.loc, pg.qualname, 'accidentals-appended',
              'pitch_to_gkern_string = G-clef letters of the staff position + the pitch\'s accidentals',
              f'pitch_to_gkern_string returns `{src(r[0][1])[:120] if r else None}`')
    acc = ctx.prog.func(f'{N.PITCH}.AgnosticPitch.accidentals')
    loops = [n for n in walk_local(acc.node) if isinstance(n, ast.For) and src(n.iter) == 'self.name']
    table = {}
    okt = len(loops) == 1
    if okt:
        v = loops[0].target.id
        for sp in symex.sym_paths(loops[0].body):
            fm = G._formula(F.fold(ctx, F._conj_node(sp), acc)) if sp.conds else ('const', True)
            adds = [e for e in sp.events if e.kind == 'assign' and isinstance(e.node, ast.AugAssign)]
            plain = [e for e in sp.events if e.kind == 'assign' and isinstance(e.node, ast.Assign) and isinstance(e.node.value, ast.BinOp)
                     and isinstance(e.node.value.op, ast.Add) and len(e.node.targets) == 1
                     and src(e.node.value.left) == src(e.node.targets[0])]       # acc = acc + 'x' is acc += 'x'
            for ch in ('+', '-', 'C', 'n'):
                val = {}
                for a in G.atoms_of(fm):
                    k = F._subject_eq(a, v)
                    if k is None:
                        okt = False
                        val[a] = False
                    else:
                        val[a] = (k == ch)
                if G.evaluate(fm, val):
                    pieces_ = [e.node.value for e in adds] + [e.node.value.right for e in plain]
                    table[ch] = ''.join(ast.literal_eval(x_) for x_ in pieces_) if pieces_ else ''
    if not loops:
        # the same map written as a join over the characters: the piece each character contributes is computed by the evaluator
        rets = symex.returns(acc)
        if len(rets) == 1 and isinstance(rets[0][1], ast.Call) and isinstance(rets[0][1].func, ast.Attribute) and rets[0][1].func.attr == 'join' \
                and src(rets[0][1].func.value) == "''" and len(rets[0][1].args) == 1 \
                and isinstance(rets[0][1].args[0], (ast.GeneratorExp, ast.ListComp)) and len(rets[0][1].args[0].generators) == 1 \
                and src(rets[0][1].args[0].generators[0].iter) == 'self.name' and isinstance(rets[0][1].args[0].generators[0].target, ast.Name):
            comp = rets[0][1].args[0]
            v = comp.generators[0].target.id
            okt = True
            for ch in ('+', '-', 'C', 'n'):
                keep = True
                for cnd in comp.generators[0].ifs:
                    okc, kv = ctx.ce.try_eval(cnd, acc.module, acc.cls, {v: ch})
                    okt = okt and okc
                    keep = keep and bool(kv)
                if not keep:
                    table[ch] = ''
                    continue
                oke, piece = ctx.ce.try_eval(comp.elt, acc.module, acc.cls, {v: ch})
                okt = okt and oke and isinstance(piece, str)
                table[ch] = piece
            if not okt:
                raise AnalysisError(f'{acc.loc}: the piece a character of the pitch name contributes to accidentals() is not computed')
        else:
            raise AnalysisError(f'{acc.loc}: accidentals() is neither a loop nor a join over the characters of the pitch name')
    ctx.check(okt and table == {'+': '#', '-': '-', 'C': '', 'n': ''}, 'R4', acc.loc, acc.qualname, 'accidental-map',
              'accidentals(): + -> #, - -> -, nothing else', f'accidentals() maps {table}')
    # alphabet agreement on the conversion path (element-wise model of NoteRestToken.export, per feasible path)
    from . import c01
    nrt = ctx.prog.func(f'{N.TOKENS}.NoteRestToken.export')
    kw = nrt.node.args.kwarg.arg if nrt.node.args.kwarg else 'kwargs'
    CB = f"{kw}.get('convert_pitch_to_agnostic')"
    PD = 'self.pitch_duration_subtokens'
    eps, _ = c01.export_joins(ctx, nrt)
    imp = ctx.prog.func(f'{N.PITCH}.HumdrumPitchImporter._parse_pitch')
    understood = set('abcdefgABCDEFG')
    for n in walk_local(imp.node):
        if isinstance(n, ast.Compare) and len(n.ops) == 1 and isinstance(n.ops[0], ast.In):
            try:
                understood |= set(ast.literal_eval(n.comparators[0]))
            except Exception:
                pass
    alpha = {'PITCH': g.alphabet('diatonicPitchAndOctave'), 'ALTERATION': g.alphabet('alteration'), 'DURATION': g.alphabet('duration'),
             'DECORATION': {GR.ANY}, 'REST': {'r'}}
    conv_calls = {}
    n_conv = 0
    bad = []
    for ep in eps:
        calls = [p_ for p_ in ep.all_pieces() if p_.kind == 'call' and p_.text == CB]
        for c in calls:
            conv_calls.setdefault(src(c.node), (c, ep))
        # whenever the callback is given and the token has pitch letters, the converted pitch is what is emitted
        val = {}
        fm = ep.cond
        has_cb = _forced(fm, f'{CB} is None', False)
        if not has_cb:
            continue
        text_path = not (len(ep.pieces) == 1 and ep.pieces[0].kind == 'const')
        if not text_path:
            continue
        raw_pitch = [j for j in ep.joins(PD) if not _inside_call(ep, j, CB)
                     and (not j.seq.category_tests() or 'PITCH' in j.seq.category_tests())]
        if calls:
            n_conv += 1
            if raw_pitch:
                bad.append('the kern pitch letters are emitted next to the converted pitch')
        else:
            # no conversion on this path: only legitimate when the path condition says there are no pitch letters
            if 'TokenCategory.PITCH' not in G.show(fm):
                bad.append('a path with a conversion callback never converts')
            elif raw_pitch and not _pitch_known_empty(ep, PD):
                bad.append('kern letters instead of the converted pitch on a path that has pitch letters')
    ctx.expect_count('R4', 'call of the pitch conversion callback', len(conv_calls), 1)
    for text, (c, ep) in conv_calls.items():
        at = f'{nrt.module.relpath}:{c.node.lineno}'
        cats = set()
        unsel = False
        for j in [p_ for p_ in c.walk() if p_.kind == 'join']:
            t = j.seq.category_tests()
            cats |= t
            unsel = unsel or not t
        chars = set().union(*[alpha.get(c_, {GR.ANY}) for c_ in cats]) if cats and not unsel else {GR.ANY}
        foreign = sorted(chars - understood)
        ctx.check(bool(cats) and not unsel and not foreign, 'R4', at, nrt.qualname, 'conversion-input-alphabet',
                  f'the string handed to the pitch conversion is built from {sorted(cats)} sub-tokens, whose grammar alphabet the Humdrum '
                  f'pitch importer understands',
                  f'the string handed to the pitch conversion is built from {sorted(cats) if not unsel else "ALL"} sub-tokens; the grammar lets them contain '
                  f'{foreign}, which HumdrumPitchImporter._parse_pitch counts as extra pitch LETTERS (octave = number of characters): '
                  f'`4cn` under G2 becomes `4cc` (octave changed, natural dropped), `4c#X` becomes `4cc#`')
        carried = 'ALTERATION' in cats
        if not carried:
            # the alteration must be emitted verbatim on every path that converts
            carried = all(any('ALTERATION' in j.seq.category_tests() and src(j.seq.elt) == '_e.encoding' for j in e2.joins(PD))
                          for e2 in eps if any(p_.kind == 'call' and p_.text == CB for p_ in e2.all_pieces()))
        ctx.check(carried, 'R4', at, nrt.qualname, 'alteration-carried',
                  'the accidental (ALTERATION sub-token) reaches the agnostic output',
                  'the ALTERATION sub-token is neither converted nor appended on the agnostic path: the accidental is lost')
    ctx.check(not bad and n_conv > 0, 'R4', nrt.loc, nrt.qualname, 'agnostic-pitch-dropped-on-some-path',
              f'on every exit reached with a conversion callback and pitch letters the converted pitch is emitted ({n_conv} paths)',
              f'{"; ".join(sorted(set(bad))[:2])}: notes without a duration (grace notes, stemless notes, exclude=[DURATION]) keep their '
              f'kern pitch under every clef')
    ae = ctx.prog.func(f'{N.TOKENIZERS}.AEKernTokenizer.tokenize')
    # what the callback computes, on every path of the tokenizer on which a clef is in force: whatever carries it (a nested
    # function, a lambda, a bound helper, functools.partial, a factory method), called with the sub-token text q it returns
    # pitch_to_gkern_string(<Humdrum importer>.import_pitch(q), <the clef object built from self.last_clef>)
    okcb, n_cb, cb_bad = True, 0, ''
    for cond, val, sp in symex.returns(ae):
        if not (F.forced(cond, 'self.last_clef is None', False)):
            continue            # no clef in force: the callback raises when it is called
        for c in [c_ for c_ in ast.walk(val) if isinstance(c_, ast.Call) and isinstance(c_.func, ast.Attribute) and c_.func.attr == 'export']:
            cbv = {k.arg: k.value for k in c.keywords}.get('convert_pitch_to_agnostic')
            if cbv is None:
                continue
            res = F.callable_results(ctx, cbv, ae, {k: v for k, v in sp.env.items() if isinstance(v, ast.AST)})
            if res is None:
                raise AnalysisError(f'{ae.loc}: the conversion callback `{src(cbv)[:60]}` is not followed')
            for q, v in res:
                n_cb += 1
                good = isinstance(v, ast.Call) and F.is_name(v.func, 'pitch_to_gkern_string') and len(v.args) == 2 and not v.keywords \
                    and src(v.args[0]) == f"PitchImporterFactory.create('kern').import_pitch({q})" \
                    and src(v.args[1]) in ('ClefFactory.create_clef(self.last_clef)', 'ClefFactory.create_clef(encoding=self.last_clef)')
                if not good:
                    okcb = False
                    cb_bad = cb_bad or f'the callback returns `{src(v)[:140]}`'
    okcb = okcb and n_cb > 0
    # every path of the agnostic tokenizer hands the conversion to the token: no token is exported without it
    n_ret = 0
    bare = []
    for cond, val, sp in symex.returns(ae):
        n_ret += 1
        exps = [c for c in ast.walk(val) if isinstance(c, ast.Call) and isinstance(c.func, ast.Attribute) and c.func.attr == 'export']
        if not exps or not all(any(k.arg == 'convert_pitch_to_agnostic' for k in c.keywords) for c in exps):
            bare.append(G.show(cond)[:80])
    ctx.check(not bare and n_ret > 0, 'R4', ae.loc, ae.qualname, 'callback-on-every-path',
              f'every path of AEKernTokenizer.tokenize exports the token with the pitch-conversion callback ({n_ret} paths)',
              f'under `{bare[0] if bare else None}` the token is exported without the conversion callback: a note whose own category is not in '
              f'the selection (include=[PITCH, DURATION, ...] without NOTE_REST) keeps its kern letters while chord notes are converted')
    ctx.check(okcb, 'R4', ae.loc, ae.qualname, 'callback-shape',
              f'the callback converts the sub-token text with the Humdrum importer and the clef in force ({n_cb} callback paths)',
              (cb_bad or 'no path of the tokenizer with a clef in force hands over a callback')
              + ": not pitch_to_gkern_string(PitchImporterFactory.create('kern').import_pitch(text), ClefFactory.create_clef(self.last_clef))")


def _forced(fm, atom, value):
    """The path condition `fm` forces `atom` to `value` (no satisfying valuation gives it the other value)."""
    import itertools
    ats = G.atoms_of(fm)
    if atom not in ats:
        return False
    others = [a for a in ats if a != atom]
    if len(others) > 14:
        return False
    for bits in itertools.product([False, True], repeat=len(others)):
        v = dict(zip(others, bits))
        v[atom] = not value
        if G.evaluate(fm, v):
            return False
    return True


def _inside_call(ep, join, text):
    for p_ in ep.all_pieces():
        if p_.kind == 'call' and p_.text == text and any(q is join for q in p_.walk()):
            return True
    return False


def _pitch_known_empty(ep, source):
    """The path condition contains the falsity of a selection of the PITCH sub-tokens of the list (`if pitch_encs:` not taken)."""
    for node, truth in ep.sp.conds:
        t = src(node)
        if not truth and 'TokenCategory.PITCH' in t and source in t and 'convert_pitch_to_agnostic' not in t:
            return True
        if truth and 'TokenCategory.PITCH' in t and source in t and t.startswith('not ') and 'convert_pitch_to_agnostic' not in t:
            return True
    return False


def _callback_values(ctx, fi, node, depth=0):
    """[(parameter name, returned value)] of a one-parameter callable given as a nested function, a lambda, or a lambda / bound
    method that forwards to a helper (followed once, arguments substituted)."""
    out = []
    target = None
    args_map = None
    if isinstance(node, ast.Name):
        target = ctx.prog.nested_functions(fi).get(node.id)
        if target is not None:
            q = target.params[0] if target.params else None
            return [(q, v) for _, v, _ in symex.returns(target)]
    if isinstance(node, ast.Lambda) and len(node.args.args) == 1:
        q = node.args.args[0].arg
        body = node.body
        if isinstance(body, ast.Call) and depth == 0:
            try:
                t, bound = F._static_callee(ctx, body, fi)
            except AnalysisError:
                t, bound = None, False
            if t is not None and not t.module.generated:
                try:
                    b_ = F.bind_args(body, t, bound and t.kind in ('method', 'classmethod'))
                except AnalysisError:
                    b_ = None
                if b_ is not None:
                    for _, v, _ in symex.returns(t):
                        out.append((q, G.substitute(v, dict(b_), recursive=False)))
                    return out
        return [(q, body)]
    return out


def clef_bottom_line(ctx, clsname):
    """(method, [(cond, value, path)]) of bottom_line for objects of the clef class: its own method or the one it inherits, with
    the class-level constants read through self / cls replaced by the values this class gives them (a data-driven hierarchy:
    one shared method, one table per clef) and subscripts of constant displays resolved."""
    cls_ = ctx.prog.cls(f'{GK}.{clsname}')
    f = ctx.prog.find_method(cls_, 'bottom_line')
    if f is None:
        raise AnalysisError(f'anchor vanished: {clsname}.bottom_line')

    class Fold(ast.NodeTransformer):
        def visit_Attribute(self, n):
            self.generic_visit(n)
            if isinstance(n.value, ast.Name) and n.value.id in ('self', 'cls') and isinstance(n.ctx, ast.Load) \
                    and ctx.prog.find_class_attr(cls_, n.attr) is not None:
                ok, v = ctx.ce.try_eval(ast.Attribute(value=ast.Name(id='cls', ctx=ast.Load()), attr=n.attr, ctx=ast.Load()), cls_.module, cls_, {})
                if ok and isinstance(v, (str, int, tuple, list)) and not isinstance(v, bool):
                    try:
                        return ast.parse(repr(v), mode='eval').body
                    except SyntaxError:
                        return n
            return n

        def visit_Subscript(self, n):
            self.generic_visit(n)
            if isinstance(n.value, (ast.Tuple, ast.List)) and isinstance(n.slice, ast.Constant) and isinstance(n.slice.value, int) \
                    and -len(n.value.elts) <= n.slice.value < len(n.value.elts):
                return n.value.elts[n.slice.value]
            return n
    out = []
    for c_, v_, sp_ in symex.returns(f):
        from ..astutil import clone as _clone
        out.append((c_, ast.fix_missing_locations(Fold().visit(_clone(v_))) if v_ is not None else v_, sp_))
    return f, out


def r5_clefs(ctx):
    """The checker's evaluator interprets create_clef on the clef texts of the claimed domain: the class of the object that is
    built on the path taken - with and without octave marks."""
    cc = ctx.prog.func(f'{GK}.ClefFactory.create_clef')
    enc = cc.params[1]
    want = {('G', 2): 'GClef', ('F', 3): 'F3Clef', ('F', 4): 'F4Clef', ('C', 1): 'C1Clef', ('C', 2): 'C2Clef', ('C', 3): 'C3Clef', ('C', 4): 'C4Clef'}

    def built(text):
        end, val, sp = F.interpret(ctx, cc, {enc: text})
        if end != 'return' or not isinstance(val, ast.Call):
            return end
        c = F.constructed_class(ctx, val, cc)
        return c.name if c is not None else src(val.func)
    marks_bad = []
    for (letter, line), clsname in want.items():
        label = f'{letter}{line}'
        got = built(f'*clef{letter}{line}')
        ctx.check(got == clsname, 'R5', cc.loc, cc.qualname, f'clef-dispatch:{label}', f'*clef{label} -> {clsname}',
                  f'*clef{label} -> {got}; expected {clsname}')
        for marks in ('v', '^', 'vv', '^^'):
            g2 = built(f'*clef{letter}{marks}{line}')
            if g2 != got:
                marks_bad.append((f'*clef{letter}{marks}{line}', g2, got))
    ctx.check(not marks_bad, 'R5', cc.loc, cc.qualname, 'octave-marks-interfere',
              'the clef returned does not depend on the octave marks ^ / v (28 marked clef texts interpreted)',
              f'the octave marks change the clef: {marks_bad[:2]}')
    for text in ('*clefF5', '*clefC5'):
        got = built(text)
        ctx.check(got == 'raise', 'R5', cc.loc, cc.qualname, f'clef-invalid-line:{text}', f'{text} is rejected', f'{text} -> {got}')
    # bottom_line of each clef is a constant AgnosticPitch
    for clsname in set(want.values()):
        f, r = clef_bottom_line(ctx, clsname)
        ok = len(r) == 1 and isinstance(r[0][1], ast.Call) and src(r[0][1].func) == 'AgnosticPitch' and \
            all(isinstance(a, ast.Constant) for a in r[0][1].args)
        ctx.check(ok, 'R5', f.loc, f.qualname, f'bottom-line-constant:{clsname}', f'{clsname}.bottom_line is a constant pitch '
                                                                                 f'({src(r[0][1]) if r else None})')


def _subst_names(node, mapping):
    class T(ast.NodeTransformer):
        def visit_Name(self, n):
            if n.id in mapping:
                return ast.Constant(value=mapping[n.id])
            return n
    from ..astutil import clone
    return T().visit(clone(node))


def r6_clef_in_force(ctx, rule='R6'):
    et = ctx.prog.func(f'{EXP}.export_token')
    nd = et.params[1]
    # the clef in force is a function of the node being exported only: no state survives from one cell to the next
    from . import shared
    shared.effect_free(ctx, rule, [f'{EXP}.export_token'],
                       'every cell is encoded under the clef recorded for ITS node; a tokenizer / clef remembered from an earlier '
                       'cell is stale after a clef change in a sibling sub-spine or when the clef token itself is filtered out')
    gets = [n for n in walk_local(et.node) if isinstance(n, ast.Call) and isinstance(n.func, ast.Attribute) and n.func.attr == 'get'
            and src(n.func.value) == f'{nd}.last_signature_nodes.nodes']
    if not gets:
        ctx.violation(rule, et.loc, et.qualname, 'clef-not-read-per-cell',
                      'export_token no longer reads the clef from the signature context of the node it exports')
        return
    # the class the listener builds for clefs
    ec = ctx.prog.func(f'{N.LISTENER}.BaseANTLRSpineParserListener.exitClef')
    built = [F.constructed_class(ctx, n, ec) for n in walk_local(ec.node) if isinstance(n, ast.Call)]
    built = [c.name for c in built if c is not None]
    up = ctx.prog.func(f'{N.DOCUMENT}.SignatureNodes.update')
    keyed = any(isinstance(n, ast.Assign) and isinstance(n.targets[0], ast.Subscript) and src(n.targets[0].value) == 'self.nodes'
                and src(n.targets[0].slice) == f'{up.params[1]}.token.__class__.__name__' and F.is_name(n.value, up.params[1])
                for n in walk_local(up.node))
    ctx.check(keyed, rule, up.loc, up.qualname, 'signature-key-writer', 'the signature context is keyed by the class name of the signature token')
    # ... and recording one signature does nothing else to the context: no other entry is removed or replaced
    other = []
    for n in walk_local(up.node):
        if isinstance(n, ast.Call) and isinstance(n.func, ast.Attribute) and src(n.func.value) == 'self.nodes' \
                and n.func.attr in ('pop', 'popitem', 'clear', 'update', 'setdefault', '__delitem__'):
            other.append(src(n)[:60])
        if isinstance(n, ast.Delete) and any('self.nodes' in src(t) for t in n.targets):
            other.append(src(n)[:60])
        if isinstance(n, ast.Assign) and any(src(t) == 'self.nodes' for t in n.targets):
            other.append(src(n)[:60])
    n_st = len([n for n in walk_local(up.node) if isinstance(n, ast.Assign) and isinstance(n.targets[0], ast.Subscript) and src(n.targets[0].value) == 'self.nodes'])
    ctx.check(not other and n_st == 1, rule, up.loc, up.qualname, 'signature-update-only-records',
              'recording a signature stores exactly one entry and removes none',
              f'SignatureNodes.update also does {other[:2] or [str(n_st) + " keyed stores"]}: a signature of another kind that is still in force '
              f'is dropped from the context, so an excerpt that starts later lacks it')
    for gcall in gets:
        key = ast.literal_eval(gcall.args[0]) if gcall.args and isinstance(gcall.args[0], ast.Constant) else None
        ctx.check(key is not None and [key] == built, rule, f'{et.module.relpath}:{gcall.lineno}', et.qualname, 'clef-key-agreement',
                  f'export_token looks the clef up under {key!r}, the class name the listener builds for clefs',
                  f'export_token looks the clef up under {key!r} but the listener builds {built}: the clef in force is never found')
    # on every path: the factory receives the token of the clef node, or None when the context has no clef
    GET = f"{nd}.last_signature_nodes.nodes.get('ClefToken')"
    ok = True
    n_paths = 0
    for cond, val, sp in symex.returns(et):
        calls = [c for c in ast.walk(val) if isinstance(c, ast.Call) and isinstance(c.func, ast.Attribute) and c.func.attr == 'create'
                 and src(c.func.value) == 'TokenizerFactory']
        if len(calls) != 1:
            ok = False
            continue
        n_paths += 1
        kw = {k.arg: k.value for k in calls[0].keywords}
        lc = kw.get('last_clef_reference')
        if lc is None:
            ok = False
        elif F.forced(cond, f'{GET} is None', True) or F.forced(cond, GET, False):
            ok = ok and isinstance(lc, ast.Constant) and lc.value is None
        elif F.forced(cond, f'{GET} is None', False) or F.forced(cond, GET, True):
            ok = ok and src(lc) == f'{GET}.token'
        else:
            ok = ok and src(lc) in (f'{GET}.token if {GET} is not None else None', f'None if {GET} is None else {GET}.token',
                                    f'{GET}.token if {GET} else None')
    ok = ok and n_paths > 0
    ctx.check(ok, rule, et.loc, et.qualname, 'clef-forwarded',
              'the token of the clef node (or None when no clef was seen) is forwarded to the tokenizer factory')
    run_ = ctx.prog.func(f'{N.IMPORTER}.Importer.run')
    # on every path through the cells of a row: the node just built is recorded in its own signature context exactly when the
    # token is a SignatureToken; only the measure-start test and the bounding-box test may pre-empt that test
    import itertools
    from . import c07 as C07
    oku, n_upd, why_u = True, 0, ''
    for sp, tok, f_, add_ev in C07.cell_paths(ctx, run_):
        built = src(add_ev.expr)
        ups = [e.expr for e in sp.events if e.kind == 'expr' and isinstance(e.expr, ast.Call) and isinstance(e.expr.func, ast.Attribute)
               and e.expr.func.attr == 'update' and src(e.expr.func.value).endswith('.last_signature_nodes')]
        ats = G.atoms_of(f_)
        if len(ats) > 16:
            raise AnalysisError(f'{run_.loc}: too many conditions on a path through the cells of a row')
        if C07.SIG_A not in ats:
            ats = ats + [C07.SIG_A]
        vals = [dict(zip(ats, bits)) for bits in itertools.product([False, True], repeat=len(ats))]
        vals = [v for v in vals if G.evaluate(f_, v)]
        if ups:
            n_upd += 1
            good = len(ups) == 1 and src(ups[0].func.value) == f'{built}.last_signature_nodes' and len(ups[0].args) == 1 \
                and src(ups[0].args[0]) == built and all(v[C07.SIG_A] for v in vals)
            if not good:
                oku, why_u = False, why_u or f'`{src(ups[0])[:100]}` is not the node of the cell recorded in its own context under isinstance(token, SignatureToken)'
        else:
            pre = lambda v: v.get(C07.BAR_A, False) or (v.get(C07.CORE_A, False) and not v.get(C07.NF_A, False)) or v.get(C07.BBOX_A, False)
            if any(v[C07.SIG_A] and not pre(v) for v in vals):
                oku, why_u = False, why_u or f'a path through the cells does not record a SignatureToken node (under `{G.show(f_)[-120:]}`)'
    oku = oku and n_upd > 0
    ctx.check(oku, rule, run_.loc, run_.qualname, 'signature-context-updated',
              'the importer records a node in its own signature context exactly when its token is a SignatureToken (clefs included)',
              why_u or 'no path through the cells records a node in its signature context')
    ct = ctx.prog.cls(f'{N.TOKENS}.ClefToken')
    ctx.check(any(c.name == 'SignatureToken' for c in ctx.prog.mro(ct)), rule, ct.loc, ct.qualname, 'clef-is-signature', 'ClefToken is a SignatureToken')
