"""C20 - File and command-line paths equal the in-memory API."""
from __future__ import annotations

import ast

from ..errors import AnalysisError
from ..model import src, walk_local, docstring_free
from .. import names as N
from .. import facts as F
from .. import guards as G
from .. import symex
from ..paths import enumerate_paths
from . import c02, c05

IMP = f'{N.IMPORTER}.Importer'


def run(ctx):
    ctx.explanation = (
        'Static rules for C20: (R1) the file reader and the string reader feed Importer.run with csv.reader objects of identical '
        'dialect and with equivalent record splitting (the file path lets csv split on \\n, \\r, \\r\\n through newline=\'\'; the string '
        'path must do the same, str.splitlines also splits on VT, FF, FS, GS, RS, NEL, LS, PS); (R2) every open() on the kernpy I/O '
        'path names the same explicit text encoding as the reader; (R3) dump and dumps hand the identical keyword -> option map to '
        'parse_options_to_ExportOptions, Generic.store = _write(path, export(document, options)), _write creates the parent directory '
        'before opening and writes the content once; (R4) load/loads plumbing is a sibling pair (fresh Importer, same strict '
        'handling); (R5) the two command-line handlers are mirror images modulo {converter, suffix, patterns}, call the API '
        'converters once per input, find_files maps recursive to rglob, main dispatches each flag to its handler; (R6) kern_to_ekern '
        'uses a descendant-closed category set, the extended encoding and writes export_string once; ekern_to_krn = '
        'write(get_kern_from_ekern(read)); get_kern_from_ekern undoes exactly what the extended exporter adds.')
    ctx.not_decided = ['byte equality on all texts; that kern -> ekern -> kern -> ekern is the identity (that is C01 through the CLI)']
    r1_readers(ctx)
    r2_encodings(ctx)
    r3_dump(ctx)
    r4_load(ctx)
    r5_cli(ctx)
    r6_converters(ctx)
    # directory invocations convert many files in one process: the n-th conversion must equal a first one (no options object shared
    # and completed in place, no state kept by the exporter)
    from . import shared
    shared.makedirs_guarded(ctx, 'R3', [f'{N.EXPORTER}.kern_to_ekern', f'{N.EXPORTER}.ekern_to_krn', f'{N.IO}._write'])
    shared.effect_free(ctx, 'R7', [f'{N.GENERIC}.Generic.export', f'{N.EXPORTER}.get_kern_from_ekern'],
                       'a conversion must not depend on the files converted before it in the same run')


# --------------------------------------------------------------------------- R1
def r1_readers(ctx):
    calls = c02.csv_reader_calls(ctx)
    by = {e.name: (e, f, call, stream, orig) for e, f, call, stream, orig in calls}
    if not {'import_file', 'import_string'} <= set(by):
        missing = sorted({'import_file', 'import_string'} - set(by))
        e0 = ctx.prog.func(f'{IMP}.{missing[0]}')
        ctx.violation('R1', e0.loc, e0.qualname, 'rows-not-from-csv-reader', f'{missing} do not feed run() from a csv.reader')
        return
    d1 = c02.reader_dialect(ctx, by['import_file'][1], by['import_file'][2])
    d2 = c02.reader_dialect(ctx, by['import_string'][1], by['import_string'][2])
    e2, f2, c2, stream2, o2 = by['import_string']

    def effective(d_):
        # what the reader does: with quoting disabled the quote character and doubling are without effect; defaults made explicit
        d_ = {k: v for k, v in (d_ or {}).items() if k != '<dialect>'}
        d_.setdefault('delimiter', ',')
        d_.setdefault('quoting', 'csv.QUOTE_MINIMAL')
        if d_.get('quoting') == 'csv.QUOTE_NONE':
            d_.pop('quotechar', None)
            d_.pop('doublequote', None)
        if d_.get('escapechar', None) is None:
            d_.pop('escapechar', None)
        if d_.get('skipinitialspace', False) is False:
            d_.pop('skipinitialspace', None)
        d_.pop('lineterminator', None)      # ignored by the reader
        d_.pop('strict', None) if d_.get('strict', False) is False else None
        return d_
    d1, d2 = effective(d1), effective(d2)
    ctx.check(d1 == d2, 'R1', f'{f2.module.relpath}:{o2.lineno}', e2.qualname, 'reader-dialects-differ',
              f'both readers use the same csv dialect {d1}', f'file reader dialect {d1} != string reader dialect {d2}')
    # file path: open(..., newline='')
    e1 = by['import_file'][0]
    opens = [n for n in walk_local(e1.node) if isinstance(n, ast.Call) and F.is_name(n.func, 'open')]
    okn = len(opens) == 1 and any(k.arg == 'newline' and isinstance(k.value, ast.Constant) and k.value.value == '' for k in opens[0].keywords)
    ctx.check(okn, 'R1', e1.loc, e1.qualname, 'file-newline-untranslated',
              "the file is opened with newline='' so that csv itself splits records on \\n, \\r and \\r\\n")
    # string path: what is handed to csv.reader
    env = G.single_assignments(e2.node)
    origin = G.substitute(stream2, env) if stream2 is not None else None
    s = src(origin)
    p = e2.params[1]
    ok = s in (f"io.StringIO({p}, newline='')", f"StringIO({p}, newline='')")
    if not ok and isinstance(origin, ast.Call) and isinstance(origin.func, ast.Attribute) and origin.func.attr == 'splitlines':
        why = ('`str.splitlines()` also splits on \\x0b, \\x0c, \\x1c, \\x1d, \\x1e, \\x85, U+2028 and U+2029: a lyric that contains one '
               'of them gives a different row structure from loads() than from load()')
    else:
        why = f'the string reader iterates over `{s[:80]}`'
    ctx.check(ok, 'R1', f'{f2.module.relpath}:{o2.lineno}', e2.qualname, 'string-record-splitting',
              "the string reader feeds csv with io.StringIO(text, newline=''): records are split exactly like the file reader", why)
    # ... and that text is the caller's: the parameter is not re-bound to a rewritten text before the reader sees it
    rebound = [n for n in walk_local(e2.node) if isinstance(n, (ast.Assign, ast.AugAssign, ast.AnnAssign))
               and any(isinstance(t, ast.Name) and t.id == p for t in (n.targets if isinstance(n, ast.Assign) else [n.target]))]
    for n in (rebound if ctx.prop != 'C20' else []):      # C20 compares the file path with the string path: both see the same rewritten text
        ctx.violation('R1', f'{e2.module.relpath}:{n.lineno}', e2.qualname, 'text-rewritten-before-reader',
                      f'`{src(n)[:80]}` replaces the text before the line reader sees it: the cells are no longer the literal pieces of the '
                      f'caller\'s text between tabs and line ends')
    # the file path hands over what it read, unchanged, when it delegates to the string path
    e1_ = by['import_file'][0]
    for ret in [n for n in walk_local(e1_.node) if isinstance(n, ast.Return) and isinstance(n.value, ast.Call)
                and isinstance(n.value.func, ast.Attribute) and n.value.func.attr == 'import_string' and n.value.args]:
        a0 = G.substitute(ret.value.args[0], G.single_assignments(e1_.node))
        okr = isinstance(a0, ast.Call) and isinstance(a0.func, ast.Attribute) and a0.func.attr == 'read' and not a0.args
        if not okr:
            raise AnalysisError(f'{e1_.module.relpath}:{ret.lineno}: what import_file hands to import_string (`{src(a0)[:60]}`) is not followed')
    for e in (by['import_file'][0], by['import_string'][0]):
        rets = symex.returns(e)
        ok = len(rets) >= 1 and all(isinstance(v, ast.Call) and (src(v.func) == 'self.run' or (
            # ... or the result of the other import method of the same object, which does (import_file -> import_string)
            isinstance(v.func, ast.Attribute) and F.is_name(v.func.value, 'self') and v.func.attr in ('import_string', 'import_file')
            and v.func.attr != e.name)) for _, v, _ in rets)
        ctx.check(ok, 'R1', e.loc, e.qualname, 'reader-feeds-run', f'{e.name} returns self.run(reader)')


# --------------------------------------------------------------------------- R2
IO_FUNCS = [f'{IMP}.import_file', f'{N.IO}._write', f'{N.EXPORTER}.ekern_to_krn', f'{N.EXPORTER}.kern_to_ekern',
            f'{N.GRAPHVIZ}.GraphvizExporter.export_to_dot']


def r2_encodings(ctx):
    n = 0
    ref = None
    sites = []
    for qn in IO_FUNCS:
        f = ctx.prog.func(qn)
        for c in walk_local(f.node):
            if isinstance(c, ast.Call) and F.is_name(c.func, 'open'):
                kws = {k.arg: k.value for k in c.keywords}
                mode = c.args[1].value if len(c.args) > 1 and isinstance(c.args[1], ast.Constant) else (
                    kws['mode'].value if 'mode' in kws and isinstance(kws['mode'], ast.Constant) else 'r')
                enc = kws.get('encoding')
                encv = enc.value if isinstance(enc, ast.Constant) else (src(enc) if enc is not None else None)
                sites.append((f, c, mode, encv))
                if f.name == 'import_file':
                    ref = encv
    ctx.expect_count('R2', 'open() sites on the I/O path', len(sites), 6)
    if ref is None:
        ctx.violation('R2', ctx.prog.func(IO_FUNCS[0]).loc, IO_FUNCS[0], 'reader-encoding-implicit', 'the file reader names no text encoding')
        return
    for f, c, mode, encv in sites:
        if 'b' in mode:
            continue
        norm = (encv or '').lower().replace('_', '-') if isinstance(encv, str) else encv
        ctx.check(norm == ref.lower().replace('_', '-'), 'R2', f'{f.module.relpath}:{c.lineno}', f.qualname, f'open-encoding:{mode}',
                  f"open(..., {mode!r}) names the encoding {ref!r}, like the reader",
                  f"open(..., {mode!r}) names encoding {encv!r}; the reader uses {ref!r}: under a non-UTF-8 locale the file path "
                  f"cannot write/read the '·' separator of the extended encodings (UnicodeEncodeError) or writes other bytes than "
                  f"load() reads")


# --------------------------------------------------------------------------- R3
def _kwmap(call):
    return {k.arg: src(k.value) for k in call.keywords}


def r3_dump(ctx):
    dump = ctx.prog.func(f'{N.PUBLIC}.dump')
    dumps = ctx.prog.func(f'{N.PUBLIC}.dumps')
    maps = {}
    delegated = None
    for f in (dumps, dump):
        calls = [c for c in walk_local(f.node) if isinstance(c, ast.Call) and src(c.func).endswith('parse_options_to_ExportOptions')]
        if not calls and f is dump:
            # dump written as "dumps + write": its option map is the composition of its forwarding call with the map of dumps
            inner = [c for c in walk_local(f.node) if isinstance(c, ast.Call) and isinstance(c.func, ast.Name) and c.func.id == 'dumps'
                     and getattr(ctx.prog.resolve(f.module, 'dumps'), 'value', None) is dumps]
            if len(inner) == 1 and len(inner[0].args) <= 1 and not any(k.arg is None for k in inner[0].keywords):
                fwd = _kwmap(inner[0])
                pnames = set(dumps.kwonly)
                if all(v in pnames or v == 'None' for v in maps['dumps'].values()):
                    maps['dump'] = {opt: fwd.get(v, 'None') if v in pnames else v for opt, v in maps['dumps'].items()}
                    delegated = inner[0]
                    continue
        if len(calls) != 1:
            raise AnalysisError(f'{f.loc}: parse_options_to_ExportOptions call not found')
        if calls[0].args:
            raise AnalysisError(f'{f.loc}: positional options')
        maps[f.name] = _kwmap(calls[0])
    ctx.check(maps['dump'] == maps['dumps'], 'R3', dump.loc, dump.qualname, 'dump-dumps-option-map',
              f'dump and dumps pass the identical keyword -> option map ({len(maps["dumps"])} options)',
              f'option maps differ: only in dump {sorted(set(maps["dump"].items()) - set(maps["dumps"].items()))}, only in dumps '
              f'{sorted(set(maps["dumps"].items()) - set(maps["dump"].items()))}')
    # every keyword-only parameter of the two signatures is forwarded under the option of the same name (encoding -> kern_type)
    for f in (dump, dumps):
        kwonly = f.kwonly
        m = maps[f.name]
        fwd = {v: k for k, v in m.items()}
        missing = [p for p in kwonly if p not in fwd]
        renamed = {p: fwd[p] for p in kwonly if p in fwd and fwd[p] != p and not (p == 'encoding' and fwd[p] == 'kern_type')}
        ctx.check(not missing and not renamed, 'R3', f.loc, f.qualname, f'{f.name}-forwards-all-options',
                  f'{f.name} forwards each of its {len(kwonly)} options under its own name (encoding as kern_type)',
                  f'{f.name}: not forwarded {missing}, forwarded under another name {renamed}')
        defaults = {a.arg: src(d) for a, d in zip(f.node.args.kwonlyargs, f.node.args.kw_defaults)}
        ctx.check(all(v == 'None' for v in defaults.values()), 'R3', f.loc, f.qualname, f'{f.name}-defaults-none',
                  'every option defaults to None ("not given")', f'{f.name} defaults: { {k: v for k, v in defaults.items() if v != "None"} }')
    rets = symex.returns(dumps)
    ok = len(rets) == 1 and src(rets[0][1]).startswith('generic.Generic.export(document, generic.Generic.parse_options_to_ExportOptions(')
    ctx.check(ok, 'R3', dumps.loc, dumps.qualname, 'dumps-delegates', 'dumps = Generic.export(document, parsed options)')
    rets = symex.returns(dump)
    if delegated is not None:
        wb = ctx.prog.resolve(dump.module, '_write')
        ok = (len(rets) == 1 and src(rets[0][1]).startswith('_write(fp, dumps(document') and wb is not None
              and getattr(wb, 'value', None) is ctx.prog.func(f'{N.IO}._write'))
        if not ok:
            raise AnalysisError(f'{dump.loc}: dump forwards to dumps but what it does with the text is not followed')
        ctx.check(ok, 'R3', dump.loc, dump.qualname, 'dump-delegates', 'dump = _io._write(fp, dumps(document, forwarded options))')
    else:
        ok = len(rets) == 1 and src(rets[0][1]).startswith('generic.Generic.store(document, fp, generic.Generic.parse_options_to_ExportOptions(')
        ctx.check(ok, 'R3', dump.loc, dump.qualname, 'dump-delegates', 'dump = Generic.store(document, fp, parsed options)')
    store = ctx.prog.func(f'{N.GENERIC}.Generic.store')
    doc, path, opt = store.params[1:4]
    writes = []
    ok = True
    for sp in symex.func_sym_paths(store):
        for e in sp.events:
            if e.kind == 'expr' and isinstance(e.expr, ast.Call) and src(e.expr.func) == '_write':
                writes.append(src(e.expr))
                ok = ok and F.same(ctx, store, e.expr, f'_write({path}, cls.export({doc}, {opt}))')
    ok = ok and len(writes) == 1
    ctx.check(ok, 'R3', store.loc, store.qualname, 'store-writes-export',
              'Generic.store writes exactly Generic.export(document, options) to the path', f'Generic.store does {writes}')
    b = ctx.prog.resolve(store.module, '_write')
    w = ctx.prog.func(f'{N.IO}._write')
    ctx.check(b is not None and b.kind == 'def' and b.value is w, 'R3', store.loc, store.qualname, 'store-uses-io-write', 'store uses _io._write')
    pth, content = w.params[:2]
    sps = symex.func_sym_paths(w)
    okw = True
    for sp in sps:
        if sp.end == 'raise':
            continue
        ws = [e for e in sp.events if e.kind == 'expr' and isinstance(e.expr, ast.Call) and isinstance(e.expr.func, ast.Attribute)
              and e.expr.func.attr == 'write']
        opens = [e for e in sp.events if e.kind == 'with' and isinstance(e.expr, ast.Call) and F.is_name(e.expr.func, 'open')]
        okw = okw and len(ws) == 1 and len(ws[0].expr.args) == 1 and src(ws[0].expr.args[0]) == content and len(opens) == 1
        if opens:
            file_, mode, _ = F.open_args(opens[0].expr)
            okw = okw and file_ is not None and src(file_) == pth and mode in ('w', 'w+', 'wt')
    ctx.check(okw, 'R3', w.loc, w.qualname, 'write-once', '_write opens the path for writing and writes the content exactly once')
    # on every path that opens the file: the directory is known to exist (the existence test held) or it was created before
    okm, n_open = True, 0
    for sp in sps:
        if sp.end == 'raise':
            continue
        idx_open = [i for i, e in enumerate(sp.events) if e.kind == 'with' and isinstance(e.expr, ast.Call) and F.is_name(e.expr.func, 'open')]
        if not idx_open:
            continue
        n_open += 1
        made = [i for i, e in enumerate(sp.events) if e.kind == 'expr' and isinstance(e.expr, ast.Call)
                and (src(e.expr.func) == 'os.makedirs' or (isinstance(e.expr.func, ast.Attribute) and e.expr.func.attr == 'mkdir'))
                and any(k.arg == 'exist_ok' and src(k.value) == 'True' for k in e.expr.keywords)]
        exists = any(F.forced(sp.condition(), a, True) for a in G.atoms_of(sp.condition())
                     if a.startswith('os.path.exists(') or a.startswith('os.path.isdir(') or a.endswith('.exists()') or a.endswith('.is_dir()'))
        okm = okm and (exists or any(i < idx_open[0] for i in made))
    okm = okm and n_open > 0
    ctx.check(okm, 'R3', w.loc, w.qualname, 'creates-directories', '_write creates the missing parent directories before opening the file')


# --------------------------------------------------------------------------- R4
def r4_load(ctx):
    load = ctx.prog.func(f'{N.PUBLIC}.load')
    loads = ctx.prog.func(f'{N.PUBLIC}.loads')
    r1 = symex.returns(load)
    r2 = symex.returns(loads)
    ok1 = len(r1) == 1 and F.same(ctx, load, r1[0][1], f'generic.Generic.read(path={load.params[0]}, strict=raise_on_errors)')
    ok2 = len(r2) == 1 and F.same(ctx, loads, r2[0][1], f'generic.Generic.create(content={loads.params[0]}, strict=raise_on_errors)')
    ctx.check(ok1, 'R4', load.loc, load.qualname, 'load-delegates', 'load = Generic.read(path, strict=raise_on_errors)')
    ctx.check(ok2, 'R4', loads.loc, loads.qualname, 'loads-delegates', 'loads = Generic.create(content, strict=raise_on_errors)')
    rd = ctx.prog.func(f'{N.GENERIC}.Generic.read')
    cr = ctx.prog.func(f'{N.GENERIC}.Generic.create')

    def facts(f, method):
        out = []
        for sp in symex.func_sym_paths(f):
            c = G.show(sp.condition())
            if sp.end == 'return':
                out.append(('return', c, src(sp.value).replace(method, 'IMPORT').replace(f.params[1], 'SRC')))
            elif sp.end == 'raise':
                out.append(('raise', c, src(sp.value).replace(method, 'IMPORT').replace(f.params[1], 'SRC')))
        return sorted(out)
    fa, fb = facts(rd, 'import_file'), facts(cr, 'import_string')
    ctx.check(fa == fb, 'R4', rd.loc, rd.qualname, 'read-create-siblings',
              'Generic.read and Generic.create are the same function modulo {import_file <-> import_string}: fresh Importer, '
              '(document, importer.errors), identical strict handling',
              f'Generic.read and Generic.create differ: {[x for x in fa if x not in fb][:2]} vs {[x for x in fb if x not in fa][:2]}')
    want = "(Importer().IMPORT(SRC), Importer().errors)"
    okf = any(k == 'return' and v == want for k, c, v in fa)
    ctx.check(okf, 'R4', rd.loc, rd.qualname, 'fresh-importer', 'the document and the error list come from an Importer created in the call',
              f'Generic.read returns {[v for k, c, v in fa if k == "return"]}')


# --------------------------------------------------------------------------- R5
CORR = [('kern_to_ekern', 'CONV'), ('ekern_to_krn', 'CONV'), ("'.ekrn'", 'SUF'), ("'.krn'", 'SUF'),
        ("['*.krn', '*.kern']", 'PATS'), ("['*.ekrn', '*.ekern']", 'PATS')]


def r5_cli(ctx):
    hk = ctx.prog.func(f'{N.MAIN}.handle_kern2ekern')
    he = ctx.prog.func(f'{N.MAIN}.handle_ekern2kern')

    def facts(f):
        out = []
        for sp in symex.func_sym_paths(f):
            conv = []
            for e in sp.events:
                if e.kind == 'expr' and isinstance(e.expr, ast.Call) and isinstance(e.expr.func, ast.Name) \
                        and e.expr.func.id in ('kern_to_ekern', 'ekern_to_krn'):
                    conv.append(src(e.expr))
            its = [src(e.expr) for e in sp.events if e.kind in ('iter', 'skip')]
            handled = any(e.kind == 'except' for e in sp.events)
            cond = [c for c in G.atoms_of(sp.condition()) if 'verbose' not in c]
            cond_v = []
            for node, truth in sp.conds:
                if 'verbose' in src(node):
                    continue
                cond_v.append((src(node), truth))
            s = repr((tuple(cond_v), tuple(conv), tuple(its), sp.end))
            import re
            s = re.sub(r'@(iter)?\d+', '@', s)
            s = re.sub(r'__\d+', '', s)         # fresh names of inlined helpers
            for a, b in CORR:
                s = s.replace(a, b)
            out.append(s)
        return sorted(set(out))
    fk, fe = facts(hk), facts(he)
    ctx.check(fk == fe, 'R5', hk.loc, hk.qualname, 'cli-handlers-mirror',
              'the two handlers are mirror images modulo {converter, suffix, patterns}: same file/directory split, same use of '
              '--recursive, same output-path rule, one converter call per input',
              f'the handlers differ: kern2ekern-only facts {[x for x in fk if x not in fe][:1]}; ekern2kern-only facts '
              f'{[x for x in fe if x not in fk][:1]}')
    # absolute facts of one handler (the other follows by the mirror rule)
    IN = 'Path(args.input_path)'
    file_ok, dir_ok, per_file_ok = [], [], []
    for sp in symex.func_sym_paths(hk):
        tests = {src(n): t for n, t in sp.conds}
        pc = sp.condition()
        is_file = True if F.forced(pc, f'{IN}.is_file()', True) else (False if F.forced(pc, f'{IN}.is_file()', False) else None)
        if is_file is None:
            is_file = False if F.forced(pc, f'{IN}.is_dir()', True) else (True if F.forced(pc, f'{IN}.is_dir()', False) else None)
        for a_, v_ in (('args.output_path', True), ('args.output_path', False)):
            if a_ not in tests and F.forced(pc, a_, v_):
                tests[a_] = v_
        convs = [e.expr for e in sp.events if e.kind == 'expr' and isinstance(e.expr, ast.Call) and F.is_name(e.expr.func, 'kern_to_ekern')]
        its = [e.expr for e in sp.events if e.kind in ('iter', 'skip')]
        if is_file is True:
            good = len(convs) == 1 and len(convs[0].args) == 2 and src(convs[0].args[0]) == f'str({IN})' and not its
            if good:
                out = convs[0].args[1]
                out = out.args[0] if isinstance(out, ast.Call) and F.is_name(out.func, 'str') and len(out.args) == 1 else None
                given = tests.get('args.output_path')
                if isinstance(out, ast.BoolOp) and isinstance(out.op, ast.Or) and len(out.values) == 2:
                    first, second = out.values
                    if isinstance(first, ast.Constant) and first.value is None:
                        out = second
                    elif given is True and src(first) == 'Path(args.output_path)':
                        out = first
                    elif isinstance(first, ast.IfExp):
                        out = None if src(out) != f"(Path(args.output_path) if args.output_path else None) or {IN}.with_suffix('.ekrn')" else \
                            (first.body if given else second)
                if out is None:
                    good = False
                elif given is True:
                    good = src(out) == 'Path(args.output_path)'
                elif given is False:
                    good = src(out) == f"{IN}.with_suffix('.ekrn')"
                else:
                    good = src(out) in (f"(Path(args.output_path) if args.output_path else None) or {IN}.with_suffix('.ekrn')",)
            file_ok.append(good)
        elif is_file is False:
            ff_calls = [i for i in its if isinstance(i, ast.Call) and F.is_name(i.func, 'find_files')]
            dir_ok.append(len(ff_calls) == 1 and F.same(ctx, hk, ff_calls[0], f"find_files({IN}, ['*.krn', '*.kern'], recursive=args.recursive)"))
            entered = [e for e in sp.events if e.kind == 'iter']
            if entered and not any(e.kind == 'except' for e in sp.events):
                import re
                lv = None
                good = len(convs) == 1 and len(convs[0].args) == 2
                if good:
                    a0, a1 = src(convs[0].args[0]), src(convs[0].args[1])
                    m = re.fullmatch(r'str\((\w+@\d+)\)', a0)
                    good = m is not None and a1 == f"str({m.group(1)}.with_suffix('.ekrn'))"
                per_file_ok.append(good)
    ctx.check(bool(file_ok) and all(file_ok), 'R5', hk.loc, hk.qualname, 'cli-file-mode',
              'file mode: converter(str(input), str(output_path or input.with_suffix(SUF))) exactly once')
    ctx.check(bool(dir_ok) and all(dir_ok), 'R5', hk.loc, hk.qualname, 'cli-directory-mode',
              'directory mode: files = find_files(input, patterns, recursive=args.recursive)')
    ctx.check(bool(per_file_ok) and all(per_file_ok), 'R5', hk.loc, hk.qualname, 'cli-per-file',
              'directory mode: converter(str(file), str(file.with_suffix(SUF))) for each file found')
    for f, conv, suf, pats in ((hk, 'kern_to_ekern', '.ekrn', ['*.krn', '*.kern']), (he, 'ekern_to_krn', '.krn', ['*.ekrn', '*.ekern'])):
        names = {n.func.id for n in walk_local(f.node) if isinstance(n, ast.Call) and isinstance(n.func, ast.Name)
                 and n.func.id in ('kern_to_ekern', 'ekern_to_krn')}
        b = ctx.prog.resolve(f.module, conv)
        okc = names == {conv} and b is not None and b.kind == 'def' and b.value is ctx.prog.func(f'{N.EXPORTER}.{conv}')
        ctx.check(okc, 'R5', f.loc, f.qualname, f'cli-calls-api:{conv}', f'{f.name} calls the API converter {conv}',
                  f'{f.name} calls {sorted(names)}')
        sufs = {n.args[0].value for n in walk_local(f.node) if isinstance(n, ast.Call) and isinstance(n.func, ast.Attribute)
                and n.func.attr == 'with_suffix' and n.args and isinstance(n.args[0], ast.Constant)}
        ctx.check(sufs == {suf}, 'R5', f.loc, f.qualname, f'cli-suffix:{conv}', f'outputs get the suffix {suf}', f'suffixes {sorted(sufs)}')
        env_ = G.single_assignments(f.node)
        ps = []
        for n in walk_local(f.node):
            if isinstance(n, ast.Call) and F.is_name(n.func, 'find_files') and len(n.args) > 1:
                ok_, v_ = ctx.ce.try_eval(G.substitute(n.args[1], env_), f.module)
                ps.append(list(v_) if ok_ and isinstance(v_, (list, tuple)) else src(n.args[1]))
        ctx.check(ps == [pats], 'R5', f.loc, f.qualname, f'cli-patterns:{conv}', f'inputs match {pats}', f'patterns {ps}')
    ff = ctx.prog.func(f'{N.MAIN}.find_files')
    d, pats, rec = ff.params[:3]
    okr = True
    n = 0
    if not [x for x in walk_local(ff.node) if isinstance(x, ast.For)]:
        # the same list as one expression: the concatenation, pattern by pattern, of what rglob / glob yield
        from .. import seqs
        for cond, val, sp in symex.returns(ff):
            v = val.args[0] if isinstance(val, ast.Call) and F.is_name(val.func, 'list') and len(val.args) == 1 else val
            if not (isinstance(v, (ast.GeneratorExp, ast.ListComp)) and len(v.generators) == 2 and not v.generators[0].ifs and not v.generators[1].ifs
                    and isinstance(v.generators[0].target, ast.Name) and isinstance(v.generators[1].target, ast.Name)
                    and F.is_name(v.elt, v.generators[1].target.id) and src(v.generators[0].iter) == pats):
                raise AnalysisError(f'{ff.loc}: find_files returns `{src(val)[:100]}`: neither a loop over the patterns nor their flat map')
            pv, each = v.generators[0].target.id, v.generators[1].iter
            ats = set(G.atoms_of(cond)) | {a for t in ast.walk(each) if isinstance(t, ast.IfExp) for a in G.atoms_of(G._formula(t.test))}
            if not ats <= {rec}:
                okr = False
                continue
            for rv in (True, False):
                if not G.evaluate(cond, {a: rv for a in G.atoms_of(cond)}):
                    continue
                n += 1
                leaf = seqs.select(each, {rec: rv})
                okr = okr and src(leaf) == (f'{d}.rglob({pv})' if rv else f'{d}.glob({pv})')
    for lp in [x for x in walk_local(ff.node) if isinstance(x, ast.For)]:
        for sp in symex.sym_paths(lp.body):
            calls = [src(e.expr) for e in sp.events if e.kind == 'expr' and isinstance(e.expr, ast.Call)]
            ats = G.atoms_of(sp.condition())
            if ats != [rec]:
                okr = False
                continue
            n += 1
            want = f'files.extend({d}.rglob({lp.target.id}))' if G.evaluate(sp.condition(), {rec: True}) else f'files.extend({d}.glob({lp.target.id}))'
            okr = okr and calls == [want]
    ctx.check(okr and n == 2, 'R5', ff.loc, ff.qualname, 'find-files-recursive',
              'find_files uses rglob when recursive, glob otherwise, for every pattern')
    mn = ctx.prog.func(f'{N.MAIN}.main')
    disp = {}
    for sp in symex.func_sym_paths(mn):
        for e in sp.events:
            if e.kind == 'expr' and isinstance(e.expr, ast.Call) and isinstance(e.expr.func, ast.Name) and e.expr.func.id.startswith('handle_'):
                flags = [src(nod) for nod, truth in sp.conds if truth and src(nod).startswith('create_parser().parse_args().')]
                disp[e.expr.func.id] = (flags[-1].rpartition('.')[2] if flags else None, src(e.expr.args[0]) if e.expr.args else None)
    okd = disp.get('handle_kern2ekern', (None,))[0] == 'kern2ekern' and disp.get('handle_ekern2kern', (None,))[0] == 'ekern2kern'
    ctx.check(okd, 'R5', mn.loc, mn.qualname, 'main-dispatch', 'main dispatches --kern2ekern / --ekern2kern to their handlers',
              f'main dispatch: {disp}')


# --------------------------------------------------------------------------- R6
def r6_converters(ctx):
    ke = ctx.prog.func(f'{N.EXPORTER}.kern_to_ekern')
    inp, outp = ke.params[:2]
    eo = ctx.prog.cls(f'{N.EXPORTER}.ExportOptions')
    cons = [c for c in walk_local(ke.node) if isinstance(c, ast.Call) and F.constructed_class(ctx, c, ke) is eo]
    ctx.expect_count('R6', 'ExportOptions construction in kern_to_ekern', len(cons), 1)
    for c in cons:
        at = f'{ke.module.relpath}:{c.lineno}'
        b = F.bind_args(c, ctx.prog.find_method(eo, '__init__'), True)
        status, info = c05.category_set_status(ctx, b.get('token_categories'), ke)
        ctx.check(status == 'closed', 'R6', at, ke.qualname, 'converter-category-set-not-closed',
                  f'the converter exports with a descendant-closed category set ({info})',
                  f'the converter passes `{src(b.get("token_categories"))}` which is not descendant-closed: it writes only '
                  f'top-level-category tokens (barlines) for a score whose API export is complete')
        ok, kt = ctx.ce.try_eval(b.get('kern_type'), ke.module) if b.get('kern_type') is not None else (False, None)
        ctx.check(ok and getattr(kt, 'name', None) == 'eKern', 'R6', at, ke.qualname, 'converter-encoding',
                  'the converter exports the extended encoding', f'kern_type is `{src(b.get("kern_type"))}`')
        ok, st = ctx.ce.try_eval(b.get('spine_types'), ke.module) if b.get('spine_types') is not None else (False, None)
        ctx.check(ok and list(st) == ['**kern'], 'R6', at, ke.qualname, 'converter-spines', 'the converter exports the **kern spines')
    wrote = []
    for sp in symex.func_sym_paths(ke):
        if sp.end == 'raise':
            continue
        ws = [src(e.expr) for e in sp.events if e.kind == 'expr' and isinstance(e.expr, ast.Call) and isinstance(e.expr.func, ast.Attribute)
              and e.expr.func.attr == 'write']
        wrote.append(ws)
    okw = bool(wrote) and all(len(w) == 1 and 'Exporter().export_string(Importer().import_file(' + inp + ')' in w[0] for w in wrote)
    ctx.check(okw, 'R6', ke.loc, ke.qualname, 'converter-writes-export',
              'kern_to_ekern writes Exporter().export_string(Importer().import_file(input), options) exactly once',
              f'kern_to_ekern writes {wrote[:2]}')
    ek = ctx.prog.func(f'{N.EXPORTER}.ekern_to_krn')
    wrote = []
    for sp in symex.func_sym_paths(ek):
        ws = [src(e.expr) for e in sp.events if e.kind == 'expr' and isinstance(e.expr, ast.Call) and isinstance(e.expr.func, ast.Attribute)
              and e.expr.func.attr == 'write']
        wrote.append(ws)
    okw = bool(wrote) and all(len(w) == 1 and 'get_kern_from_ekern(' in w[0] and '.read()' in w[0] for w in wrote)
    ctx.check(okw, 'R6', ek.loc, ek.qualname, 'ekern-to-krn-shape', 'ekern_to_krn = write(get_kern_from_ekern(read(input)))',
              f'ekern_to_krn writes {wrote[:2]}')
    check_get_kern_from_ekern(ctx, 'R6')


def check_get_kern_from_ekern(ctx, rule):
    g = ctx.prog.func(f'{N.EXPORTER}.get_kern_from_ekern')
    p = g.params[0]
    rets = symex.returns(g)
    ok = False
    reps = []
    if len(rets) == 1:
        node = rets[0][1]
        while isinstance(node, ast.Call) and isinstance(node.func, ast.Attribute) and (
                (node.func.attr == 'replace' and len(node.args) == 2) or (node.func.attr == 'translate' and len(node.args) == 1)) and not node.keywords:
            if node.func.attr == 'translate':
                # a translation table that only deletes characters is the chain of their deletions (in any order)
                okt, table = ctx.ce.try_eval(node.args[0], g.module)
                if not (okt and isinstance(table, dict) and all(isinstance(k_, int) for k_ in table)):
                    raise AnalysisError(f'{g.loc}: the translation table `{src(node.args[0])[:60]}` is not a constant')
                for k_, v_ in table.items():
                    reps.append((chr(k_), '' if v_ is None else (chr(v_) if isinstance(v_, int) else v_)))
                node = node.func.value
                continue
            ok1, a = ctx.ce.try_eval(node.args[0], g.module)
            ok2, b = ctx.ce.try_eval(node.args[1], g.module)
            reps.append((a if ok1 else src(node.args[0]), b if ok2 else src(node.args[1])))
            node = node.func.value
        ok = F.is_name(node, p)
    ts = ctx.ce.module_const(N.TOKENS, 'TOKEN_SEPARATOR')
    ds = ctx.ce.module_const(N.TOKENS, 'DECORATION_SEPARATOR')
    enc = ctx.prog.cls(f'{N.TOKENIZERS}.Encoding')
    ek = ctx.ce.enum(enc)['eKern'].value        # 'ekern'
    nk = ctx.ce.enum(enc)['normalizedKern'].value
    want = {(f'**{ek}', f'**{nk}'), (ts, ''), (ds, '')}
    ctx.check(ok and set(reps) == want, rule, g.loc, g.qualname, 'get-kern-from-ekern',
              f'get_kern_from_ekern rewrites the header **{ek} -> **{nk} and deletes exactly the two separator constants',
              f'get_kern_from_ekern applies {sorted(reps, key=str)}; expected {sorted(want)}')
