"""C04 - The six encodings are consistent views of one document."""
from __future__ import annotations

import ast

from ..errors import AnalysisError
from ..model import src, walk_local, docstring_free
from ..consteval import EnumMember
from .. import names as N
from .. import facts as F
from .. import guards as G
from .. import symex
from .exporter_facts import EXP

TK = N.TOKENIZERS
PAIRS = [('KernTokenizer', 'EkernTokenizer', False), ('BkernTokenizer', 'BekernTokenizer', False),
         ('AKernTokenizer', 'AEKernTokenizer', True)]
FACTORY = {'kern': 'KernTokenizer', 'ekern': 'EkernTokenizer', 'bkern': 'BkernTokenizer', 'bekern': 'BekernTokenizer',
           'akern': 'AKernTokenizer', 'aekern': 'AEKernTokenizer'}


def run(ctx):
    ctx.explanation = (
        'Static rules for C04 on the tokenizer family: (R1) each plain tokenizer returns its extended counterpart\'s tokenize(token) - '
        'counterpart built with the same token_categories (and last_clef) - post-processed only by deleting the two separator '
        'constants; deleting the decoration separator may be omitted only if a character-absence analysis proves that the '
        'counterpart\'s result cannot contain it; (R2) the three extended tokenizers pass the same membership predicate; (R3) the basic '
        'encoding removes the signifiers note by note: no order-truncating operation (subscript of split, slice, partition) is applied '
        'to the whole-cell export, only inside an iteration over the chord separator; (R4) HeaderTokenGenerator.new builds '
        "'**' + prefix + original type with the original spine id, Encoding.prefix is total over the six members with prefix + 'kern' "
        '== value, export_token applies it to every header; (R5) TokenizerFactory.create dispatches each of the six values to its '
        'class (raise otherwise) and both agnostic branches receive the clef; (R6) ChordToken.export covers all notes and forwards the '
        'keyword arguments, non-note export ignores them.')
    ctx.not_decided = ['behaviour on cells that themselves contain the separator characters @ or the middle dot']
    sep = {'TOKEN_SEPARATOR': ctx.ce.module_const(N.TOKENS, 'TOKEN_SEPARATOR'),
           'DECORATION_SEPARATOR': ctx.ce.module_const(N.TOKENS, 'DECORATION_SEPARATOR')}
    ctx.check(len(set(sep.values())) == 2 and all(len(v) == 1 for v in sep.values()) and ' ' not in sep.values(), 'R1',
              'kernpy/core/tokens.py:10', f'{N.TOKENS}.TOKEN_SEPARATOR', 'separator-constants',
              f'the two separators are distinct single characters, different from the chord separator: {sep}')
    r1_plain_is_stripped_extended(ctx, sep)
    r2_predicates(ctx)
    r3_note_by_note(ctx, sep)
    r3b_separator_marks_signifiers(ctx)
    r4_header(ctx)
    r5_factory(ctx)
    r6_chords(ctx)
    # the six encodings are views of ONE selection: the selected set does not depend on the encoding
    from . import c05
    ctx.alias = {'R1': 'R7'}
    c05.r1_selected_set(ctx)
    ctx.alias = {}
    # the six encodings are views of ONE document: exporting in one encoding leaves the document as it was for the next
    from . import shared
    shared.effect_free(ctx, 'R8', [f'{N.PUBLIC}.dumps'],
                       'an export that writes to the document changes what the next encoding of the same document shows')


def _replace_chain(ctx, f, node):
    removed = []
    while isinstance(node, ast.Call) and isinstance(node.func, ast.Attribute) and not node.keywords and (
            (node.func.attr == 'replace' and len(node.args) == 2) or (node.func.attr == 'translate' and len(node.args) == 1)):
        if node.func.attr == 'translate':
            # a constant translation table is the chain of its single-character replacements (deletions when the value is None)
            okt, table = ctx.ce.try_eval(node.args[0], f.module, f.cls, {})
            if not (okt and isinstance(table, dict) and all(isinstance(k_, int) for k_ in table)):
                return None, None
            for k_, v_ in table.items():
                removed.append((chr(k_), '' if v_ is None else (chr(v_) if isinstance(v_, int) else v_)))
            node = node.func.value
            continue
        ok1, a = ctx.ce.try_eval(node.args[0], f.module)
        ok2, b = ctx.ce.try_eval(node.args[1], f.module)
        if not (ok1 and ok2):
            return None, None
        removed.append((a, b))
        node = node.func.value
    return node, removed


# --------------------------------------------------------------------------- character absence (A4)
def lacks(ctx, f, node, ch, env_lacks, depth=0):
    """True if the string expression definitely lacks character `ch`."""
    if depth > 12:
        return False
    rec = lambda n: lacks(ctx, f, n, ch, env_lacks, depth + 1)
    if isinstance(node, ast.Constant) and isinstance(node.value, str):
        return ch not in node.value
    if isinstance(node, ast.Name):
        if node.id in env_lacks:
            return env_lacks[node.id]
        ok, v = ctx.ce.try_eval(node, f.module)
        return ok and isinstance(v, str) and ch not in v
    if isinstance(node, ast.Subscript):
        base = node.value
        if isinstance(base, ast.Call) and isinstance(base.func, ast.Attribute) and base.func.attr in ('split', 'rsplit') \
                and len(base.args) == 1 and not base.keywords:     # no maxsplit: every piece lacks the separator
            ok, v = ctx.ce.try_eval(base.args[0], f.module)
            if ok and v == ch:
                return True
        if isinstance(base, ast.Call) and isinstance(base.func, ast.Attribute) and base.func.attr in ('partition', 'rpartition') \
                and len(base.args) == 1 and not base.keywords and isinstance(node.slice, ast.Constant) and node.slice.value in (0, 2, -1, -3):
            ok, v = ctx.ce.try_eval(base.args[0], f.module)
            head = node.slice.value in (0, -3)
            if ok and v == ch and head == (base.func.attr == 'partition'):
                return True     # the part before the first (after the last) separator lacks it
            return rec(base.func.value)
        return rec(base)       # slice / element of a lacking string
    if isinstance(node, ast.Call) and isinstance(node.func, ast.Attribute):
        m = node.func.attr
        if m in ('strip', 'lstrip', 'rstrip', 'lower', 'upper', 'removesuffix', 'removeprefix'):
            return rec(node.func.value)
        if m == 'replace' and len(node.args) == 2:
            ok, a = ctx.ce.try_eval(node.args[0], f.module)
            if ok and a == ch and rec(node.args[1]):
                return True
            return rec(node.func.value) and rec(node.args[1])
        if m == 'join' and len(node.args) == 1:
            if not rec(node.func.value):
                return False
            a = node.args[0]
            if isinstance(a, (ast.GeneratorExp, ast.ListComp)):
                e2 = dict(env_lacks)
                # elements iterate X.split(sep): element lacks ch iff X lacks ch or sep == ch
                for g in a.generators:
                    if isinstance(g.target, ast.Name):
                        e2[g.target.id] = _iter_elem_lacks(ctx, f, g.iter, ch, env_lacks, depth)
                return lacks(ctx, f, a.elt, ch, e2, depth + 1)
            if isinstance(a, ast.Name):
                return env_lacks.get(a.id, False)
            return False
        # a helper of the repository: every string it returns lacks the character
        callee = F._static_callee(ctx, node, f)[0]
        if callee is not None and callee.name != '__init__' and depth < 6 and callee.qualname not in _LACKS_BUSY:
            _LACKS_BUSY.add(callee.qualname)
            try:
                return function_result_lacks(ctx, callee, ch)
            finally:
                _LACKS_BUSY.discard(callee.qualname)
    if isinstance(node, ast.BinOp) and isinstance(node.op, ast.Add):
        return rec(node.left) and rec(node.right)
    if isinstance(node, (ast.ListComp, ast.GeneratorExp)):      # a list lacks ch when each of its elements does
        e2 = dict(env_lacks)
        for g in node.generators:
            if isinstance(g.target, ast.Name):
                e2[g.target.id] = _iter_elem_lacks(ctx, f, g.iter, ch, env_lacks, depth)
        return lacks(ctx, f, node.elt, ch, e2, depth + 1)
    if isinstance(node, (ast.List, ast.Tuple)):
        return all(rec(e) for e in node.elts)
    if isinstance(node, ast.JoinedStr):
        return all((ch not in v.value) if isinstance(v, ast.Constant) else rec(v.value) for v in node.values)
    if isinstance(node, ast.IfExp):
        return rec(node.body) and rec(node.orelse)
    return False


_LACKS_BUSY = set()


def _iter_elem_lacks(ctx, f, it, ch, env_lacks, depth):
    if isinstance(it, ast.Call) and isinstance(it.func, ast.Attribute) and it.func.attr in ('split', 'rsplit'):
        if len(it.args) == 1 and not it.keywords:
            ok, v = ctx.ce.try_eval(it.args[0], f.module)
            if ok and v == ch:
                return True
        return lacks(ctx, f, it.func.value, ch, env_lacks, depth + 1)
    return False


def function_result_lacks(ctx, f, ch):
    """Every returned string of f lacks ch (path-sensitive for `ch not in x` guards, flow-insensitive for lists)."""
    # list locals: lack iff every appended element lacks (computed after scalar locals)
    ok_all = True
    n = 0
    for sp in symex.func_sym_paths(f):
        if sp.end != 'return':
            continue
        n += 1
        env = {}
        # guards of the form `CH not in X` / `CH in X` on this path
        for node, truth in sp.conds:
            core, pol = node, truth
            if isinstance(core, ast.Compare) and len(core.ops) == 1 and isinstance(core.ops[0], (ast.In, ast.NotIn)):
                okc, v = ctx.ce.try_eval(core.left, f.module)
                absent = (isinstance(core.ops[0], ast.NotIn)) == pol
                if okc and v == ch and absent:
                    env['<guard>'] = src(core.comparators[0])
        val = sp.value
        if '<guard>' in env and src(val) == env['<guard>']:
            continue
        # the value returned on this path, locals replaced by what they hold on it
        if val is not None and lacks(ctx, f, val, ch, {}):
            continue
        # loop-built lists
        e2 = {}
        for lp in walk_local(f.node):
            if isinstance(lp, ast.For) and isinstance(lp.target, ast.Name):
                e2[lp.target.id] = _iter_elem_lacks(ctx, f, lp.iter, ch, {}, 0)
        assigns = {}
        for a in walk_local(f.node):
            if isinstance(a, ast.Assign) and len(a.targets) == 1 and isinstance(a.targets[0], ast.Name):
                assigns.setdefault(a.targets[0].id, []).append(a.value)
            elif isinstance(a, ast.Assign) and len(a.targets) == 1 and isinstance(a.targets[0], ast.Tuple) and len(a.targets[0].elts) == 3 \
                    and all(isinstance(t, ast.Name) for t in a.targets[0].elts) and isinstance(a.value, ast.Call) \
                    and isinstance(a.value.func, ast.Attribute) and a.value.func.attr in ('partition', 'rpartition'):
                for k, t in enumerate(a.targets[0].elts):       # head, sep, tail = x.partition(sep)
                    assigns.setdefault(t.id, []).append(ast.Subscript(value=a.value, slice=ast.Constant(value=k), ctx=ast.Load()))
        # greatest fixpoint: assume every assigned local lacks ch, then remove the ones that cannot be shown to
        def is_list(vals_):
            return all(isinstance(v, ast.List) and not v.elts for v in vals_)
        for name in assigns:
            e2[name] = True
        for _ in range(8):
            changed = False
            for name, vals in assigns.items():
                if is_list(vals):
                    apps = [c for c in walk_local(f.node) if isinstance(c, ast.Call) and isinstance(c.func, ast.Attribute)
                            and c.func.attr in ('append', 'extend', 'insert') and F.is_name(c.func.value, name)]
                    new_v = bool(apps) and all(c.func.attr == 'append' and lacks(ctx, f, c.args[0], ch, e2) for c in apps)
                else:
                    new_v = all(lacks(ctx, f, v, ch, e2) for v in vals)
                if new_v != e2[name]:
                    e2[name] = new_v
                    changed = True
            if not changed:
                break
        ret_node = sp.path.end_node.value
        if not lacks(ctx, f, ret_node, ch, e2):
            ok_all = False
    return ok_all and n > 0


# --------------------------------------------------------------------------- R1
def r1_plain_is_stripped_extended(ctx, sep):
    for plain, ext, has_clef in PAIRS:
        pf = ctx.prog.func(f'{TK}.{plain}.tokenize')
        ec = ctx.prog.cls(f'{TK}.{ext}')
        ef = ctx.prog.func(f'{TK}.{ext}.tokenize')
        tok_p = pf.params[1]
        if pf.cls is not None and pf.cls.name != plain and pf.cls.qualname not in ctx.prog.normalizer.known:
            # the plain tokenizers inherit one template method from a class the pinned tree does not have: what each of them does is
            # decided by the hooks and tables its sub-class overrides - the method is specialised per class (F.class_returns)
            pf, rets = F.class_returns(ctx, ctx.prog.cls(f'{TK}.{plain}'), 'tokenize')
        else:
            rets = symex.returns(pf)
        ctx.expect_count('R1', f'return paths of {plain}.tokenize', len(rets), 1)
        for cond, val, sp in rets:
            at = f'{pf.module.relpath}:{sp.path.end_node.lineno}'
            core, removed = _replace_chain(ctx, pf, val)
            if core is None:
                ctx.violation('R1', at, pf.qualname, 'post-processing-not-constant', f'`{src(val)[:100]}` replaces non-constant strings')
                continue
            okc = isinstance(core, ast.Call) and isinstance(core.func, ast.Attribute) and core.func.attr == 'tokenize' \
                and F.constructed_class(ctx, core.func.value, pf) is ec and len(core.args) == 1 and F.is_name(core.args[0], tok_p) \
                and cond == ('const', True)
            ctx.check(okc, 'R1', at, pf.qualname, 'plain-delegates-to-extended',
                      f'{plain}.tokenize = {ext}(...).tokenize(token) post-processed',
                      f'{plain}.tokenize returns `{src(val)[:120]}`: not the {ext} rendering of the same token')
            if not okc:
                continue
            kws = {k.arg: src(k.value) for k in core.func.value.keywords}
            want = {'token_categories': 'self.token_categories'}
            if has_clef:
                want['last_clef'] = 'self.last_clef'
            ctx.check(kws == want, 'R1', at, pf.qualname, 'counterpart-same-configuration',
                      f'the {ext} counterpart receives the same token_categories' + (' and last_clef' if has_clef else ''),
                      f'the {ext} counterpart is built with {kws}, expected {want}')
            bad = [(a, b) for a, b in removed if b != '' or a not in sep.values()]
            ctx.check(not bad, 'R1', at, pf.qualname, 'only-separators-deleted',
                      'the only post-processing is deletion of separator characters', f'post-processing also does {bad}')
            deleted = {a for a, b in removed if b == ''}
            ctx.check(sep['TOKEN_SEPARATOR'] in deleted, 'R1', at, pf.qualname, 'token-separator-deleted',
                      'the token separator is deleted', 'the token separator is not deleted from the plain encoding')
            if sep['DECORATION_SEPARATOR'] in deleted:
                ctx.holds('R1', at, pf.qualname, 'the decoration separator is deleted')
            else:
                absent = function_result_lacks(ctx, ef, sep['DECORATION_SEPARATOR'])
                ctx.check(absent, 'R1', at, pf.qualname, 'decoration-separator-left',
                          f'the decoration separator need not be deleted: {ext}.tokenize provably never returns it '
                          f'(character-absence analysis)',
                          f'the decoration separator is not deleted and {ext}.tokenize may return it')


# --------------------------------------------------------------------------- R2
def r2_predicates(ctx):
    n = 0
    for _, ext, _ in PAIRS:
        f = ctx.prog.func(f'{TK}.{ext}.tokenize')
        tok_p = f.params[1]
        for c in walk_local(f.node):
            if isinstance(c, ast.Call) and isinstance(c.func, ast.Attribute) and c.func.attr == 'export':
                n += 1
                kws = {k.arg: k.value for k in c.keywords}
                fc = kws.get('filter_categories')
                cb = F.callable_body(ctx, G.substitute(fc, G.single_assignments(f.node)), f) if fc is not None else None
                ok = F.is_name(c.func.value, tok_p) and cb is not None and len(cb[0]) == 1 \
                    and src(cb[1]) == f'{cb[0][0]} in self.token_categories'
                ctx.check(ok, 'R2', f'{f.module.relpath}:{c.lineno}', f.qualname, 'extended-predicate',
                          f'{ext} exports the token it is given with the predicate `category in self.token_categories`',
                          f'{ext} calls `{src(c)[:100]}`')
                extra = set(kws) - {'filter_categories', 'convert_pitch_to_agnostic'}
                ctx.check(not extra and (('convert_pitch_to_agnostic' in kws) == (ext == 'AEKernTokenizer')), 'R2',
                          f'{f.module.relpath}:{c.lineno}', f.qualname, 'extended-keywords',
                          'only the agnostic tokenizer adds the pitch-conversion callback; no other keyword alters the export')
    ctx.expect_count('R2', 'export calls in the extended tokenizers', n, 3)


# --------------------------------------------------------------------------- R3
def r3_note_by_note(ctx, sep):
    f = ctx.prog.func(f'{TK}.BekernTokenizer.tokenize')
    chord_sep = _chord_separator(ctx)
    exports = [c for c in walk_local(f.node) if isinstance(c, ast.Call) and isinstance(c.func, ast.Attribute) and c.func.attr == 'export']
    ctx.expect_count('R3', 'export call in BekernTokenizer.tokenize', len(exports), 1)
    whole = set()
    for a in walk_local(f.node):
        if isinstance(a, ast.Assign) and a.value in exports and isinstance(a.targets[0], ast.Name):
            whole.add(a.targets[0].id)
    def is_whole(x):
        return (isinstance(x, ast.Name) and x.id in whole) or any(x is e_ for e_ in exports)
    # loop variables that iterate over the chord notes
    note_vars = set()
    for n in walk_local(f.node):
        its = []
        if isinstance(n, ast.For):
            its.append((n.target, n.iter))
        if isinstance(n, (ast.ListComp, ast.GeneratorExp)):
            its += [(g.target, g.iter) for g in n.generators]
        for tg, it in its:
            if isinstance(tg, ast.Name) and isinstance(it, ast.Call) and isinstance(it.func, ast.Attribute) and it.func.attr == 'split' \
                    and is_whole(it.func.value):
                ok, v = ctx.ce.try_eval(it.args[0], f.module) if it.args else (True, None)
                if ok and v == chord_sep and len(it.args) == 1 and not it.keywords:
                    note_vars.add(tg.id)
                else:
                    # split() / split(None) / another separator / a maxsplit: the pieces are not the chord notes, and
                    # joining them again does not give the cell back
                    note_vars.add(tg.id)
                    ctx.violation('R3', f'{f.module.relpath}:{it.lineno}', f.qualname, 'cell-split-not-on-chord-separator',
                                  f'the exported cell is cut with `{src(it)[:50]}`, not at the chord separator {chord_sep!r} only: '
                                  f'split() also cuts at tabs / runs of blanks and drops leading and trailing ones, so a cell that is '
                                  f'not a chord (a comment, an instrument name, a lyric with two blanks) is changed in the basic encodings')
    n_trunc = 0
    for n in walk_local(f.node):
        trunc_base = None
        if isinstance(n, ast.Subscript) and isinstance(n.value, ast.Call) and isinstance(n.value.func, ast.Attribute) \
                and n.value.func.attr in ('split', 'rsplit', 'partition', 'rpartition'):
            trunc_base = n.value.func.value
            what = f'`{src(n)[:60]}`'
        elif isinstance(n, ast.Subscript) and isinstance(n.slice, ast.Slice) and is_whole(n.value):
            trunc_base = n.value
            what = f'slice `{src(n)[:60]}`'
        if trunc_base is None:
            continue
        if is_whole(trunc_base):
            n_trunc += 1
            ctx.violation('R3', f'{f.module.relpath}:{n.lineno}', f.qualname, 'whole-cell-truncation',
                          f'{what} truncates the WHOLE exported cell at the first decoration separator: for a chord every note after '
                          f'the first decorated one is lost (`4cL 4eJ 4g` -> `4c`); signifiers must be removed note by note')
        elif isinstance(trunc_base, ast.Name) and trunc_base.id in note_vars:
            n_trunc += 1
            ctx.holds('R3', f'{f.module.relpath}:{n.lineno}', f.qualname,
                      f'{what} is applied to one chord note at a time (iteration over split({chord_sep!r}))')
    # the result must be derived from every note: join over the chord separator or the untouched whole cell
    if note_vars:
        joins = [c for c in walk_local(f.node) if isinstance(c, ast.Call) and isinstance(c.func, ast.Attribute) and c.func.attr == 'join'
                 and ctx.ce.try_eval(c.func.value, f.module, f.cls, {}) == (True, chord_sep)]
        ctx.check(len(joins) >= 1, 'R3', f.loc, f.qualname, 'notes-rejoined', 'the reduced notes are joined again with the chord separator')
    ctx.expect_count('R3', 'decoration removal sites', n_trunc, 1)
    # BkernTokenizer inherits through R1; the basic encodings never contain the decoration separator
    ctx.check(function_result_lacks(ctx, f, sep['DECORATION_SEPARATOR']), 'R3', f.loc, f.qualname, 'basic-has-no-signifiers',
              'every string BekernTokenizer.tokenize returns provably lacks the decoration separator (no signifier survives)',
              'BekernTokenizer.tokenize may return a string that still contains the decoration separator')


def _chord_separator(ctx):
    """The constant text ChordToken.export puts between two notes: from a join over the notes, or from the accumulation loop
    (symbolically: on the paths of the loop body the accumulator becomes accumulator [+ SEP] + note.export(...))."""
    ch = ctx.prog.func(f'{N.TOKENS}.ChordToken.export')
    seps = set()
    for n in walk_local(ch.node):
        if isinstance(n, ast.Call) and isinstance(n.func, ast.Attribute) and n.func.attr == 'join' and n.args and 'self.notes_tokens' in src(n.args[0]):
            okj, vj = ctx.ce.try_eval(n.func.value, ch.module, ch.cls, {})
            if okj and isinstance(vj, str):
                seps.add(vj)
        if isinstance(n, ast.For) and 'self.notes_tokens' in src(n.iter):
            for sp in symex.sym_paths(n.body, fi=ch):
                for name, val in sp.env.items():
                    parts = []

                    def flat(x):
                        if isinstance(x, ast.BinOp) and isinstance(x.op, ast.Add):
                            flat(x.left)
                            flat(x.right)
                        else:
                            parts.append(x)
                    flat(val)
                    if len(parts) >= 2 and F.is_name(parts[0], name) and any(isinstance(p_, ast.Call) and 'export' in src(p_.func) for p_ in parts):
                        for p_ in parts[1:]:
                            okp, vp = ctx.ce.try_eval(p_, ch.module, ch.cls, {}) if isinstance(p_, (ast.Constant, ast.Name, ast.Attribute)) else (False, None)
                            if okp and isinstance(vp, str) and vp:
                                seps.add(vp)
    if len(seps) != 1:
        raise AnalysisError(f'{ch.loc}: chord separator not recognised: {seps}')
    return seps.pop()


# --------------------------------------------------------------------------- R4
def r4_header(ctx):
    new = ctx.prog.func(f'{N.EXPORTER}.HeaderTokenGenerator.new')
    ht = ctx.prog.cls(f'{N.TOKENS}.HeaderToken')
    rets = symex.returns(new)
    ok = False
    if len(rets) == 1 and F.constructed_class(ctx, rets[0][1], new) is ht:
        b = F.bind_args(rets[0][1], ctx.prog.find_method(ht, '__init__'), True)
        parts = F.text_parts(b.get('encoding')) if b.get('encoding') is not None else []
        ok = parts in ([('lit', '**'), ('expr', 'type.prefix()'), ('expr', 'token.encoding[2:]')],
                       [('lit', '**'), ('expr', 'type.prefix()'), ('expr', "token.encoding[len('**'):]")]) \
            and src(b.get('spine_id')) == 'token.spine_id'
    ctx.check(ok, 'R4', new.loc, new.qualname, 'header-rewrite',
              "a header is exported as '**' + encoding prefix + original type with the original spine id",
              f'HeaderTokenGenerator.new returns `{src(rets[0][1])[:120] if rets else None}`')
    enc = ctx.prog.cls(f'{TK}.Encoding')
    pf = ctx.prog.func(f'{TK}.Encoding.prefix')
    members = ctx.ce.enum_canonical(enc)
    ctx.expect_count('R4', 'Encoding members', len(members), 6)
    table = F.dispatch_table(ctx, pf, pf.params[0], extra_values=[f'Encoding.{m.name}' for m in members])
    seen = {}
    for m in members:
        end, val, sp = table[f'Encoding.{m.name}']
        v = val.value if end == 'return' and isinstance(val, ast.Constant) else None
        ctx.check(isinstance(v, str) and v + 'kern' == m.value, 'R4', pf.loc, pf.qualname, f'prefix:{m.name}',
                  f'prefix({m.name}) = {v!r} and prefix + "kern" == {m.value!r}',
                  f'prefix({m.name}) is {v!r} ({end}); the encoding value is {m.value!r}')
        seen[m.name] = v
    ctx.check(len(set(seen.values())) == len(seen), 'R4', pf.loc, pf.qualname, 'prefix-distinct', 'the six prefixes are distinct')
    et = ctx.prog.func(f'{EXP}.export_token')
    nd = et.params[1]
    hdr = f'isinstance({nd}.token, HeaderToken)'
    applied = True
    n_hdr = 0
    for cond, val, sp in symex.returns(et):
        if not (isinstance(val, ast.Call) and isinstance(val.func, ast.Attribute) and val.func.attr == 'tokenize' and len(val.args) == 1):
            applied = False
            continue
        x = val.args[0]
        if F.forced(cond, hdr, True):
            n_hdr += 1
            applied = applied and F.same(ctx, et, x, f'HeaderTokenGenerator.new(token={nd}.token, type=options.kern_type)')
        elif F.forced(cond, hdr, False):
            applied = applied and src(x) == f'{nd}.token'
        else:
            applied = False
    applied = applied and n_hdr > 0
    ctx.check(applied, 'R4', et.loc, et.qualname, 'header-rewrite-applied',
              'export_token rewrites every HeaderToken with options.kern_type and tokenizes the rewritten token')


# --------------------------------------------------------------------------- R5
def r5_factory(ctx):
    fc = ctx.prog.func(f'{TK}.TokenizerFactory.create')
    tp = fc.params[1]
    free = [f'isinstance(token_categories, list)']
    table = F.dispatch_table(ctx, fc, tp, extra_values=list(FACTORY), allow_atoms=free)
    for v, clsname in FACTORY.items():
        end, val, sp = table[v]
        c = F.constructed_class(ctx, val, fc) if end == 'return' else None
        ctx.check(c is not None and c.name == clsname, 'R5', fc.loc, fc.qualname, f'factory:{v}',
                  f'{v!r} -> {clsname}', f'{v!r} -> {c.name if c else end}; expected {clsname}')
        if c is not None:
            kws = {k.arg: src(k.value) for k in val.keywords}
            okk = kws.get('token_categories') in ('token_categories', 'set(token_categories)')
            if v in ('akern', 'aekern'):
                okk = okk and kws.get('last_clef') == "getattr(last_clef_reference, 'encoding', None)"
            ctx.check(okk, 'R5', fc.loc, fc.qualname, f'factory-args:{v}',
                      f'{clsname} receives the category set' + (' and the clef text' if v in ('akern', 'aekern') else ''),
                      f'{clsname} is built with {kws}')
    end, val, sp = table[Ellipsis]
    nm = None
    if end == 'raise':
        exc = sp.path.end_node.exc
        nm = src(exc.func) if isinstance(exc, ast.Call) else src(exc)
    ctx.check(end == 'raise' and nm == 'ValueError', 'R5', fc.loc, fc.qualname, 'factory-unknown-raises',
              'an unknown encoding value raises ValueError', f'an unknown encoding value ends with {end} {nm}')
    et = ctx.prog.func(f'{EXP}.export_token')
    # on every path (the clef argument itself is decided by C10.R6 / C08.R1)
    ok = True
    n_calls = 0
    for cond, val, sp in symex.returns(et):
        calls = [c for c in ast.walk(val) if isinstance(c, ast.Call) and isinstance(c.func, ast.Attribute) and c.func.attr == 'create'
                 and src(c.func.value) == 'TokenizerFactory']
        if len(calls) != 1:
            ok = False
            continue
        n_calls += 1
        b_ = F.bind_args(calls[0], fc, True)
        ok = ok and src(b_.get(tp)) == 'options.kern_type.value' and src(b_.get('token_categories')) == 'options.token_categories' \
            and b_.get('last_clef_reference') is not None and set(b_) <= {tp, 'token_categories', 'last_clef_reference'}
    ok = ok and n_calls > 0
    ctx.check(ok, 'R5', et.loc, et.qualname, 'factory-call',
              'export_token selects the tokenizer by options.kern_type.value and hands over the category set and the clef in force')


# --------------------------------------------------------------------------- R6
def r6_chords(ctx):
    ch = ctx.prog.func(f'{N.TOKENS}.ChordToken.export')
    kw = ch.node.args.kwarg.arg if ch.node.args.kwarg else None
    loops = [n for n in walk_local(ch.node) if isinstance(n, ast.For) and src(n.iter) == 'self.notes_tokens']
    ok = kw is not None and len(loops) == 1
    if kw is not None and not loops:
        # the same as one expression: a comprehension / generator over all the notes (no filter) whose element is the note's own
        # export with the caller's keywords
        comps = [n for n in walk_local(ch.node) if isinstance(n, (ast.GeneratorExp, ast.ListComp)) and len(n.generators) == 1
                 and src(n.generators[0].iter) == 'self.notes_tokens']
        partial_ = [n for n in walk_local(ch.node) if isinstance(n, (ast.For, ast.comprehension)) and 'self.notes_tokens' in src(n.iter)
                    and src(n.iter) != 'self.notes_tokens']
        if not comps and not partial_:
            raise AnalysisError(f'{ch.loc}: ChordToken.export is neither a loop nor a comprehension over self.notes_tokens')
        if not comps:
            comps = [None]      # iterates a part / a rearrangement of the notes: recognised, and not all the notes
        ok = len(comps) == 1 and comps[0] is not None and not comps[0].generators[0].ifs and isinstance(comps[0].generators[0].target, ast.Name)
        if ok:
            v = comps[0].generators[0].target.id
            calls = [c for c in ast.walk(comps[0].elt) if isinstance(c, ast.Call) and isinstance(c.func, ast.Attribute) and c.func.attr == 'export'
                     and F.is_name(c.func.value, v)]
            ok = len(calls) == 1 and calls[0] is comps[0].elt and len(calls[0].keywords) == 1 and calls[0].keywords[0].arg is None \
                and F.is_name(calls[0].keywords[0].value, kw) and not calls[0].args
    elif ok:
        lp = loops[0]
        # on every path through the loop body: exactly one note.export(**kwargs)
        for sp in symex.sym_paths(lp.body, fi=ch):
            calls = [c for c in sp.calls() if isinstance(c.func, ast.Attribute) and c.func.attr == 'export'
                     and F.is_name(c.func.value, lp.target.id)]
            ok = ok and len(calls) == 1 and len(calls[0].keywords) == 1 and calls[0].keywords[0].arg is None \
                and F.is_name(calls[0].keywords[0].value, kw) and not calls[0].args
        ok = ok and not any(isinstance(x, (ast.Break, ast.Continue, ast.Return)) for x in ast.walk(lp))
    # what the notes exported to is written out note by note: no comprehension / filter() drops some of the exported texts again
    note_lists = {'self.notes_tokens'}
    changed = True
    while changed:
        changed = False
        for a in walk_local(ch.node):
            if isinstance(a, ast.Assign) and len(a.targets) == 1 and isinstance(a.targets[0], ast.Name) and a.targets[0].id not in note_lists \
                    and any(isinstance(x, (ast.Name, ast.Attribute)) and src(x) in note_lists for x in ast.walk(a.value)):
                note_lists.add(a.targets[0].id)
                changed = True
    for n in walk_local(ch.node):
        dropped = None
        if isinstance(n, (ast.ListComp, ast.GeneratorExp, ast.SetComp)):
            for g in n.generators:
                if g.ifs and any(isinstance(x, (ast.Name, ast.Attribute)) and src(x) in note_lists for x in ast.walk(g.iter)):
                    dropped = f'`{src(n)[:70]}`'
        if isinstance(n, ast.Call) and F.is_name(n.func, 'filter') and len(n.args) == 2 \
                and any(isinstance(x, (ast.Name, ast.Attribute)) and src(x) in note_lists for x in ast.walk(n.args[1])):
            dropped = f'`{src(n)[:70]}`'
        if dropped:
            ctx.violation('R6', f'{ch.module.relpath}:{n.lineno}', ch.qualname, 'chord-notes-filtered',
                          f'{dropped} removes some of the notes (or of their exported texts) from the chord: a note whose selected part is '
                          f'empty loses its place, the remaining parts move to other notes')
    ctx.check(ok, 'R6', ch.loc, ch.qualname, 'chord-covers-all-notes',
              'ChordToken.export exports every note of the chord with the same keyword arguments',
              'ChordToken.export does not export every note with **kwargs (a note is lost or exported unfiltered)')
    # verbatim family ignores kwargs
    for qn in ('SimpleToken', 'ErrorToken', 'HeaderToken', 'BoundingBoxToken', 'MHXMToken'):
        cls_ = ctx.prog.cls(f'{N.TOKENS}.{qn}')
        f = ctx.prog.find_method(cls_, 'export')        # the class's own export, or the one it inherits
        rets = [(None, v, sp_) for sp_, v in F.effective_returns(ctx, cls_, 'export')]
        okv = len(rets) >= 1 and all(src(v) == 'self.encoding' for _, v, _ in rets)
        ctx.check(okv, 'R6', f.loc, f.qualname, f'verbatim-export:{qn}',
                  f'{qn}.export returns the stored text whatever the encoding options (non-note cells are identical in the six encodings)',
                  f'{qn}.export returns {[src(v)[:50] for _, v, _ in rets]}')


# --------------------------------------------------------------------------- R3 (writer side): the separator marks where the signifiers begin
def r3b_separator_marks_signifiers(ctx):
    """The basic tokenizers find the signifiers of a note by the FIRST decoration separator of its extended text (reader).  The
    writer, NoteRestToken.export, must therefore put that separator in front of the signifier part on every path that writes
    signifiers - also when the filter leaves nothing of the pitch / duration part.  Otherwise the first signifier is taken for
    the pitch part and survives in the basic encodings."""
    from . import export_model as EM
    fi = ctx.prog.func(f'{N.TOKENS}.NoteRestToken.export')
    sources = ['self.pitch_duration_subtokens', 'self.decoration_subtokens']
    n = 0
    bad = []

    def scan(pieces):
        nonlocal n
        for i, p in enumerate(pieces):
            if p.kind == 'join' and p.seq.source == 'self.decoration_subtokens':
                n += 1
                prev = pieces[i - 1] if i > 0 else None
                if not (prev is not None and prev.kind == 'const' and prev.text == 'DECORATION_SEPARATOR'):
                    bad.append((p.node.lineno, repr(prev) if prev is not None else 'nothing'))
            if p.inner:
                scan(p.inner)
    for ep in EM.export_paths(ctx, fi, sources):
        if ep.unmodelled(sources):
            raise AnalysisError(f'{fi.loc}: `{ep.unmodelled(sources)[0].text[:60]}` uses a sub-token list in a way the element-wise model does not follow')
        scan(ep.pieces)
    ctx.expect_count('R3', 'paths of NoteRestToken.export that write signifiers', n, 1)
    ctx.check(not bad, 'R3', fi.loc, fi.qualname, 'separator-marks-signifiers',
              f'on each of the {n} paths that write signifiers the decoration separator stands directly in front of them',
              f'on {len(bad)} path(s) the signifier part is preceded by {sorted(set(b for _, b in bad))[:2]} instead of the decoration separator: the '
              f'basic tokenizers cut a note at its first decoration separator, so without it (pitch part filtered away) the first signifier '
              f'is kept as if it were the pitch')
