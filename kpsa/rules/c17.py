"""C17 - Token queries agree with the tree and with each other."""
from __future__ import annotations

import ast
import itertools
import re

from ..errors import AnalysisError
from ..model import src, walk_local, docstring_free
from .. import names as N
from .. import facts as F
from .. import guards as G
from .. import symex

DOC = f'{N.DOCUMENT}.Document'


def run(ctx):
    ctx.explanation = (
        'Static rules for C17: (R1) traversal discipline of Node.dfs_iterative - one visit per popped node before its children are '
        'pushed, LIFO pop paired with reversed(children) (a queue discipline would be breadth-first, an un-reversed push right-to-'
        'left), MultistageTree.dfs_iterative starts at the root; (R2) visitor guards as truth tables: TokensTraversal.visit appends '
        'node.token iff `token and (not unique or encoding not seen) and category in filter` and records the encoding exactly when '
        'unique, MetacommentsTraversal.visit appends iff the token is a MetacommentToken; (R3) sibling agreement: get_all_tokens and '
        'get_unique_tokens differ only in the non_repeated flag and both close the filter with TokenCategory.valid(include=filter); '
        'the encodings/frequency/header/spine-id queries are derived from them, and in frequencies every listed token adds exactly 1 '
        'to exactly one entry; (R4) the comment query keeps traversal order and filters by the key prefix only when a key is given; '
        '(R5) is_monophonic = (#kern spines == 1 and #CHORD tokens == 0 and #NOTE_REST tokens > 0).')
    ctx.not_decided = ['the listing order through arbitrary split/join trees (follows from R1 + C02, not proved)']
    r1_traversal(ctx)
    r2_visitors(ctx)
    r3_siblings(ctx)
    r4_comments(ctx)
    r5_monophony(ctx)
    from . import c11
    ctx.alias = {'R5': 'R3'}
    c11.r5_selection(ctx)     # the closure of the filter: valid(include=filter) = include categories with all their descendants
    ctx.alias = {}


# --------------------------------------------------------------------------- R1
def r1_traversal(ctx):
    f = ctx.prog.func(f'{N.DOCUMENT}.Node.dfs_iterative')
    tv = f.params[1]
    whiles = [n for n in docstring_free(f.body) if isinstance(n, ast.While)]
    inits = [n for n in docstring_free(f.body) if isinstance(n, ast.Assign)]
    ok_shape = len(whiles) == 1 and len(inits) >= 1
    if not ok_shape:
        # recursion in child order is the other accepted form
        rec = [c for c in walk_local(f.node) if isinstance(c, ast.Call) and isinstance(c.func, ast.Attribute) and c.func.attr == f.name]
        ctx.check(False, 'R1', f.loc, f.qualname, 'traversal-shape', '', 'dfs_iterative is not a single work-list loop')
        return
    w = whiles[0]
    stack = None
    tf = G._formula(w.test)
    if tf[0] == 'atom':         # `while stack:` / `while len(stack) > 0:`
        stack = tf[1][len('nonempty('):-1] if tf[1].startswith('nonempty(') else tf[1]
    init = [a for a in inits if F.is_name(a.targets[0], stack)]
    if not any(isinstance(n_, ast.Call) and isinstance(n_.func, ast.Attribute) and n_.func.attr in ('pop', 'popleft') and src(n_.func.value) == stack
               and isinstance(p_, (ast.Assign, ast.Expr)) for p_ in ast.walk(w) for n_ in ([p_.value] if isinstance(p_, (ast.Assign, ast.Expr)) else [])):
        raise AnalysisError(f'{f.loc}: the traversal loop of dfs_iterative takes no node off its work list by pop (another scheme: a stack of '
                            f'iterators, recursion): not followed')
    if any(isinstance(n_, ast.Call) and F.is_name(n_.func, 'next') and n_.args and src(n_.args[0]).startswith(f'{stack}[') for n_ in ast.walk(w)):
        raise AnalysisError(f'{f.loc}: the work list of dfs_iterative holds iterators (nodes are taken with next()): another scheme, not followed')
    ctx.check(bool(init) and src(init[0].value) in ('[self]', 'deque([self])'), 'R1', f.loc, f.qualname, 'traversal-starts-at-node',
              'the work list starts with the node itself')
    sps = symex.sym_paths(w.body)
    ctx.expect_count('R1', 'paths through the traversal loop', len(sps), 1)
    for sp in sps:
        at = f'{f.module.relpath}:{w.lineno}'
        evs = [e for e in sp.events if e.kind in ('assign', 'expr', 'iter')]
        pops = [e for e in sp.events if e.kind == 'assign' and isinstance(e.expr, ast.Call) and isinstance(e.expr.func, ast.Attribute)
                and src(e.expr.func.value) == stack and e.expr.func.attr in ('pop', 'popleft')]
        if not pops and not any(isinstance(e.expr, ast.Call) and isinstance(e.expr.func, ast.Attribute) and e.expr.func.attr in ('pop', 'popleft')
                                for e in sp.events if isinstance(e.expr, ast.AST)):
            raise AnalysisError(f'{at}: the traversal loop of dfs_iterative takes no node off a work list (another scheme: iterators, recursion): not followed')
        if len(pops) != 1:
            ctx.violation('R1', at, f.qualname, 'one-pop-per-iteration', f'{len(pops)} pops per iteration')
            continue
        pop = pops[0]
        lifo = pop.expr.func.attr == 'pop' and not pop.expr.args and not pop.expr.keywords
        fifo = pop.expr.func.attr == 'popleft' or (pop.expr.func.attr == 'pop' and pop.expr.args and src(pop.expr.args[0]) == '0')
        node_expr = src(pop.expr)
        visits = [e for e in sp.events if e.kind == 'expr' and isinstance(e.expr, ast.Call) and src(e.expr.func) == f'{tv}.visit']
        pushes = [e for e in sp.events if e.kind == 'expr' and isinstance(e.expr, ast.Call) and isinstance(e.expr.func, ast.Attribute)
                  and src(e.expr.func.value) == stack and e.expr.func.attr in ('extend', 'append', 'extendleft', 'appendleft', 'insert')]
        okv = len(visits) == 1 and len(visits[0].expr.args) == 1 and src(visits[0].expr.args[0]) == node_expr
        ctx.check(okv, 'R1', at, f.qualname, 'one-visit-per-node', 'every popped node is visited exactly once',
                  f'visits per iteration: {[src(v.expr)[:60] for v in visits]}')
        order_ok = okv and pushes and all(sp.events.index(visits[0]) < sp.events.index(p) for p in pushes)
        ctx.check(bool(order_ok), 'R1', at, f.qualname, 'visit-before-children', 'a node is visited before its children are pushed (pre-order)')
        push_ok = len(pushes) == 1 and pushes[0].expr.func.attr == 'extend' and len(pushes[0].expr.args) == 1
        arg = src(pushes[0].expr.args[0]) if push_ok else None
        rev = arg in (f'reversed({node_expr}.children)', f'{node_expr}.children[::-1]', f'list(reversed({node_expr}.children))')
        plain = arg == f'{node_expr}.children'
        if lifo:
            ctx.check(push_ok and rev, 'R1', at, f.qualname, 'lifo-needs-reversed-children',
                      'LIFO pop paired with reversed(children): depth-first, left to right',
                      f'LIFO pop with push `{arg}`: ' + ('children are visited right to left' if plain else 'not all children are pushed in reverse order'))
        elif fifo:
            ctx.violation('R1', at, f.qualname, 'queue-discipline',
                          'the work list is used as a queue (FIFO): the traversal is breadth-first, not depth-first')
        else:
            ctx.violation('R1', at, f.qualname, 'pop-discipline', f'pop `{src(pop.expr)}` is neither LIFO nor FIFO')
    mt = ctx.prog.func(f'{N.DOCUMENT}.MultistageTree.dfs_iterative')
    calls = [src(c) for c in walk_local(mt.node) if isinstance(c, ast.Call)]
    if calls != [f'self.root.dfs_iterative({mt.params[1]})'] and not any('.dfs_iterative(' in c_ for c_ in calls) \
            and not any(c_.startswith('self.root.') for c_ in calls):
        # the tree no longer delegates to the node walk (its own loop, a generator of nodes): another traversal, not followed here.
        # A delegation that starts somewhere else than the root is still reported below.
        raise AnalysisError(f'{mt.loc}: MultistageTree.dfs_iterative does not delegate to Node.dfs_iterative any more ({calls[:2]}): not followed')
    ctx.check(calls == [f'self.root.dfs_iterative({mt.params[1]})'], 'R1', mt.loc, mt.qualname, 'tree-traversal-starts-at-root',
              'the tree traversal starts at the root with the caller\'s visitor', f'MultistageTree.dfs_iterative does {calls}')


# --------------------------------------------------------------------------- R2
def r2_visitors(ctx):
    tv = ctx.prog.func(f'{N.DOCUMENT}.TokensTraversal.visit')
    nd = tv.params[1]
    atoms = {f'{nd}.token': 'tok', 'self.non_repeated': 'uniq', f'{nd}.token.encoding in self.seen_encodings': 'seen',
             'self.filter_by_categories is None': 'nofilter', f'{nd}.token.category in self.filter_by_categories': 'incat'}
    sps = symex.func_sym_paths(tv)
    bad = []
    unknown = set()
    for bits in itertools.product([False, True], repeat=5):
        v = dict(zip(['tok', 'uniq', 'seen', 'nofilter', 'incat'], bits))
        val = {a: v[n] for a, n in atoms.items()}
        taken = []
        for sp in sps:
            fm = sp.condition()
            ats = G.atoms_of(fm)
            for a in ats:
                if a not in atoms:
                    unknown.add(a)
            if G.evaluate(fm, {a: val.get(a, False) for a in ats}):
                taken.append(sp)
        if len(taken) != 1:
            raise AnalysisError(f'{tv.loc}: {len(taken)} paths of TokensTraversal.visit for one valuation')
        sp = taken[0]
        apps = [src(e.expr) for e in sp.events if e.kind == 'expr' and isinstance(e.expr, ast.Call)]
        want_tok = v['tok'] and (not v['uniq'] or not v['seen']) and (v['nofilter'] or v['incat'])
        want = [f'self.tokens.append({nd}.token)'] if want_tok else []
        if want_tok and v['uniq']:
            want.append(f'self.seen_encodings.append({nd}.token.encoding)')
        if sorted(apps) != sorted(want):
            bad.append((''.join('T' if b else 'F' for b in bits), apps))
    hooks = [a for a in unknown if re.match(r'^(not )?self\.\w+\(', a)]
    if hooks:
        # the decision is delegated to a method of the visitor that sub-classes override: dynamic dispatch is not followed
        raise AnalysisError(f'{tv.loc}: TokensTraversal.visit decides through the overridable hook `{hooks[0][:60]}`: not followed')
    ctx.check(not bad and not unknown, 'R2', tv.loc, tv.qualname, 'tokens-visitor-truth-table',
              'TokensTraversal.visit lists node.token iff `token and (not unique or encoding not seen) and category in filter`, and '
              'records the encoding exactly when unique (32 valuations)',
              f'visitor differs from the rule for (tok,uniq,seen,nofilter,incat) = {bad[:3]}' + (f'; extra conditions {sorted(unknown)}' if unknown else ''))
    init = ctx.prog.func(f'{N.DOCUMENT}.TokensTraversal.__init__')
    table = F.store_table(init)
    stores = {k: sorted({src(v) for _, v, _ in rows}) for k, rows in table.items()}
    fp = init.params[2]
    # the filter: the caller's list whenever one is given (a default only when it is None)
    okf = any(src(v) == fp for _, v, _ in table.get('self.filter_by_categories', [])) and \
        all(src(v) == fp or F.forced(c, f'{fp} is None', True) for c, v, _ in table.get('self.filter_by_categories', []))
    ok = stores.get('self.tokens') == ['[]'] and stores.get('self.seen_encodings') in (['[]'], ['set()']) \
        and stores.get('self.non_repeated') == [init.params[1]] and okf
    ctx.check(ok, 'R2', init.loc, init.qualname, 'tokens-visitor-state', 'a new traversal starts empty and stores its flag and filter',
              f'TokensTraversal.__init__ stores {stores}')
    mv = ctx.prog.func(f'{N.DOCUMENT}.MetacommentsTraversal.visit')
    nd = mv.params[1]
    okm = True
    for sp in symex.func_sym_paths(mv):
        fm = sp.condition()
        ats = G.atoms_of(fm)
        a = f'isinstance({nd}.token, MetacommentToken)'
        if any(re.match(r'^(not )?self\.\w+\(', x) for x in ats):
            raise AnalysisError(f'{mv.loc}: MetacommentsTraversal.visit decides through an overridable hook: not followed')
        if ats and ats != [a]:
            okm = False
            continue
        apps = [src(e.expr) for e in sp.events if e.kind == 'expr' and isinstance(e.expr, ast.Call)]
        isit = G.evaluate(fm, {a: True}) if ats else True
        okm = okm and apps == ([f'self.metacomments.append({nd}.token)'] if isit and ats else ([] if ats else apps))
        if not ats:
            okm = False
    # a query leaves nothing behind for the next query (a memo keyed by the filter alone is shared by the full and the unique listing)
    from . import shared
    shared.effect_free(ctx, 'R6', [f'{N.DOCUMENT}.Document.get_all_tokens', f'{N.DOCUMENT}.Document.get_unique_tokens',
                                   f'{N.DOCUMENT}.Document.frequencies'],
                       'the answer of a token query must not depend on the queries made before it')
    # the comment visitor selects by CLASS: nothing else the importer builds may be an instance of that class
    mc_ = ctx.prog.cls(f'{N.TOKENS}.MetacommentToken')
    subs_ = [c_ for c_ in ctx.prog.subclasses(mc_, strict=True)]
    ctx.check(not subs_, 'R2', mc_.loc, mc_.qualname, 'comment-class-has-subclasses',
              'MetacommentToken has no subclass: isinstance(token, MetacommentToken) selects the global comments only',
              f'{[c_.name for c_ in subs_]} derive from MetacommentToken: the comment visitor (isinstance test) also returns those tokens - local '
              f'`!` comments of the spines are listed among the global `!!` lines' if subs_ else '')
    ctx.check(okm, 'R2', mv.loc, mv.qualname, 'metacomments-visitor', 'MetacommentsTraversal.visit lists a token iff it is a MetacommentToken')


# --------------------------------------------------------------------------- R3
def _query_fact(ctx, f):
    p = f.params[1]
    out = []
    for sp in symex.func_sym_paths(f):
        calls = [src(e.expr) for e in sp.events if e.kind == 'expr' and isinstance(e.expr, ast.Call)]
        out.append((G.show(sp.condition()), tuple(calls), src(sp.value) if sp.value is not None else None))
    return p, out


def _first_occurrences(ctx, f):
    """(iterable, key expression, loop variable) when f is the first-occurrence filter
    `out = []; seen = [] | set(); for x in IT: if KEY(x) not in seen: seen.append | add(KEY(x)); out.append(x)`; `return out`,
    decided on the paths of the loop body (any nesting / order of the two updates); None when f has no such loop."""
    body = docstring_free(f.body)
    loops = [n for n in body if isinstance(n, ast.For)]
    rets = [n for n in body if isinstance(n, ast.Return)]
    sr = symex.returns(f)
    if not loops and len(sr) == 1:
        v = sr[0][1]        # list({K(x): x for x in IT}.values()): a later token replaces an earlier one with the same key
        if isinstance(v, ast.Call) and F.is_name(v.func, 'list') and len(v.args) == 1 and isinstance(v.args[0], ast.Call) \
                and isinstance(v.args[0].func, ast.Attribute) and v.args[0].func.attr == 'values' and isinstance(v.args[0].func.value, ast.DictComp):
            dc = v.args[0].func.value
            if len(dc.generators) == 1 and not dc.generators[0].ifs and isinstance(dc.generators[0].target, ast.Name) \
                    and F.is_name(dc.value, dc.generators[0].target.id):
                return dc.generators[0].iter, dc.key, dc.generators[0].target.id, 'last'
    if len(loops) != 1 or len(rets) != 1 or not isinstance(loops[0].target, ast.Name) or loops[0].orelse:
        return None
    rv = rets[0].value
    if isinstance(rv, ast.Call) and F.is_name(rv.func, 'list') and len(rv.args) == 1 and isinstance(rv.args[0], ast.Call) \
            and isinstance(rv.args[0].func, ast.Attribute) and rv.args[0].func.attr == 'values' and isinstance(rv.args[0].func.value, ast.Name):
        # the tokens indexed by a key in a dict (insertion order): D[K] = x keeps the LAST token of a key at the place of the
        # first, D.setdefault(K, x) / `if K not in D: D[K] = x` keeps the first
        d_name, lp, x = rv.args[0].func.value.id, loops[0], loops[0].target.id
        inits0 = {n.targets[0].id: n.value for n in body if isinstance(n, ast.Assign) and len(n.targets) == 1 and isinstance(n.targets[0], ast.Name)}
        if src(inits0.get(d_name)) not in ('{}', 'dict()'):
            return None
        key = None
        kinds = set()
        for sp in symex.sym_paths(lp.body, fi=f):
            fm = sp.condition()
            ats = G.atoms_of(fm)
            stores = [e for e in sp.events if e.kind == 'store']
            calls = [e.expr for e in sp.events if e.kind == 'expr' and isinstance(e.expr, ast.Call)]
            if len(stores) + len(calls) > 1:
                return None
            if stores:
                tg = stores[0].target
                if not (isinstance(tg, ast.Subscript) and F.is_name(tg.value, d_name) and src(stores[0].expr) == x):
                    return None
                key = tg.slice
                if not ats:
                    kinds.add('last')
                elif ats == [f'{src(key)} in {d_name}'] and not G.evaluate(fm, {ats[0]: True}):
                    kinds.add('first')
                else:
                    return None
            elif calls:
                c = calls[0]
                if not (isinstance(c.func, ast.Attribute) and c.func.attr == 'setdefault' and F.is_name(c.func.value, d_name) and len(c.args) == 2
                        and src(c.args[1]) == x and not ats):
                    return None
                key = c.args[0]
                kinds.add('first')
        if key is None or len(kinds) != 1:
            return None
        return G.substitute(lp.iter, G.single_assignments(f.node)), key, x, kinds.pop()
    if not isinstance(rv, ast.Name):
        return None
    out_name, lp, x = rets[0].value.id, loops[0], loops[0].target.id
    inits = {}
    for n in body:
        if isinstance(n, ast.Assign) and len(n.targets) == 1 and isinstance(n.targets[0], ast.Name):
            inits[n.targets[0].id] = n.value
    if src(inits.get(out_name)) not in ('[]', 'list()'):
        return None
    key = seen = None
    for sp in symex.sym_paths(lp.body, fi=f):
        if sp.end not in ('fall', 'continue'):
            return None
        calls = [e.expr for e in sp.events if e.kind == 'expr' and isinstance(e.expr, ast.Call) and isinstance(e.expr.func, ast.Attribute)]
        if len([e for e in sp.events if e.kind in ('expr', 'store')]) != len(calls):
            return None
        fm = sp.condition()
        ats = G.atoms_of(fm)
        if len(ats) != 1 or ' in ' not in ats[0]:
            return None
        k_src, _, s_name = ats[0].rpartition(' in ')
        if src(inits.get(s_name)) not in ('[]', 'list()', 'set()'):
            return None
        if G.evaluate(fm, {ats[0]: True}):
            if calls:
                return None         # an encoding seen before: nothing is kept
        else:
            got = sorted(src(c) for c in calls)
            if got not in (sorted([f'{s_name}.append({k_src})', f'{out_name}.append({x})']), sorted([f'{s_name}.add({k_src})', f'{out_name}.append({x})'])):
                return None
            key, seen = ast.parse(k_src, mode='eval').body, s_name
    if key is None:
        return None
    return G.substitute(lp.iter, G.single_assignments(f.node)), key, x, 'first'


def r3_siblings(ctx):
    ga = ctx.prog.func(f'{DOC}.get_all_tokens')
    gu = ctx.prog.func(f'{DOC}.get_unique_tokens')
    pa, fa = _query_fact(ctx, ga)
    pu, fu = _query_fact(ctx, gu)
    want = lambda p, flag: [('True', (f'self.tree.dfs_iterative(TokensTraversal({flag}, TokenCategory.valid(include={p})))',),
                             f'TokensTraversal({flag}, TokenCategory.valid(include={p})).tokens')]
    if not (fa and all(any('dfs_iterative(TokensTraversal(' in c_ for c_ in x[1]) for x in fa if x[2] is not None)):
        raise AnalysisError(f'{ga.loc}: get_all_tokens does not build a TokensTraversal itself (a factory / another visitor): not followed')
    ctx.check(fa == want(pa, 'False'), 'R3', ga.loc, ga.qualname, 'all-tokens-shape',
              'get_all_tokens = tokens of a depth-first traversal with TokensTraversal(False, valid(include=filter))',
              f'get_all_tokens is {fa}')
    first = _first_occurrences(ctx, gu)
    if first is not None:
        # the other spelling of the same listing: the full listing, keeping the first token of every encoding
        it_, key_, var_, which = first
        ctx.check(F.same(ctx, gu, it_, f'self.get_all_tokens({pu})') and src(key_) == f'{var_}.encoding' and which == 'first', 'R3', gu.loc,
                  gu.qualname, 'unique-tokens-shape',
                  'get_unique_tokens = the full (filtered) listing, keeping the first token of every encoding',
                  f'get_unique_tokens keeps the {which} token for every `{src(key_)}` of `{src(it_)[:80]}`: not the first token of every '
                  f'encoding of the filtered listing')
    else:
        if not (len(fu) == 1 and len(fu[0][1]) == 1 and 'dfs_iterative(TokensTraversal(' in fu[0][1][0]):
            raise AnalysisError(f'{gu.loc}: get_unique_tokens is neither a TokensTraversal listing nor a first-occurrence filter of the full listing')
        ctx.check(fu == want(pu, 'True'), 'R3', gu.loc, gu.qualname, 'unique-tokens-shape',
                  'get_unique_tokens differs from get_all_tokens only in the non_repeated flag',
                  f'get_unique_tokens is {fu}')
    for name, base in (('get_all_tokens_encodings', 'get_all_tokens'), ('get_unique_token_encodings', 'get_unique_tokens')):
        f = ctx.prog.func(f'{DOC}.{name}')
        rets = symex.returns(f)
        ok = len(rets) == 1 and F.same(ctx, f, rets[0][1], f'Document.tokens_to_encodings(self.{base}({f.params[1]}))', f'self.tokens_to_encodings(self.{base}({f.params[1]}))', f'cls.tokens_to_encodings(self.{base}({f.params[1]}))')
        ctx.check(ok, 'R3', f.loc, f.qualname, f'derived:{name}', f'{name} = encodings of {base}(filter)',
                  f'{name} returns `{src(rets[0][1]) if rets else None}`')
    te = ctx.prog.func(f'{DOC}.tokens_to_encodings')
    rets = symex.returns(te)
    p = te.params[1]
    ok = len(rets) == 1 and F.same(ctx, te, rets[0][1], f'[token.encoding for token in {p} if token.encoding is not None]',
                                   f'[token.encoding for token in {p}]')
    ctx.check(ok, 'R3', te.loc, te.qualname, 'tokens-to-encodings', 'tokens_to_encodings maps each token to its encoding, in order')
    hn = ctx.prog.func(f'{DOC}.get_header_nodes')
    rets = symex.returns(hn)
    ok = len(rets) == 1 and F.same(ctx, hn, rets[0][1], '[token for token in self.get_all_tokens() if isinstance(token, HeaderToken)]')
    ctx.check(ok, 'R3', hn.loc, hn.qualname, 'derived:get_header_nodes', 'get_header_nodes = the HeaderTokens of the full listing, in order')
    si = ctx.prog.func(f'{DOC}.get_spine_ids')
    rets = symex.returns(si)
    ok = len(rets) == 1 and F.same(ctx, si, rets[0][1], '[node.spine_id for node in self.get_header_nodes()]')
    ctx.check(ok, 'R3', si.loc, si.qualname, 'derived:get_spine_ids', 'get_spine_ids = spine ids of the header nodes, in order')
    fr = ctx.prog.func(f'{DOC}.frequencies')
    p = fr.params[1]
    env_fr = G.single_assignments(fr.node)
    loops = [n for n in walk_local(fr.node) if isinstance(n, ast.For)]
    rets_fr = [n for n in walk_local(fr.node) if isinstance(n, ast.Return)]
    D = rets_fr[0].value.id if len(rets_fr) == 1 and isinstance(rets_fr[0].value, ast.Name) else None
    okf = len(loops) == 1 and D is not None and isinstance(loops[0].target, ast.Name) \
        and F.same(ctx, fr, G.substitute(loops[0].iter, env_fr), f'self.get_all_tokens({p})') \
        and any(isinstance(n, ast.Assign) and F.is_name(n.targets[0], D) and src(n.value) in ('{}', 'dict()') for n in walk_local(fr.node))
    why_f = ''
    # whatever the shape: every listing frequencies takes is taken with the caller's filter
    for n_ in walk_local(fr.node):
        if isinstance(n_, ast.Call) and isinstance(n_.func, ast.Attribute) and F.is_name(n_.func.value, 'self') \
                and n_.func.attr in ('get_all_tokens', 'get_unique_tokens', 'get_all_tokens_encodings', 'get_unique_token_encodings'):
            args_ = list(n_.args) + [k.value for k in n_.keywords]
            ctx.check(len(args_) == 1 and F.is_name(args_[0], p), 'R3', f'{fr.module.relpath}:{n_.lineno}', fr.qualname, 'frequencies-filter-forwarded',
                      f'`{src(n_)[:60]}` lists the tokens with the filter frequencies was given',
                      f'`{src(n_)[:60]}` does not pass the filter `{p}` on: tokens outside the requested categories are counted')
    if not okf:
        raise AnalysisError(f'{fr.loc}: frequencies is not one loop over the listing that fills one table returned at the end: not followed')
    if okf:
        t = loops[0].target.id
        K = f'{t}.encoding'
        ENTRY = {f'{D}[{K}]', f'{D}.get({K})', f'{D}.get({K}, None)'}
        seen_cases = set()
        for sp in symex.sym_paths(loops[0].body, fi=fr):
            if sp.end == 'raise':
                continue
            # which case is this path: the encoding already has an entry, or not
            fm = sp.condition()
            case, free = {}, []
            for a in G.atoms_of(fm):
                if a == f'{K} in {D}' or a in ENTRY or a in {f'nonempty({e_})' for e_ in ENTRY}:
                    case[a] = True
                elif a in {f'{e_} is None' for e_ in ENTRY}:
                    case[a] = False
                else:
                    free.append(a)      # any other test: the path is taken for some tokens, and must count them correctly too
            if len(free) > 10:
                raise AnalysisError(f'{fr.loc}: too many conditions in the counting loop of frequencies')
            present_cases = [pr for pr in (True, False)
                             if any(G.evaluate(fm, dict({a: (v_ if pr else not v_) for a, v_ in case.items()}, **dict(zip(free, bits))))
                                    for bits in itertools.product([False, True], repeat=len(free)))]
            # what the path does to the entry of this encoding
            created, delta, aliases = None, 0, set()
            for e in sp.events:
                n_ = e.node
                if e.kind not in ('store', 'assign') or not isinstance(n_, (ast.Assign, ast.AugAssign)):
                    if e.kind == 'expr' and D in src(e.expr):
                        raise AnalysisError(f'{fr.loc}: `{src(e.expr)[:60]}` changes the table of frequencies in a way the rule does not follow')
                    continue
                if e.kind == 'store':
                    tg = src(e.target)
                    if tg == f'{D}[{K}]' and isinstance(n_, ast.Assign):
                        occ = dict(zip([src(k_) for k_ in e.expr.keys], e.expr.values)).get("'occurrences'") if isinstance(e.expr, ast.Dict) else None
                        if not (isinstance(occ, ast.Constant) and isinstance(occ.value, int)):
                            raise AnalysisError(f'{fr.loc}: the entry created by frequencies is not a literal with a constant count')
                        created, delta = occ.value, 0
                        aliases |= {x.id for x in n_.targets if isinstance(x, ast.Name)}
                        continue
                    base = tg[:-len("['occurrences']")] if tg.endswith("['occurrences']") else None
                    if base is not None and (base in ENTRY or base in aliases):
                        if isinstance(n_, ast.AugAssign) and isinstance(n_.op, ast.Add) and isinstance(e.expr, ast.Constant) and isinstance(e.expr.value, int):
                            delta += e.expr.value
                            continue
                        if isinstance(n_, ast.Assign) and isinstance(e.expr, ast.BinOp) and isinstance(e.expr.op, ast.Add) \
                                and src(e.expr.left) == tg and isinstance(e.expr.right, ast.Constant) and isinstance(e.expr.right.value, int):
                            delta += e.expr.right.value
                            continue
                    if D in tg or any(tg.startswith(a_ + '[') for a_ in aliases):
                        raise AnalysisError(f'{fr.loc}: the store to `{tg[:60]}` in frequencies is not followed')
            for pr in present_cases:
                seen_cases.add(pr)
                after = (None if created is None else created + delta) if not pr else (delta if created is None else None)
                want = 1
                if pr and created is not None:
                    okf, why_f = False, why_f or 'an existing entry is overwritten: its count starts again'
                elif after != want:
                    okf, why_f = False, why_f or (f'a token whose encoding was {"already" if pr else "not yet"} listed '
                                                    f'{"adds " + str(after) if pr else "starts with the count " + str(after)}, expected 1')
        if okf and seen_cases != {True, False}:
            raise AnalysisError(f'{fr.loc}: the counting loop of frequencies does not distinguish new from known encodings')
    ctx.check(okf, 'R3', fr.loc, fr.qualname, 'frequencies-count',
              'every token of the (filtered) listing adds exactly 1 to exactly one entry: the counts sum to the listing',
              'frequencies does not add exactly 1 per listed token' + (f': {why_f}' if why_f else ''))


# --------------------------------------------------------------------------- R4
def r4_comments(ctx):
    """get_metacomments: the returned list is, element by element and in traversal order, the comments of a fresh
    MetacommentsTraversal run over the tree, kept iff no key is given or the text starts with '!!!' + key."""
    from . import export_model as EM
    from .. import seqs
    gm = ctx.prog.func(f'{DOC}.get_metacomments')
    key = gm.params[1]
    ok = True
    why = ''
    n = 0
    for cond, val, sp in symex.returns(gm):
        n += 1
        trav = [e for e in sp.events if e.kind == 'expr' and isinstance(e.expr, ast.Call) and src(e.expr.func) == 'self.tree.dfs_iterative'
                and len(e.expr.args) == 1 and src(e.expr.args[0]) == 'MetacommentsTraversal()']
        q = EM.describe(val, {'MetacommentsTraversal().metacomments'})
        if q is None or not trav:
            # the list is assembled in a way the element-wise description does not follow: unknown, not wrong
            raise AnalysisError(f'{gm.loc}: get_metacomments returns `{src(val)[:80]}`, which is not followed element by element')
        if len(trav) != 1 or q.sorts or q.sliced or q.hashed:
            ok, why = False, f'returns `{src(val)[:80]}`'
            continue
        a_nokey, a_match = f'{key} is None', f"_e.encoding.startswith(f'!!!{{{key}}}')"
        fm = q.filter()
        pc = sp.condition()
        elt_atoms = [a for t in ast.walk(q.elt) if isinstance(t, ast.IfExp) for a in G.atoms_of(G._formula(t.test))]
        ats = sorted(set(G.atoms_of(fm)) | set(G.atoms_of(pc)) | set(elt_atoms))
        if not set(ats) <= {a_nokey, a_match, 'clear'}:
            extra_ats = sorted(set(ats) - {a_nokey, a_match, 'clear'})
            if not any('_e' in a_ for a_ in extra_ats):
                raise AnalysisError(f'{gm.loc}: get_metacomments also depends on {extra_ats[:2]}: not decided')
            ok, why = False, f'depends on {extra_ats}'     # a further test on the comment itself
            continue
        for bits in itertools.product([False, True], repeat=len(ats)):
            v = dict(zip(ats, bits))
            if not G.evaluate(pc, {a: v[a] for a in G.atoms_of(pc)}):
                continue
            keep = G.evaluate(fm, {a: v[a] for a in G.atoms_of(fm)})
            want = v.get(a_nokey, False) or v.get(a_match, False)
            if keep != want:
                ok, why = False, f'kept={keep} for {v}'
            if keep and want:
                leaf = src(seqs.select(q.elt, v))
                good = leaf == (f"_e.encoding.replace(f'!!!{{{key}}}: ', '')" if v.get('clear', False) else '_e.encoding')
                if not good:
                    ok, why = False, f'element `{leaf}` for {v}'
    ctx.check(ok and n > 0, 'R4', gm.loc, gm.qualname, 'comment-query',
              "get_metacomments keeps traversal order and keeps a comment iff no key is given or it starts with '!!!' + key", why)



# --------------------------------------------------------------------------- R5
def r5_monophony(ctx):
    f = ctx.prog.func(f'{N.PUBLIC}.is_monophonic')
    d = f.params[0]
    rets = symex.returns(f)
    if not rets or len(rets) > 16:
        raise AnalysisError(f'{f.loc}: is_monophonic has {len(rets)} return paths')
    # whatever the shape: the listings it counts are filtered by CHORD and NOTE_REST only (a wider filter counts other material)
    for n_ in walk_local(f.node):
        if isinstance(n_, ast.Call) and isinstance(n_.func, ast.Attribute) and n_.func.attr in ('get_all_tokens', 'get_unique_tokens'):
            args_ = list(n_.args) + [k.value for k in n_.keywords]
            okl, cats = ctx.ce.try_eval(args_[0], f.module) if len(args_) == 1 else (False, None)
            names_ = {getattr(c_, 'name', None) for c_ in cats} if okl and isinstance(cats, (list, tuple, set, frozenset)) else None
            if names_ is None:
                raise AnalysisError(f'{f.loc}: the filter of `{src(n_)[:60]}` in is_monophonic is not a constant list of categories')
            ctx.check(names_ <= {'CHORD', 'NOTE_REST'}, 'R5', f'{f.module.relpath}:{n_.lineno}', f.qualname, 'monophony-listing-filter',
                      f'`{src(n_)[:70]}` counts chords / notes and rests only',
                      f'`{src(n_)[:70]}` lists {sorted(names_ - {"CHORD", "NOTE_REST"})} too: the count of "notes and rests" includes other tokens')
    # the answer as one formula: on each path the path condition and the returned truth value (early returns, a single
    # conjunction and nested tests are the same function of the three facts)
    fm = ('const', False)
    for cond, val, sp in rets:
        pc = G._formula(F.fold(ctx, F._conj_node(sp), f)) if sp.conds else ('const', True)
        fm = G.disj([fm, G.conj([pc, G._formula(F.fold(ctx, val, f))])])
    kern = f"1 == len(spine_types({d}, ['**kern']))"
    chord = f'nonempty({d}.get_all_tokens(filter_by_categories=[TokenCategory.CHORD]))'
    note = f'nonempty({d}.get_all_tokens(filter_by_categories=[TokenCategory.NOTE_REST]))'
    eq, cex, unknown = G.compare(fm, lambda v: v['k'] and not v['c'] and v['n'], {kern: 'k', chord: 'c', note: 'n'})
    if unknown:
        quantities = (f"spine_types({d}, ['**kern'])", 'filter_by_categories=[TokenCategory.CHORD])', 'filter_by_categories=[TokenCategory.NOTE_REST])')
        whole = [a_ for a_ in unknown if f'spine_types({d})' in a_.replace(' ', '').replace('document=', '') and 'len(' not in a_]
        if whole:
            ctx.violation('R5', f.loc, f.qualname, 'monophony-compares-all-spines',
                          f'is_monophonic tests `{whole[0][:70]}`: the list of ALL spine types, so a document with one **kern spine next to a '
                          f'**text or **dynam spine is not monophonic any more (the statement counts the **kern spines)')
            return
        if not all(any(q_ in a_ for q_ in quantities) for a_ in unknown):
            raise AnalysisError(f'{f.loc}: is_monophonic depends on {sorted(unknown)[:2]}: not one of the three facts the rule knows')
        # a different comparison on one of the three known quantities: recognised, and not the stated one
    ctx.check(eq and not unknown, 'R5', f.loc, f.qualname, 'monophony-truth-table',
              'is_monophonic = exactly one **kern spine and no CHORD token and at least one NOTE_REST token',
              f'is_monophonic is `{G.show(fm)[:200]}`' + (f'; differs at {cex}' if cex else ''))
