"""C16 - Pitch spelling codec is lossless and side-effect free."""
from __future__ import annotations

import ast

from ..errors import AnalysisError
from ..model import src, walk_local
from ..effects import Effects
from ..affine import affine, NotAffine
from .. import names as N
from .. import facts as F
from .. import guards as G
from .. import symex


def run(ctx):
    ctx.explanation = (
        'Static rules for C16: (R1) effect analysis - export_pitch (Humdrum and American) has no write through its pitch argument, '
        'import_pitch none through its string; (R2) the octave codec: importer lower case => octave = C4 + (n-1), upper case => '
        'octave = C3 - (n-1); exporter octave >= C4 => lower case x (octave - C4 + 1), else upper case x (C3 - octave + 1): checked '
        'as inverse affine maps with one threshold and agreeing class constants (C3 = C4 - 1); (R3) accidental alphabets of importer '
        "(# -> +, - -> -) and exporter (+ -> #, - -> -) are inverse character maps, both strip exactly those characters from the "
        'letter part, and the name setter upper-cases and validates against the seven letters. Decides the codec for every '
        'spelling with homogeneous accidentals; Python str semantics are trusted.')
    ctx.not_decided = ['mixed accidental runs such as c#- (outside the quantified domain)']
    r1_effects(ctx)
    r1_fresh_result(ctx)
    from . import shared
    shared.no_one_shot_state(ctx, 'R1', {N.PITCH})
    consts = r2_octave(ctx)
    r3_alphabets(ctx)


def r1_effects(ctx):
    eng = Effects(ctx.prog)
    targets = [ctx.prog.func(f'{N.PITCH}.HumdrumPitchExporter.export_pitch'),
               ctx.prog.func(f'{N.PITCH}.AmericanPitchExporter.export_pitch'),
               ctx.prog.func(f'{N.PITCH}.HumdrumPitchImporter.import_pitch'),
               ctx.prog.func(f'{N.PITCH}.AmericanPitchImporter.import_pitch'),
               ctx.prog.func(f'{N.TRANSPOSER}.transpose'),
               ctx.prog.func(f'{N.TRANSPOSER}.transpose_agnostic_to_encoding'),
               ctx.prog.func(f'{N.TRANSPOSER}.transpose_agnostics'),
               ctx.prog.func(f'{N.GKERN}.pitch_to_gkern_string')]
    eng.analyse(targets)
    for f in targets:
        s = eng.summary(f)
        if s.unresolved:
            k, v = sorted(s.unresolved.items())[0]
            raise AnalysisError(f'{f.qualname}: unresolved call `{v}` at {k}')
        first = 1 if f.cls is not None else 0
        bad = [e for e in s.effects.values() if e.root[0] == 'p' and e.root[1] >= first]
        if bad:
            for e in bad:
                pname = f.all_params[e.root[1]]
                ctx.violation('R1', e.loc, f.qualname, f'argument-write:{pname}',
                              f'{e.func} {e.what}: the codec alters the object it is given (`{pname}`); a second export of the '
                              f'same pitch gives a different answer')
        else:
            ctx.holds('R1', f.loc, f.qualname, 'no write through any argument (the pitch object / string is only read)')
        gl = [e for e in s.effects.values() if e.root[0] in ('g', 'cls')]
        for e in gl:
            ctx.violation('R1', e.loc, f.qualname, f'global-write:{e.root[1]}', f'{e.func} {e.what}: writes shared state {e.root[1]}')


def r1_fresh_result(ctx):
    """Every import hands out a pitch object of its own: the value import_pitch returns is constructed by that call (an object
    kept on the importer and updated in place would make every earlier result change with the next import)."""
    ap = ctx.prog.cls(f'{N.PITCH}.AgnosticPitch')
    for clsname in ('HumdrumPitchImporter', 'AmericanPitchImporter'):
        cls_ = ctx.prog.cls(f'{N.PITCH}.{clsname}')
        f = ctx.prog.find_method(cls_, 'import_pitch')
        if f is None or f.is_abstract:
            raise AnalysisError(f'anchor vanished: {clsname}.import_pitch')
        rets = [(sp, v) for _, v, sp in symex.returns(f) if sp.end == 'return']
        ok = bool(rets) and all(isinstance(v, ast.Call) and F.constructed_class(ctx, v, f) is ap for _, v in rets)
        ctx.check(ok, 'R1', f.loc, f'{N.PITCH}.{clsname}.import_pitch', 'import-returns-fresh-pitch',
                  f'{clsname}.import_pitch returns an AgnosticPitch constructed by the call',
                  f'{clsname}.import_pitch returns `{[src(v)[:50] for _, v in rets][:2]}`: not a pitch constructed by this call - results of '
                  f'earlier imports share the object and change with the next import')


def _const(ctx, fi):
    def const(node):
        if isinstance(node, (ast.Name, ast.Attribute)):
            base = node
            while isinstance(base, ast.Attribute):
                base = base.value
            if isinstance(base, ast.Name) and (base.id in fi.all_params and base.id != 'cls' or '#' in base.id or '@' in base.id):
                return False, None
            return ctx.ce.try_eval(node, fi.module, fi.cls, {})
        return False, None
    return const


def _strip_chain(node):
    """X.replace(a,'').replace(b,'')... -> (X, {a,b}) ; other expr -> (expr, set())"""
    removed = set()
    while isinstance(node, ast.Call) and isinstance(node.func, ast.Attribute) and node.func.attr == 'replace' \
            and len(node.args) == 2 and isinstance(node.args[0], ast.Constant) and isinstance(node.args[1], ast.Constant) \
            and node.args[1].value == '':
        removed.add(node.args[0].value)
        node = node.func.value
    return node, removed


def _char_map(node):
    """''.join([c for c in X if c in CHARS]).replace(a, b)... -> (X, {char: image})"""
    reps = []
    while isinstance(node, ast.Call) and isinstance(node.func, ast.Attribute) and node.func.attr == 'replace' \
            and len(node.args) == 2 and all(isinstance(a, ast.Constant) for a in node.args):
        reps.append((node.args[0].value, node.args[1].value))
        node = node.func.value
    reps.reverse()
    if not (isinstance(node, ast.Call) and isinstance(node.func, ast.Attribute) and node.func.attr == 'join'
            and isinstance(node.func.value, ast.Constant) and node.func.value.value == '' and len(node.args) == 1):
        return None
    comp = node.args[0]
    if not (isinstance(comp, (ast.ListComp, ast.GeneratorExp)) and len(comp.generators) == 1
            and isinstance(comp.generators[0].target, ast.Name) and len(comp.generators[0].ifs) == 1):
        return None
    var_ = comp.generators[0].target.id

    def image(e_, ch):
        # the element as a function of the character: the character itself, a constant, or a conditional on `c == 'x'`
        if F.is_name(e_, var_):
            return ch
        if isinstance(e_, ast.Constant) and isinstance(e_.value, str):
            return e_.value
        if isinstance(e_, ast.IfExp) and isinstance(e_.test, ast.Compare) and len(e_.test.ops) == 1 and isinstance(e_.test.ops[0], (ast.Eq, ast.NotEq)) \
                and F.is_name(e_.test.left, var_) and isinstance(e_.test.comparators[0], ast.Constant):
            hit = (ch == e_.test.comparators[0].value) == isinstance(e_.test.ops[0], ast.Eq)
            return image(e_.body if hit else e_.orelse, ch)
        return None
    t = comp.generators[0].ifs[0]
    if not (isinstance(t, ast.Compare) and len(t.ops) == 1 and isinstance(t.ops[0], ast.In)
            and F.is_name(t.left, var_)):
        return None
    try:
        chars = ast.literal_eval(t.comparators[0])
    except Exception:
        return None
    m = {}
    for c in chars:
        img = image(comp.elt, c)
        if img is None:
            return None
        for a, b in reps:
            img = img.replace(a, b)
        m[c] = img
    return comp.generators[0].iter, m


def r2_octave(ctx):
    imp = ctx.prog.func(f'{N.PITCH}.HumdrumPitchImporter._parse_pitch')
    exp = ctx.prog.func(f'{N.PITCH}.HumdrumPitchExporter.export_pitch')
    ci = ctx.prog.cls(f'{N.PITCH}.HumdrumPitchImporter')
    ce = ctx.prog.cls(f'{N.PITCH}.HumdrumPitchExporter')
    C4i, C3i = ctx.ce.class_const(ci.qualname, 'C4_OCATAVE'), ctx.ce.class_const(ci.qualname, 'C3_OCATAVE')
    C4e, C3e = ctx.ce.class_const(ce.qualname, 'C4_OCATAVE'), ctx.ce.class_const(ce.qualname, 'C3_OCATAVE')
    ctx.check(C4i == C4e and C3i == C3e and C3i == C4i - 1, 'R2', ci.loc, ci.qualname, 'octave-constants',
              f'importer and exporter agree on C4={C4i}, C3={C3i} and C3 = C4 - 1',
              f'octave constants disagree: importer C4={C4i} C3={C3i}, exporter C4={C4e} C3={C3e}')
    # ---- importer
    p = imp.params[1]
    n_imp = 0
    for cond, val, sp in symex.returns(imp):
        at = f'{imp.module.relpath}:{sp.path.end_node.lineno}'
        if not (isinstance(val, ast.Tuple) and len(val.elts) == 2):
            ctx.violation('R2', at, imp.qualname, 'importer-return-shape', f'_parse_pitch returns `{src(val)[:80]}`, expected (name, octave)')
            continue
        octv = val.elts[1]
        ats = G.atoms_of(cond)
        lower = [a for a in ats if a.endswith('.islower()')]
        upper = [a for a in ats if a.endswith('.isupper()')]
        other = [a for a in ats if a not in lower + upper]
        if other:
            ctx.violation('R2', at, imp.qualname, 'importer-extra-condition', f'the octave depends on `{other[0]}`')
            continue
        is_lower = bool(lower) and G.evaluate(cond, {**{a: True for a in lower}, **{a: False for a in upper}})
        is_upper = bool(upper) and G.evaluate(cond, {**{a: False for a in lower}, **{a: True for a in upper}})
        if isinstance(octv, ast.Constant) and octv.value is None:
            continue   # neither case: not a pitch letter
        try:
            a = affine(octv, _const(ctx, imp))
        except NotAffine as e:
            ctx.violation('R2', at, imp.qualname, 'importer-octave-affine', f'octave `{src(octv)[:80]}` is not affine: {e}')
            continue
        lens = [t for t in a.terms if t.startswith('len(')]
        if len(lens) != 1 or len(a.terms) != 1:
            ctx.violation('R2', at, imp.qualname, 'importer-octave-terms', f'octave is `{a.key()}`, expected C +- (len(letters) - 1)')
            continue
        inner = ast.parse(lens[0], mode='eval').body.args[0]
        base, removed = _strip_chain(inner)
        ctx.check(F.is_name(base, p) and removed == {'#', '-'}, 'R2', at, imp.qualname, 'importer-letter-count',
                  'the octave is computed from the number of letters (accidentals # and - removed first)',
                  f'the octave is computed from `{src(inner)[:80]}`: accidentals removed {sorted(removed)}')
        n_imp += 1
        if is_lower and not is_upper:
            ctx.check(a.coef(lens[0]) == 1 and a.const == C4i - 1, 'R2', at, imp.qualname, 'importer-lower-case',
                      f'lower case: octave = C4 + (n - 1) = n + {C4i - 1}', f'lower case: octave = {a.key()}, expected n + {C4i - 1}')
        elif is_upper and not is_lower:
            ctx.check(a.coef(lens[0]) == -1 and a.const == C3i + 1, 'R2', at, imp.qualname, 'importer-upper-case',
                      f'upper case: octave = C3 - (n - 1) = {C3i + 1} - n', f'upper case: octave = {a.key()}, expected {C3i + 1} - n')
        else:
            ctx.violation('R2', at, imp.qualname, 'importer-case-split', 'the octave formula is not selected by the case of the first letter')
    ctx.expect_count('R2', 'importer octave cases', n_imp, 2)
    # ---- exporter
    pp = exp.params[1]
    n_exp = 0
    for cond, val, sp in symex.returns(exp):
        at = f'{exp.module.relpath}:{sp.path.end_node.lineno}'
        cond_f = G._formula(F.fold(ctx, F._conj_node(sp), exp)) if sp.conds else ('const', True)
        thr = f'{pp}.octave < {C4e}'
        # whether the pitch has accidentals may select how they are written (decided below), nothing else may
        ne_atoms = [a for a in G.atoms_of(cond_f) if a.startswith('nonempty(') and f'{pp}.name' in a]
        ats = [a for a in G.atoms_of(cond_f) if a not in ne_atoms]
        if not ats and isinstance(val, ast.Call) and not (isinstance(val.func, ast.Attribute) and val.func.attr == 'join'):
            # no case split here at all and the text comes from a call that is not looked through (a memoised / decorated helper, a
            # value object): where the register is decided is not followed
            raise AnalysisError(f'{at}: export_pitch returns `{src(val)[:60]}`: the spelling is computed by a callee that is not followed')
        if ats != [thr] or len(ne_atoms) > 1 or not F.forced(cond_f, thr, True) and not F.forced(cond_f, thr, False):
            ctx.violation('R2', at, exp.qualname, 'exporter-threshold', f'case split is `{G.show(cond_f)}`, expected octave >= C4 ({C4e})')
            continue
        high = F.forced(cond_f, thr, False)
        parts = _concat_parts(val)
        if not parts or parts[0][0] != 'rep':
            calls_ = [c_ for c_ in ast.walk(val) if isinstance(c_, ast.Call)]
            glue_ = [c_ for c_ in calls_ if (F.constructed_class(ctx, c_, exp) is not None
                                             and F.constructed_class(ctx, c_, exp).qualname not in ctx.prog.normalizer.known)]
            if glue_:
                raise AnalysisError(f'{at}: export_pitch assembles the text in an object of the new class `{src(glue_[0].func)}` '
                                    f'(its __str__): not followed')
            ctx.violation('R2', at, exp.qualname, 'exporter-shape', f'returns `{src(val)[:90]}`, expected letter * count + accidentals')
            continue
        _, base, count = parts[0]
        try:
            a = affine(count, _const(ctx, exp))
        except NotAffine as e:
            ctx.violation('R2', at, exp.qualname, 'exporter-count-affine', f'{e}')
            continue
        case = base.func.attr if isinstance(base, ast.Call) and isinstance(base.func, ast.Attribute) else None
        letters, removed = _strip_chain(base.func.value) if case else (None, set())
        ok_letters = letters is not None and src(letters) == f'{pp}.name' and removed == {'+', '-'}
        ctx.check(ok_letters, 'R2', at, exp.qualname, 'exporter-letter', 'the repeated letter is the pitch name without + and -',
                  f'the repeated string is `{src(base)[:80]}`')
        n_exp += 1
        octt = f'{pp}.octave'
        if high:
            ctx.check(case == 'lower' and a.coef(octt) == 1 and a.const == 1 - C4e and len(a.terms) == 1, 'R2', at, exp.qualname,
                      'exporter-high', f'octave >= C4: lower case x (octave - C4 + 1) - inverse of the importer',
                      f'octave >= C4: {case} case x ({a.key()}), expected lower x (octave - {C4e - 1})')
        else:
            ctx.check(case == 'upper' and a.coef(octt) == -1 and a.const == C3e + 1 and len(a.terms) == 1, 'R2', at, exp.qualname,
                      'exporter-low', f'octave < C4: upper case x (C3 - octave + 1) - inverse of the importer',
                      f'octave < C4: {case} case x ({a.key()}), expected upper x ({C3e + 1} - octave)')
        # accidentals part
        rest = parts[1:]
        okacc = len(rest) == 1 and rest[0][0] == 'expr' and _is_accidental_output(rest[0][1], pp, cond_f, ne_atoms)
        if not okacc and len(rest) == 1 and rest[0][0] == 'expr':
            # decided on the finite domain instead: for every pitch name of the Chromas table (the only names an AgnosticPitch
            # accepts) the expression is computed by the checker's evaluator and compared with the accidentals of the name
            verdict = _accidentals_on_all_names(ctx, exp, rest[0][1], pp, cond_f, ne_atoms)
            if verdict is None:
                raise AnalysisError(f'{at}: the accidentals part `{src(rest[0][1])[:80]}` is neither a recognised form nor computable '
                                    f'for the pitch names of the Chromas table')
            okacc = verdict
        ctx.check(okacc, 'R3', at, exp.qualname, 'exporter-accidentals-appended',
                  'the accidentals (mapped + -> #, - -> -) follow the letters',
                  f'after the letters comes `{" + ".join(src(x[1])[:60] for x in rest)}`')
    ctx.expect_count('R2', 'exporter octave cases', n_exp, 2)


def _concat_parts(node):
    parts = []

    def rec(n):
        if isinstance(n, ast.JoinedStr):
            for v in n.values:
                if isinstance(v, ast.Constant):
                    if v.value:
                        parts.append(('lit', v))
                else:
                    rec(v.value)
        elif isinstance(n, ast.BinOp) and isinstance(n.op, ast.Add):
            rec(n.left)
            rec(n.right)
        elif isinstance(n, ast.BinOp) and isinstance(n.op, ast.Mult):
            l, r = n.left, n.right
            if isinstance(l, ast.Call) and isinstance(l.func, ast.Attribute) and l.func.attr in ('lower', 'upper'):
                parts.append(('rep', l, r))
            elif isinstance(r, ast.Call) and isinstance(r.func, ast.Attribute) and r.func.attr in ('lower', 'upper'):
                parts.append(('rep', r, l))
            else:
                parts.append(('expr', n))
        else:
            parts.append(('expr', n))
    rec(node)
    return parts


def _accidentals_on_all_names(ctx, exp, node, pp, cond, ne_atoms):
    """True / False: for every name of the Chromas table the text `node` evaluates to the accidentals of the name with + -> #
    (on a path where the accidentals are known to be empty / non-empty only the names with that property count); None when the
    evaluator cannot compute it."""
    chromas = ctx.ce.module_const(N.PITCH, 'Chromas')
    if not isinstance(chromas, dict) or not chromas:
        return None

    class NameIs(ast.NodeTransformer):
        def __init__(self, name):
            self.name = name

        def visit_Attribute(self, n):
            if src(n) == f'{pp}.name':
                return ast.Constant(value=self.name)
            return self.generic_visit(n)
    n_ok = 0
    # every name an AgnosticPitch can hold: the table, and every letter with a run of up to three sharps or flats (what the name
    # setter accepts) - the table alone has no triple sharp
    domain = list(chromas) + [l + a for l in 'ABCDEFG' for a in ('', '+', '++', '+++', '-', '--', '---') if l + a not in chromas]
    from ..consteval import Instance
    pitch_cls = ctx.prog.cls(f'{N.PITCH}.AgnosticPitch')
    for name in domain:
        if not isinstance(name, str):
            return None
        want = ''.join('#' if c == '+' else '-' for c in name if c in '+-')
        if ne_atoms and cond is not None:
            if F.forced(cond, ne_atoms[0], True) and not want:
                continue
            if F.forced(cond, ne_atoms[0], False) and want:
                continue
        obj = Instance(pitch_cls)
        obj.attrs['name'] = name
        ok, got = ctx.ce.try_eval(NameIs(name).visit(ast.parse(src(node), mode='eval').body), exp.module, exp.cls, {pp: obj})
        if not ok:
            return None
        if got != want:
            return False
        n_ok += 1
    return n_ok > 0


def _is_accidental_output(node, pp, cond=None, ne_atoms=()):
    """accidentals, or len(acc) * acc[0] if len(acc) > 0 else '' with acc = charmap(pitch.name) (the conditional may be a
    path condition: `nonempty(acc)` forced on the path)"""
    acc = node
    if cond is not None and ne_atoms:
        inner = ast.parse(ne_atoms[0][len('nonempty('):-1], mode='eval').body
        cm0 = _char_map(inner)
        if cm0 is None or src(cm0[0]) != f'{pp}.name' or cm0[1] != {'+': '#', '-': '-'}:
            return False
        if F.forced(cond, ne_atoms[0], False):
            return isinstance(node, ast.Constant) and node.value == ''
        if not F.forced(cond, ne_atoms[0], True):
            return False
        if isinstance(node, ast.BinOp) and isinstance(node.op, ast.Mult):
            l, r = (node.left, node.right) if isinstance(node.left, ast.Call) else (node.right, node.left)
            if isinstance(l, ast.Call) and F.is_name(l.func, 'len') and isinstance(r, ast.Subscript) and src(r.slice) == '0' \
                    and src(l.args[0]) == src(r.value) == src(inner):
                return True
            return False
    if isinstance(node, ast.IfExp):
        if not (isinstance(node.orelse, ast.Constant) and node.orelse.value == ''):
            return False
        b = node.body
        if isinstance(b, ast.BinOp) and isinstance(b.op, ast.Mult):
            l, r = (b.left, b.right) if isinstance(b.left, ast.Call) else (b.right, b.left)
            if not (isinstance(l, ast.Call) and F.is_name(l.func, 'len') and isinstance(r, ast.Subscript)
                    and src(r.slice) == '0' and src(l.args[0]) == src(r.value)):
                return False
            acc = r.value
            if src(node.test) not in (f'len({src(acc)}) > 0', f'len({src(acc)}) != 0', src(acc)):
                return False
        else:
            return False
    cm = _char_map(acc)
    return cm is not None and src(cm[0]) == f'{pp}.name' and cm[1] == {'+': '#', '-': '-'}


def r3_alphabets(ctx):
    imp = ctx.prog.func(f'{N.PITCH}.HumdrumPitchImporter._parse_pitch')
    p = imp.params[1]
    n = 0
    for cond, val, sp in symex.returns(imp):
        at = f'{imp.module.relpath}:{sp.path.end_node.lineno}'
        if not (isinstance(val, ast.Tuple) and len(val.elts) == 2):
            continue
        name = val.elts[0]
        parts = _concat_parts(name)
        # name = f"{letter}{accidentals}"
        if len(parts) != 2:
            ctx.violation('R3', at, imp.qualname, 'importer-name-shape', f'name is `{src(name)[:90]}`, expected letter + accidentals')
            continue
        n += 1
        letter, acc = parts[0][1], parts[1][1]
        okl = False
        if isinstance(letter, ast.Call) and isinstance(letter.func, ast.Attribute) and letter.func.attr in ('lower', 'upper'):
            sub = letter.func.value
            if isinstance(sub, ast.Subscript) and src(sub.slice) == '0':
                base, removed = _strip_chain(sub.value)
                okl = F.is_name(base, p) and removed == {'#', '-'}
        ctx.check(okl, 'R3', at, imp.qualname, 'importer-letter', 'the letter is the first character after removing # and -',
                  f'the letter is `{src(letter)[:80]}`')
        cm = _char_map(acc)
        ctx.check(cm is not None and F.is_name(cm[0], p) and cm[1] == {'#': '+', '-': '-'}, 'R3', at, imp.qualname,
                  'importer-accidental-map', 'accidentals are mapped # -> +, - -> - (order and count kept): inverse of the exporter map',
                  f'accidental part is `{src(acc)[:90]}` with map {cm[1] if cm else None}')
    ctx.expect_count('R3', 'importer name cases', n, 1)
    # name setter
    ap = ctx.prog.cls(f'{N.PITCH}.AgnosticPitch')
    setter = ctx.prog.find_setter(ap, 'name')
    if setter is None:
        raise AnalysisError('anchor vanished: AgnosticPitch.name setter')
    pitches = ctx.ce.module_const(N.PITCH, 'pitches')
    ctx.check(set(pitches) == set('ABCDEFG'), 'R3', setter.loc, f'{N.PITCH}.pitches', 'letter-set', 'pitches is exactly {A..G}')
    vp = setter.params[1]
    stores, raises_invalid = [], False
    for sp in symex.func_sym_paths(setter):
        for e in sp.events:
            if e.kind == 'store' and isinstance(e.target, ast.Attribute) and e.target.attr.endswith('__name'):
                stores.append((sp, e))
        if sp.end == 'raise':
            c = G.show(sp.condition())
            if 'in pitches' in c:
                raise_cond = c
                raises_invalid = True
    ctx.check(raises_invalid, 'R3', setter.loc, setter.qualname + '.setter', 'setter-validates',
              'the name setter raises for a letter outside the seven pitch letters')
    # octave setter: every integer octave of the claimed grid (-1..9) is accepted and stored unchanged
    osetter = ctx.prog.find_setter(ap, 'octave')
    if osetter is None:
        raise AnalysisError('anchor vanished: AgnosticPitch.octave setter')
    op_ = osetter.params[1]
    rejected, altered = [], []
    for k in range(-1, 10):
        end, val, sp_ = F.interpret(ctx, osetter, {op_: k})
        if end == 'raise':
            rejected.append(k)
            continue
        st_ = [e for e in sp_.events if e.kind == 'store' and isinstance(e.target, ast.Attribute) and e.target.attr.endswith('octave')]
        if len(st_) != 1 or src(st_[0].expr) != op_:
            altered.append((k, [src(e.expr)[:30] for e in st_]))
    ctx.check(not rejected and not altered, 'R3', osetter.loc, osetter.qualname + '.setter', 'octave-setter-accepts-grid',
              'the octave setter accepts and stores unchanged every octave from -1 to 9 (interpreted for the 11 values)',
              f'the octave setter rejects {rejected} / alters {altered[:2]}: pitches of that octave can no longer be imported or built')
    okup = bool(stores) and all('.upper()' in src(e.expr) and vp in src(e.expr) for _, e in stores)
    ctx.check(okup, 'R3', setter.loc, setter.qualname + '.setter', 'setter-uppercases',
              'the stored name is the upper-cased argument', f'stored name: {[src(e.expr)[:60] for _, e in stores]}')
