"""Facts about Exporter.append_row and friends, shared by C05, C06, C13 (each property records its own instances)."""
from __future__ import annotations

import ast
import itertools

from ..errors import AnalysisError
from ..model import src, walk_local, docstring_free
from .. import names as N
from .. import facts as F
from .. import guards as G
from .. import symex

EXP = f'{N.EXPORTER}.Exporter'


def inline_bool_helpers(ctx, fi, node, depth=0):
    """A guard moved into a helper that returns a boolean expression (single return, no branching) is inlined once:
    `self._selected(node, options)` -> its return expression with the parameters replaced by the arguments."""
    if depth > 2 or fi.cls is None:
        return node
    from ..astutil import clone

    class T(ast.NodeTransformer):
        def visit_Call(self, c):
            self.generic_visit(c)
            if isinstance(c.func, ast.Attribute) and isinstance(c.func.value, ast.Name) and c.func.value.id in ('self', 'cls'):
                m = ctx.prog.find_method(fi.cls, c.func.attr)
                if m is not None and m is not fi and m.kind in ('method', 'classmethod', 'staticmethod'):
                    try:
                        sps = symex.func_sym_paths(m, limit=50)
                    except AnalysisError:
                        return c
                    if len(sps) == 1 and sps[0].end == 'return' and not sps[0].conds and sps[0].value is not None \
                            and isinstance(sps[0].value, (ast.BoolOp, ast.Compare, ast.UnaryOp)):
                        try:
                            b = F.bind_args(c, m, m.kind != 'staticmethod')
                        except AnalysisError:
                            return c
                        return G.substitute(sps[0].value, b, recursive=False)
            return c
    return T().visit(clone(node))


class RowGate:
    """Symbolic summary of append_row: per path (condition over named atoms, appended expressions, return)."""

    def __init__(self, ctx):
        self.ctx = ctx
        f = self.f = ctx.prog.func(f'{EXP}.append_row')
        names = f.params
        if names[1:5] != ['document', 'node', 'options', 'row']:
            raise AnalysisError(f'{f.loc}: append_row signature changed: {names}')
        node, opt = 'node', 'options'
        ht = f'self.compute_header_type({node})'
        et = f'self.export_token({node}, {opt})'
        self.ET = et
        self.EMPTY = f'self._retrieve_empty_token({node})'
        self.atoms = {
            f'{ht} is None': 'H',
            f'{ht}.encoding in {opt}.spine_types': 'T',
            f'{opt}.spine_ids is None': 'N',
            f'{ht}.spine_id in {opt}.spine_ids': 'I',
            f'{node}.token.hidden': 'hid',
            f'isinstance({node}.token, ComplexToken)': 'cx',
            f'{node}.token.category in {opt}.token_categories': 'cat',
            f'nonempty({et})': 'nonempty',
        }
        self.spine_atoms = {'H', 'T', 'N', 'I'}
        self.cat_atoms = {'hid', 'cx', 'cat'}
        self.paths = []
        for sp in symex.sym_paths(docstring_free(f.body), fi=f):       # a private copy: the conditions are rewritten below
            sp.conds = [(inline_bool_helpers(ctx, f, c), t) for c, t in sp.conds]
            apps = []
            for e in sp.events:
                if e.kind == 'expr' and isinstance(e.expr, ast.Call) and isinstance(e.expr.func, ast.Attribute) \
                        and src(e.expr.func.value) == 'row' and e.expr.func.attr in ('append', 'insert', 'extend'):
                    apps.append(e.expr)
            self.paths.append((sp, sp.condition(), apps))
        self.unknown = []
        for _, fm, _ in self.paths:
            for a in G.atoms_of(fm):
                if a not in self.atoms and a not in self.unknown:
                    self.unknown.append(a)

    @staticmethod
    def spine_ok(v):
        return (not v['H']) and v['T'] and (v['N'] or v['I'])

    @staticmethod
    def cat_ok(v):
        return (not v['hid']) and (v['cx'] or v['cat'])

    def outcomes(self):
        """yield (valuation over names, unknown-valuation, path, appended calls)"""
        names = sorted(set(self.atoms.values()))
        for bits in itertools.product([False, True], repeat=len(names)):
            nv = dict(zip(names, bits))
            for ub in itertools.product([False, True], repeat=len(self.unknown)):
                val = {a: nv[n] for a, n in self.atoms.items()}
                val.update(dict(zip(self.unknown, ub)))
                taken = [(sp, apps) for sp, fm, apps in self.paths
                         if G.evaluate(fm, {a: val.get(a, False) for a in G.atoms_of(fm)})]
                if len(taken) != 1:
                    raise AnalysisError(f'{self.f.loc}: {len(taken)} paths of append_row for one valuation')
                yield nv, dict(zip(self.unknown, ub)), taken[0][0], taken[0][1]

    def appended_kind(self, call):
        """'placeholder' | 'exported' | 'exported-or-placeholder' | other text"""
        if call.func.attr != 'append' or len(call.args) != 1:
            return f'other:{src(call)[:60]}'
        a = call.args[0]
        s = src(a)
        if s == self.EMPTY:
            return 'placeholder'
        if s == self.ET:
            return 'exported'
        if isinstance(a, ast.IfExp):
            fm = G._formula(a.test)
            ats = G.atoms_of(fm)
            key = f'nonempty({self.ET})'
            if ats == [key]:
                t, e = (src(a.body), src(a.orelse)) if G.evaluate(fm, {key: True}) else (src(a.orelse), src(a.body))
                if t == self.ET and e == self.EMPTY:
                    return 'exported-or-placeholder'
        return f'other:{s[:60]}'


def check_spine_gate(ctx, rule, gate: RowGate):
    """C06.R1 / C13.R1: the spine gate reads only the header identity and spine_types/spine_ids;
    gated-out path appends nothing, every other path appends exactly one cell."""
    f = gate.f
    bad_dep, bad_out, bad_in = set(), set(), set()
    n = 0
    for nv, uv, sp, apps in gate.outcomes():
        n += 1
        ok_spine = gate.spine_ok(nv)
        if not ok_spine and apps:
            bad_out.add(_desc(nv, gate.spine_atoms, uv))
        if ok_spine and len(apps) != 1:
            bad_in.add((_desc(nv, gate.spine_atoms | gate.cat_atoms, uv), len(apps)))
    at = f.loc
    ctx.check(not bad_out, rule, at, f.qualname, 'spine-gate-appends-when-gated-out',
              'a node of an unselected spine (header unknown, type not selected, or id not selected) appends nothing: the column is '
              'deleted, not blanked',
              f'a cell is appended although the spine is not selected, e.g. for {sorted(bad_out)[:2]}: the spine gate is not '
              f'`header is not None and encoding in spine_types and (spine_ids is None or spine_id in spine_ids)`')
    ctx.check(not bad_in, rule, at, f.qualname, 'spine-gate-one-cell-when-selected',
              'a node of a selected spine appends exactly one cell on every path (columns keep their order)',
              f'a selected spine appends {sorted({c for _, c in bad_in})} cells, e.g. for {sorted(bad_in)[:2]}')
    for u in gate.unknown:
        ctx.violation(rule, at, f.qualname, f'gate-extra-condition:{_norm(u)}',
                      f'append_row branches on `{u}`: the outcome for a cell no longer depends only on the spine selection, the '
                      f'category selection and the token')
    ctx.count(f'{rule}.valuations', n)
    # header identity
    ch = ctx.prog.func(f'{EXP}.compute_header_type')
    p = ch.params[1]
    rets = symex.returns(ch)
    hdr_atom = f'isinstance({p}.token, HeaderToken)'
    hn_atom = f'{p}.header_node'
    okc = True
    for own in (True, False):
        for hn in (True, False):
            got = set()
            for cond, val, sp in rets:
                ats = G.atoms_of(cond)
                if not set(ats) <= {hdr_atom, hn_atom}:
                    okc = False
                    continue
                if G.evaluate(cond, {a: (own if a == hdr_atom else hn) for a in ats}):
                    got.add(src(val))
            want = f'{p}.token' if own else (f'{p}.header_node.token' if hn else 'None')
            if got != {want}:
                okc = False
    ctx.check(okc, rule, ch.loc, ch.qualname, 'header-identity',
              'the spine identity of a node is its own token for a header, else the token of its header node, else None',
              f'compute_header_type returns {[(G.show(c), src(v)) for c, v, _ in rets]}')


def check_category_gate(ctx, rule, gate: RowGate):
    """C05.R3: category gate truth table and placeholder."""
    f = gate.f
    bad = set()
    for nv, uv, sp, apps in gate.outcomes():
        if not gate.spine_ok(nv):
            continue
        kinds = [gate.appended_kind(c) for c in apps]
        if gate.cat_ok(nv):
            # an empty export may (but need not) be replaced by the placeholder
            okk = kinds in (['exported-or-placeholder'], ['exported']) or (kinds == ['placeholder'] and not nv['nonempty'])
            if not okk:
                bad.add(('selected', _desc(nv, gate.cat_atoms | {'nonempty'}, uv), tuple(kinds)))
        else:
            if kinds != ['placeholder']:
                bad.add(('unselected', _desc(nv, gate.cat_atoms, uv), tuple(kinds)))
    ctx.check(not bad, rule, f.loc, f.qualname, 'category-gate',
              'category gate: a visible token that is complex or whose category is selected is exported (placeholder only if the '
              'export is empty); every other token is replaced by its placeholder',
              f'category gate differs from `not hidden and (ComplexToken or category in token_categories)`: {sorted(bad)[:3]}')
    # placeholder function
    rt = ctx.prog.func(f'{EXP}._retrieve_empty_token')
    p = rt.params[1]
    sigs = (f'cls._is_token_in_a_signature_row({p})',
            f'TokenCategory.is_child(child={p}.token.category, parent=TokenCategory.SIGNATURES)')
    okp = True
    seen = set()
    for cond, val, sp in symex.returns(rt):
        parts = []
        node = val
        stack = [(cond, node)]
        for g, e in _split_ifexp(cond, val):
            seen.add((G.show(g), src(e)))
            ats = G.atoms_of(g)
            v = ast.literal_eval(e) if isinstance(e, ast.Constant) else None
            for bits in itertools.product([False, True], repeat=len(ats)):
                valn = dict(zip(ats, bits))
                if not G.evaluate(g, valn):
                    continue
                none_case = valn.get(f'{p} is None', False) or valn.get(f'{p}.token is None', False)
                if none_case:
                    okp = okp and v == ''
                elif any(s_ in valn for s_ in sigs):
                    sig = [s_ for s_ in sigs if s_ in valn][0]
                    okp = okp and v == ('*' if valn[sig] else '.')
                else:
                    okp = False
    ctx.check(okp, rule, rt.loc, rt.qualname, 'placeholder-table',
              "placeholder: '*' for a token under SIGNATURES, '.' for any other token, '' without a token",
              f'_retrieve_empty_token returns {sorted(seen)}')
    isr = ctx.prog.func(f'{EXP}._is_token_in_a_signature_row')
    q = isr.params[1]
    rets = symex.returns(isr)
    oks = len(rets) == 1 and src(rets[0][1]) in (
        f'bool(TokenCategory.is_child(child={q}.token.category, parent=TokenCategory.SIGNATURES))',
        f'TokenCategory.is_child(child={q}.token.category, parent=TokenCategory.SIGNATURES)')
    ctx.check(oks, rule, isr.loc, isr.qualname, 'signature-row-test',
              'a token is in a signature row iff its category is SIGNATURES or a descendant',
              f'_is_token_in_a_signature_row returns `{src(rets[0][1]) if rets else None}`')


def _split_ifexp(cond, val):
    from ..affine import split_cases
    out = []
    for g, e in split_cases(val):
        out.append((G.conj([cond, g]) if g != ('const', True) else cond, e))
    return out


def _desc(nv, names, uv):
    d = ','.join(f'{k}={"T" if nv[k] else "F"}' for k in sorted(names))
    if any(uv.values()):
        d += ';' + ','.join(f'{k[:30]}=T' for k, v in uv.items() if v)
    return d


def _norm(s):
    return ' '.join(s.split())[:60]


# --------------------------------------------------------------------------- nullish tables (C01.R5 / C05.R4)
def check_nullish_tables(ctx, rule):
    es = ctx.prog.func(f'{EXP}.export_string')
    er = ctx.prog.func(f'{N.EXPORTER}.empty_row')
    placeholders = {'', '.', '*'}
    empty_token = ctx.ce.module_const(N.TOKENS, 'EMPTY_TOKEN')
    need = placeholders | {empty_token}
    # the row test of the stage loop: the `if` that guards rows.append(row)
    loops = [n for n in walk_local(es.node) if isinstance(n, ast.For) and 'range(from_stage' in src(n.iter)]
    tests = []
    row_names = {}
    for lp in loops:
        for n in ast.walk(lp):
            if isinstance(n, ast.If):
                for b in n.body:
                    for x in ast.walk(b):
                        if isinstance(x, ast.Call) and src(x.func) == 'rows.append' and len(x.args) == 1 and isinstance(x.args[0], ast.Name) \
                                and n not in tests:
                            tests.append(n)
                            row_names[id(n)] = x.args[0].id     # whatever the row is called (a helper's local after inlining)
    ctx.expect_count(rule, 'null-row test of the stage loop', len(tests), 1)
    env = G.single_assignments(es.node)
    import itertools
    alphabet = sorted(need) + ['*-', '4c', '=', '*^', '!', '..', '**', ' ']
    samples = [[]] + [[a] for a in alphabet] + [[a, b] for a in alphabet for b in alphabet]
    for t in tests:
        at = f'{es.module.relpath}:{t.lineno}'
        rn = row_names[id(t)]
        test = G.substitute(t.test, {k: v for k, v in env.items() if k != rn})
        if rn != 'row':
            test = G.substitute(test, {rn: ast.Name(id='row', ctx=ast.Load())}, recursive=False)
        names = {x.id for x in ast.walk(test) if isinstance(x, ast.Name) and isinstance(x.ctx, ast.Load)}
        bound = {x.id for c in ast.walk(test) if isinstance(c, ast.comprehension) for x in ast.walk(c.target) if isinstance(x, ast.Name)}
        import builtins as _b
        free = {n_ for n_ in names - bound if n_ != 'row' and not hasattr(_b, n_) and ctx.prog.resolve(es.module, n_) is None}
        # what else does the test read?  locals / parameters of the export (the node, the options, the stage): the test is not
        # about the exported cells.  Class constants read through self / cls are part of the table.
        self_consts_only = all(isinstance(p_, ast.Attribute) and ctx.prog.find_class_attr(es.cls, p_.attr) is not None
                               for p_ in ast.walk(test) if isinstance(p_, ast.Attribute) and isinstance(p_.value, ast.Name)
                               and p_.value.id in ('self', 'cls')) if es.cls is not None else False
        foreign = {n_ for n_ in free if not (n_ in ('self', 'cls') and self_consts_only)}
        if foreign:
            ctx.violation(rule, at, es.qualname, 'null-row-test-not-on-exported-cells',
                          f'the row test `{src(t.test)[:100]}` does not compare the exported cells with the placeholder table: a cell '
                          f'that became a placeholder through a gate (a hidden barline, a filtered token) is not recognised as null, so '
                          f'the first export keeps an all-placeholder row that the second export drops')
            continue
        # the checker's evaluator interprets the test on every row of at most two cells over placeholders and other cells
        kept_wrong, dropped_wrong = [], []
        for row in samples:
            ok_, v = ctx.ce.try_eval(test, es.module, es.cls, {'row': list(row)})
            if not ok_:
                raise AnalysisError(f'{at}: the row test `{src(test)[:100]}` cannot be interpreted')
            want = len(row) > 0 and any(c not in need for c in row)
            if bool(v) and not want:
                kept_wrong.append(row)
            if want and not bool(v):
                dropped_wrong.append(row)
        ctx.check(not kept_wrong, rule, at, es.qualname, 'nullish-set-misses-placeholder',
                  f'a row that holds only placeholders ({sorted(need)}) is dropped (test interpreted on {len(samples)} rows)',
                  f'the row test keeps the all-placeholder row {kept_wrong[0] if kept_wrong else None}: a line left with only placeholders is not dropped')
        ctx.check(not dropped_wrong, rule, at, es.qualname, 'null-row-test',
                  'a row is kept iff it has a cell that is not a placeholder',
                  f'the row test `{src(t.test)[:80]}` drops the row {dropped_wrong[0] if dropped_wrong else None}')
    # empty_row: True iff every cell is a placeholder
    bad = []
    for row in samples:
        ok_, v = F.eval_function(ctx, er, {er.params[0]: list(row)})
        if not ok_:
            raise AnalysisError(f'{er.loc}: empty_row cannot be interpreted')
        if bool(v) != all(c in need - {empty_token} | {'', '.', '*'} for c in row):
            bad.append((row, v))
    ctx.check(not bad, rule, er.loc, er.qualname, 'empty-row-table',
              f'empty_row is true exactly for rows of placeholders (interpreted on {len(samples)} rows)',
              f'empty_row({bad[0][0] if bad else None}) is {bad[0][1] if bad else None}')
