"""C12 - Malformed tokens are isolated, reported once and preserved."""
from __future__ import annotations

import ast

from ..errors import AnalysisError
from ..model import src, walk_local, docstring_free
from .. import names as N
from .. import facts as F
from .. import guards as G
from .. import symex
from ..paths import enumerate_paths, calls_in, step_exprs
from . import shared


def run(ctx):
    ctx.explanation = (
        'Static rules for C12: (R1) the object whose error count decides the outcome of KernSpineImporter.import_token is per-call '
        '(created in the call or reset on every path before the parse) - an object stored on self by the constructor and only '
        'appended to is accumulated state, which makes the outcome of a cell depend on the cells parsed before it; (R2) the parse-'
        'tree listener that builds the token is constructed inside import_token and is the one walked and read; (R3) error discipline '
        'of Importer.run: the try wraps exactly the import_token call, the handler catches Exception and on every path builds exactly '
        'one ErrorToken(raw cell, row number, str(error)), appends it exactly once to self.errors and uses it as the node\'s token; '
        '(R4) ErrorToken keeps and exports the cell verbatim, both ANTLR error sinks are replaced by the collecting listener and the '
        'parser bails out instead of recovering; (R5) whole-cell consumption. Decides these mechanism clauses for every document.')
    ctx.not_decided = ['the exact error count on all documents (depends on which texts the generated parser rejects)']
    it = ctx.prog.func(f'{N.KERN_IMP}.KernSpineImporter.import_token')
    r1_fresh_error_state(ctx, it)
    r2_fresh_listener(ctx, it)
    r3_discipline(ctx)
    r4_verbatim(ctx, it)
    shared.check_token_ctors_verbatim(ctx, 'R4')     # no token class re-spells / strips the text it is given (ErrorToken's chain included)
    shared.check_cells_unmodified(ctx, 'R4')
    # the ErrorToken is built INSIDE the handler that isolates the malformed cell: a constructor (of the class or of a base class)
    # that can itself raise - a validation of the text it is given - turns the isolated error into a failed import
    et_ = ctx.prog.cls(f'{N.TOKENS}.ErrorToken')
    n_inits = 0
    for c_ in ctx.prog.mro(et_):
        init_ = c_.methods.get('__init__')
        if init_ is None or init_.module.generated:
            continue
        n_inits += 1
        raises_ = [x for x in walk_local(init_.node) if isinstance(x, (ast.Raise, ast.Assert))]
        ctx.check(not raises_, 'R4', init_.loc, init_.qualname, f'error-token-constructor-raises:{c_.name}',
                  f'{c_.name}.__init__ (constructor chain of ErrorToken) raises nothing',
                  f'{c_.name}.__init__ can raise (`{src(raises_[0])[:60]}`): ErrorToken(<cell>, ...) is built inside the exception handler of '
                  f'Importer.run, so for such a cell (e.g. an empty one) the import fails instead of reporting one error' if raises_ else '')
    ctx.expect_count('R4', 'constructors in the chain of ErrorToken', n_inits, 3)
    shared.whole_cell_consumption(ctx, 'R5')
    # the spines whose cells are notes (**kern, **root) report a malformed cell: their import_token lets the error out (the catch-all
    # with a verbatim token belongs to the free-text spines, C18)
    for qn_ in (f'{N.KERN_IMP}.KernSpineImporter', 'kernpy.core.root_spine_importer.RootSpineImporter'):
        ci_ = ctx.prog.cls(qn_)
        f_ = ci_.methods.get('import_token')
        if f_ is None:
            raise AnalysisError(f'anchor vanished: {qn_}.import_token')
        swallow = [h_ for t_ in walk_local(f_.node) if isinstance(t_, ast.Try) for h_ in t_.handlers
                   if (h_.type is None or src(h_.type) in ('Exception', 'BaseException')) and not any(isinstance(x_, ast.Raise) for x_ in ast.walk(h_))]
        ctx.check(not swallow, 'R3', f_.loc, f_.qualname, f'note-spine-importer-swallows-errors:{ci_.name}',
                  f'{ci_.name}.import_token lets a parse error out (the importer reports it once, with its line)',
                  f'{ci_.name}.import_token catches every exception and returns a token: a malformed cell of that spine is no longer reported '
                  f'(no ErrorToken, no entry in the error list)' if swallow else '')
    # every occurrence of a cell is parsed (and, when malformed, reported) on its own; a malformed cell is never a null cell
    from . import c18
    from .exporter_facts import check_nullish_tables
    ctx.alias = {'R7': 'R7'}
    c18.r7_document_dispatch(ctx)
    ctx.alias = {}
    check_nullish_tables(ctx, 'R8')
    from . import c20
    ctx.alias = {'R1': 'R9'}
    c20.r1_readers(ctx)          # the records reach the importer as written (no stripping / repairing of lines before the parse)
    ctx.alias = {}
    from .. import regen
    regen.check(ctx, 'R6')


def _resets(ctx, fi, stmt_or_call, target_src):
    """Does this statement reset the error state denoted by `target_src` (e.g. self.error_listener)?"""
    n = stmt_or_call
    if isinstance(n, ast.Assign):
        for t in n.targets:
            ts = src(t)
            if ts == target_src and isinstance(n.value, ast.Call):
                return True     # rebound to a new object
            if ts == f'{target_src}.errors' and (isinstance(n.value, (ast.List,)) and not n.value.elts
                                                 or src(n.value) in ('list()', '[]')):
                return True
    if isinstance(n, ast.Expr) and isinstance(n.value, ast.Call):
        c = n.value
        if src(c.func) == f'{target_src}.errors.clear':
            return True
        # helper on self or on the listener that resets (one level)
        if isinstance(c.func, ast.Attribute):
            recv = src(c.func.value)
            cands = []
            if recv == 'self' and fi.cls is not None:
                m = ctx.prog.find_method(fi.cls, c.func.attr)
                if m:
                    cands.append((m, target_src))
            if recv == target_src:
                el = ctx.prog.cls(f'{N.ERR_LISTENER}.ErrorListener')
                m = ctx.prog.find_method(el, c.func.attr)
                if m:
                    cands.append((m, 'self'))
            for m, tgt in cands:
                body = docstring_free(m.body)
                if any(_resets(ctx, m, s, tgt) for s in body if not isinstance(s, (ast.If, ast.For, ast.While, ast.Try))):
                    return True
    return False


def r1_fresh_error_state(ctx, it):
    """The error collector is the object registered on lexer and parser.  If it outlives the call (an attribute of self) it must
    be emptied on every path BEFORE the parse: a reset after the walk is skipped whenever parsing or walking raises."""
    regs = [n for n in walk_local(it.node) if isinstance(n, ast.Call) and isinstance(n.func, ast.Attribute)
            and n.func.attr == 'addErrorListener' and n.args]
    objs = sorted({src(r.args[0]) for r in regs})
    ctx.check(len(regs) >= 2 and len(objs) == 1, 'R1', it.loc, it.qualname, 'decider-is-registered-listener',
              'one collecting listener is registered on both lexer and parser',
              f'registered listeners: {[src(r.args[0]) for r in regs]}')
    if len(objs) != 1:
        return
    osrc = objs[0]
    obj = regs[0].args[0]
    parse_calls = [n for n in walk_local(it.node) if isinstance(n, ast.Call) and isinstance(n.func, ast.Attribute) and n.func.attr == 'start']
    if not parse_calls:
        raise AnalysisError(f'{it.loc}: the call of the start rule was not found')
    at = f'{it.module.relpath}:{parse_calls[0].lineno}'
    if isinstance(obj, ast.Name):
        created = any(isinstance(n, ast.Assign) and any(F.is_name(t, obj.id) for t in n.targets)
                      and isinstance(n.value, ast.Call) and F.constructed_class(ctx, n.value, it) is not None
                      for n in walk_local(it.node))
        ctx.check(created, 'R1', at, it.qualname, 'accumulated-error-state',
                  f'the error collector `{osrc}` is created inside the call',
                  f'the error collector `{osrc}` is not created inside import_token')
    else:
        paths = enumerate_paths(docstring_free(it.body))
        ok_all, n_paths = True, 0
        for p in paths:
            reached = reset = False
            for s_ in p.steps:
                if s_.kind == 'stmt' and _resets(ctx, it, s_.node, osrc):
                    reset = True
                if any(isinstance(c.func, ast.Attribute) and c.func.attr == 'start' for e in step_exprs(s_) for c in calls_in(e)):
                    reached = True
                    break
            if reached:
                n_paths += 1
                ok_all = ok_all and reset
        ctx.check(ok_all and n_paths > 0, 'R1', at, it.qualname, 'accumulated-error-state',
                  f'the error state `{osrc}` is reset on every path before the parse ({n_paths} paths)',
                  f'`{osrc}` outlives the call (it is stored on self and the Importer caches one importer per spine type) and is not '
                  f'emptied on every path BEFORE the parse: errors left behind by an earlier malformed cell - for instance when the '
                  f'parse or the tree walk of that cell raised before any later clean-up - make a later valid cell fail, so the outcome '
                  f'for a cell depends on the cells parsed before it')
    # any OTHER object that lives as long as the importer and is plugged into the parser / lexer of this call (an error strategy, a
    # token factory ...) carries its state - ANTLR's "already recovering" flag, for one - from one cell to the next
    locals_made = {t.id for n in walk_local(it.node) if isinstance(n, ast.Assign) and isinstance(n.value, ast.Call) for t in n.targets
                   if isinstance(t, ast.Name)}
    for n in walk_local(it.node):
        shared_ = None
        if isinstance(n, ast.Assign) and isinstance(n.value, ast.Attribute) and F.is_name(n.value.value, 'self') \
                and any(isinstance(t, ast.Attribute) and isinstance(t.value, ast.Name) and t.value.id in locals_made for t in n.targets):
            shared_ = n.value
        if isinstance(n, ast.Call) and isinstance(n.func, ast.Attribute) and isinstance(n.func.value, ast.Name) and n.func.value.id in locals_made \
                and n.func.attr != 'addErrorListener':
            for a_ in n.args:
                if isinstance(a_, ast.Attribute) and F.is_name(a_.value, 'self'):
                    shared_ = a_
        if shared_ is not None and src(shared_) != osrc:
            holder = ctx.prog.find_method(it.cls, '__init__') if it.cls is not None else None
            made_in_init = any(isinstance(c_, ast.Assign) and any(src(t_) == src(shared_) for t_ in c_.targets) and isinstance(c_.value, ast.Call)
                               for k_ in (ctx.prog.mro(it.cls) if it.cls is not None else []) for m_ in [k_.methods.get('__init__')] if m_ is not None
                               for c_ in walk_local(m_.node))
            rebound = any(isinstance(c_, ast.Assign) and any(src(t_) == src(shared_) for t_ in c_.targets) for c_ in walk_local(it.node))
            if made_in_init and not rebound:
                ctx.violation('R1', f'{it.module.relpath}:{n.lineno}', it.qualname, f'importer-lifetime-parser-state:{shared_.attr}',
                              f'`{src(shared_)}` is created once per importer and plugged into the parser / lexer of every call (`{src(n)[:60]}`): '
                              f'what it remembers of one cell (ANTLR error strategies keep an "in recovery" flag and the last error position) '
                              f'decides how the next cell is parsed')
    # the collected errors decide the outcome: after the parse every return is guarded by a test of the collector, and the other
    # outcome of that test raises
    guarded_returns = raising = 0
    unguarded = 0
    for sp in symex.func_sym_paths(it):
        started = False
        tests_after = []
        for e in sp.events:
            if isinstance(e.expr, ast.AST) and any(isinstance(c, ast.Call) and isinstance(c.func, ast.Attribute) and c.func.attr == 'start'
                                                   for c in ast.walk(e.expr)):
                started = True
            elif e.kind == 'cond' and started:
                tests_after.append(src(e.expr))
        if not started:
            continue
        on_collector = any(osrc in t for t in tests_after)
        if sp.end == 'return':
            if on_collector:
                guarded_returns += 1
            else:
                unguarded += 1
        elif sp.end == 'raise' and on_collector:
            raising += 1
    decisive = guarded_returns > 0 and raising > 0 and unguarded == 0
    ctx.check(decisive, 'R1', it.loc, it.qualname, 'errors-not-decisive',
              'after the parse, a non-empty error collection makes import_token raise',
              'no raise after the parse depends on the collected errors: a malformed cell is accepted')


def r2_fresh_listener(ctx, it):
    rets = [(c, v, sp) for c, v, sp in symex.returns(it)]
    n = 0
    for cond, val, sp in rets:
        if isinstance(val, ast.Constant) and val.value is None:
            continue
        n += 1
        at = f'{it.module.relpath}:{sp.path.end_node.lineno}'
        ok = isinstance(val, ast.Attribute) and val.attr == 'token' and F.constructed_class(ctx, val.value, it) is not None
        if not ok and isinstance(val, ast.Attribute) and val.attr == 'token':
            # <object constructed in this call>.<attr>.token: fresh when the constructor of that object creates the listener itself
            root_ = val.value
            while isinstance(root_, ast.Attribute):
                root_ = root_.value
            if isinstance(root_, ast.Call) and F.constructed_class(ctx, root_, it) is not None:
                holder = F.constructed_class(ctx, root_, it)
                init_ = ctx.prog.find_method(holder, '__init__')
                attr_ = val.value.attr if isinstance(val.value, ast.Attribute) and val.value.value is root_ else None
                made_ = [a_ for a_ in (walk_local(init_.node) if init_ is not None else []) if isinstance(a_, ast.Assign)
                         and any(src(t_) == f'self.{attr_}' for t_ in a_.targets) and isinstance(a_.value, ast.Call)
                         and F.constructed_class(ctx, a_.value, init_) is not None]
                if attr_ and made_:
                    ctx.holds('R2', at, it.qualname, f'the returned token is read from the listener that {holder.name}(...), constructed in this call, '
                                                     f'creates in its constructor')
                    continue
                raise AnalysisError(f'{at}: the token is read from `{src(val.value)[:60]}`, an object constructed in this call whose listener is not followed')
        ctx.check(ok, 'R2', at, it.qualname, 'fresh-listener',
                  'the returned token is read from a listener constructed in this call',
                  f'the returned value is `{src(val)[:80]}`: the listener is not created per call')
        if ok:
            # the walked listener is that same local
            walks = [e for e in sp.events if e.kind == 'expr' and isinstance(e.expr, ast.Call)
                     and isinstance(e.expr.func, ast.Attribute) and e.expr.func.attr == 'walk']
            okw = len(walks) == 1 and len(walks[0].expr.args) == 2 and src(walks[0].expr.args[0]) == src(val.value) \
                and 'start()' in src(walks[0].expr.args[1])
            ctx.check(okw, 'R2', at, it.qualname, 'listener-walked', 'exactly one walk of that listener over the parsed tree')
    ctx.expect_count('R2', 'returning paths of import_token', n, 1)


def r3_discipline(ctx):
    run_ = ctx.prog.func(f'{N.IMPORTER}.Importer.run')
    tries = []
    for n in walk_local(run_.node):
        if isinstance(n, ast.Try):
            calls = [c for b in n.body for c in calls_in(b) if isinstance(c.func, ast.Attribute) and c.func.attr == 'import_token']
            if calls:
                tries.append((n, calls))
    ctx.expect_count('R3', 'try around import_token in Importer.run', len(tries), 1)
    all_import_calls = [c for c in walk_local(run_.node) if isinstance(c, ast.Call) and isinstance(c.func, ast.Attribute)
                        and c.func.attr == 'import_token']
    guarded = {id(c) for _, cs in tries for c in cs}
    for c in all_import_calls:
        ctx.check(id(c) in guarded, 'R3', f'{run_.module.relpath}:{c.lineno}', run_.qualname, 'import_token-unguarded',
                  'import_token is called inside the try', 'import_token is called outside any try: a malformed cell aborts the import')
    et = ctx.prog.cls(f'{N.TOKENS}.ErrorToken')
    for t, calls in tries:
        at = f'{run_.module.relpath}:{t.lineno}'
        only = len(t.body) == 1 and isinstance(t.body[0], ast.Assign) and t.body[0].value is calls[0] \
            and len(t.body[0].targets) == 1 and isinstance(t.body[0].targets[0], ast.Name)
        ctx.check(only, 'R3', at, run_.qualname, 'try-wraps-only-import_token',
                  'the try wraps exactly `token = importer.import_token(cell)`',
                  'the try block contains more than the import_token call: other failures would be reported as token errors')
        tokvar = t.body[0].targets[0].id if only else None
        cell = src(calls[0].args[0]) if calls[0].args else None
        ctx.check(len(t.handlers) == 1 and (t.handlers[0].type is None or src(t.handlers[0].type) in ('Exception', 'BaseException')),
                  'R3', at, run_.qualname, 'handler-catches-exception', 'one handler catching Exception',
                  f'handlers: {[src(h.type) if h.type else "bare" for h in t.handlers]}')
        ctx.check(not t.finalbody and not t.orelse or True, 'R3', at, run_.qualname, 'no-else-finally', 'no else/finally changes the outcome')
        for h in t.handlers:
            exc = h.name
            for sp in symex.sym_paths(h.body):
                hat = f'{run_.module.relpath}:{h.lineno}'
                if sp.end in ('raise', 'return', 'break', 'continue'):
                    ctx.violation('R3', hat, run_.qualname, f'handler-ends-with-{sp.end}',
                                  f'a path through the handler ends with {sp.end}: the cell does not keep its place')
                    continue
                built = [e for e in sp.events for c in ([e.expr] if isinstance(e.expr, ast.Call) else [])
                         if e.kind in ('assign', 'expr') and F.constructed_class(ctx, c, run_) is et]
                n_built = 0
                for e in sp.events:
                    if e.expr is not None and e.kind in ('assign', 'expr', 'store'):
                        for c in ast.walk(e.node):
                            if isinstance(c, ast.Call) and F.constructed_class(ctx, c, run_) is et:
                                n_built += 1
                ctx.check(n_built == 1, 'R3', hat, run_.qualname, 'one-error-token',
                          'exactly one ErrorToken is built per failure', f'{n_built} ErrorToken constructions on a handler path')
                # token variable bound to the ErrorToken
                tv = sp.env.get(tokvar) if tokvar else None
                okt = tv is not None and isinstance(tv, ast.Call) and F.constructed_class(ctx, tv, run_) is et
                ctx.check(okt, 'R3', hat, run_.qualname, 'error-token-is-node-token',
                          'the ErrorToken becomes the token of the cell\'s node (the cell keeps its place)',
                          f'after the handler `{tokvar}` is `{src(tv)[:60] if tv is not None else None}`')
                if okt:
                    b = F.bind_args(tv, ctx.prog.find_method(et, '__init__'), True)
                    ctx.check(src(b.get('encoding')) == cell, 'R3', hat, run_.qualname, 'error-token-verbatim-cell',
                              'ErrorToken receives the raw cell text', f'ErrorToken receives `{src(b.get("encoding"))}`, not the raw cell `{cell}`')
                    line_ = b.get('line')
                    if isinstance(line_, ast.Name):
                        # a local that holds the row counter of this row (read once per row): same value
                        defs_ = [n_.value for n_ in walk_local(run_.node) if isinstance(n_, ast.Assign) and len(n_.targets) == 1
                                 and F.is_name(n_.targets[0], line_.id)]
                        if len(defs_) == 1 and src(defs_[0]) == 'self._row_number':
                            line_ = defs_[0]
                    ctx.check(src(line_) == 'self._row_number', 'R3', hat, run_.qualname, 'error-token-line',
                              'ErrorToken receives the current row number', f'ErrorToken line is `{src(b.get("line"))}`')
                    ctx.check(exc is not None and src(b.get('error')) in (f'str({exc}@exc)', f'repr({exc}@exc)', f'str({exc})', f'repr({exc})'), 'R3', hat,
                              run_.qualname, 'error-token-message', 'ErrorToken receives the message of the caught exception',
                              f'ErrorToken error is `{src(b.get("error"))}`')
                # appended exactly once to self.errors, and it is that same token
                apps = [e for e in sp.events if e.kind == 'expr' and isinstance(e.expr, ast.Call)
                        and src(e.expr.func) == 'self.errors.append']
                okA = len(apps) == 1 and tv is not None and len(apps[0].expr.args) == 1 and src(apps[0].expr.args[0]) == src(tv)
                ctx.check(okA, 'R3', hat, run_.qualname, 'error-recorded-once',
                          'the ErrorToken is appended exactly once to Importer.errors',
                          f'{len(apps)} append(s) to self.errors on a handler path'
                          + (f' (appended `{src(apps[0].expr.args[0])[:50]}`)' if apps and apps[0].expr.args else ''))
    # the row number handed to ErrorToken: starts at 1, +1 exactly once per non-empty row, at the end of the row
    init = ctx.prog.func(f'{N.IMPORTER}.Importer.__init__')
    ok1 = any(isinstance(n, ast.Assign) and src(n.targets[0]) == 'self._row_number' and src(n.value) == '1' for n in walk_local(init.node))
    ctx.check(ok1, 'R3', init.loc, init.qualname, 'row-number-starts-at-1', 'the row counter starts at 1')
    # on every path through one turn of the row loop: a row with cells adds exactly 1 to the row counter, after all its cells
    # were read (so every cell of the row reports the same number); a skipped (empty) row adds nothing
    from . import c02 as C02
    facts = C02.counter_on_row_paths(ctx, run_, 'self._row_number')
    okr = bool(facts)
    incs = []
    for sp, inc_idx, work_idx, active, bad in facts:
        incs.extend(src(sp.events[i].node) for i in inc_idx)
        if bad:
            okr = False
        elif not active:
            okr = okr and not inc_idx
        else:
            okr = okr and len(inc_idx) == 1 and (not work_idx or inc_idx[0] > max(work_idx))
    incs = sorted(set(incs))
    ctx.check(okr, 'R3', run_.loc, run_.qualname, 'row-number-once-per-row',
              'the row counter is incremented exactly once per non-empty row, as the last statement of the row loop',
              f'row counter updates: {incs}: not exactly one, after the cells, on every path of a row with cells - the line number '
              f'reported with an error drifts')
    # self.errors is written nowhere else in the importer (except __init__)
    imp = ctx.prog.cls(f'{N.IMPORTER}.Importer')
    from . import shared
    importing = shared.on_path(ctx, [f'{N.IMPORTER}.Importer.run', f'{N.IMPORTER}.Importer.import_file', f'{N.IMPORTER}.Importer.import_string'])
    for f in imp.methods.values():
        if ctx.prog.is_glue(f):
            continue        # an extracted helper: its statements are judged where they were inlined
        if id(f.node) not in importing:
            continue        # not part of an import (e.g. an API that lets the caller forget the errors)
        for n in walk_local(f.node):
            if isinstance(n, ast.Call) and isinstance(n.func, ast.Attribute) and src(n.func.value) == 'self.errors' \
                    and n.func.attr in ('append', 'extend', 'insert', 'pop', 'remove', 'clear'):
                inside = any(n in list(ast.walk(h)) for t, _ in tries for h in t.handlers)
                ctx.check(inside, 'R3', f'{f.module.relpath}:{n.lineno}', f.qualname, 'errors-written-elsewhere',
                          'Importer.errors is written only by the token-failure handler',
                          f'`{src(n)[:60]}` writes Importer.errors outside the token-failure handler')
            if isinstance(n, ast.Assign) and any(src(t) == 'self.errors' for t in n.targets) and f.name != '__init__':
                ctx.violation('R3', f'{f.module.relpath}:{n.lineno}', f.qualname, 'errors-rebound', 'Importer.errors is rebound outside __init__')


def r4_verbatim(ctx, it):
    et = ctx.prog.cls(f'{N.TOKENS}.ErrorToken')
    init = et.methods.get('__init__')
    exp = ctx.prog.find_method(et, 'export')
    if init is None or exp is None:
        raise AnalysisError('anchor vanished: ErrorToken.__init__/export')
    enc_p = init.params[1]
    sup = [n for n in walk_local(init.node) if isinstance(n, ast.Call) and src(n.func) == 'super().__init__']
    ok = False
    if len(sup) == 1:
        base_init = None
        for c_ in ctx.prog.mro(et)[1:]:
            if '__init__' in c_.methods:
                base_init = c_.methods['__init__']
                break
        if base_init is not None and len(base_init.params) > 1:
            try:
                b_ = F.bind_args(sup[0], base_init, True)
                ok = F.is_name(b_.get(base_init.params[1]), enc_p)
            except AnalysisError:
                ok = False
    ctx.check(ok, 'R4', init.loc, init.qualname, 'error-token-stores-cell', 'ErrorToken stores the cell text unchanged as its encoding',
              f'ErrorToken passes `{src(sup[0].args[0]) if sup and sup[0].args else None}` to its base class')
    ab = ctx.prog.func(f'{N.TOKENS}.AbstractToken.__init__')
    okb = any(isinstance(n, ast.Assign) and src(n.targets[0]) == 'self.encoding' and F.is_name(n.value, ab.params[1])
              for n in walk_local(ab.node))
    ctx.check(okb, 'R4', ab.loc, ab.qualname, 'token-stores-encoding', 'AbstractToken.__init__ stores encoding verbatim')
    rets = [(None, v, sp_) for sp_, v in F.effective_returns(ctx, ctx.prog.cls(f'{N.TOKENS}.ErrorToken'), 'export')]
    okx = len(rets) >= 1 and all(src(v) == 'self.encoding' for _, v, _ in rets)
    ctx.check(okx, 'R4', exp.loc, exp.qualname, 'error-token-export-verbatim', 'ErrorToken.export returns the stored cell text',
              f'ErrorToken.export returns {[src(v)[:40] for _, v, _ in rets]}')
    # error sinks
    body_src = [src(n) for n in walk_local(it.node) if isinstance(n, ast.Call)]
    rm = [s for s in body_src if s.endswith('.removeErrorListeners()')]
    ctx.check(len(rm) >= 2, 'R4', it.loc, it.qualname, 'console-listeners-removed',
              'the console error listeners of lexer and parser are removed', f'removeErrorListeners calls: {rm}')
    real = any(isinstance(n, ast.Assign) and src(n.targets[0]).endswith('._errHandler') and 'BailErrorStrategy' in src(n.value)
               for n in walk_local(it.node))
    fake = any(isinstance(n, ast.Assign) and src(n.targets[0]).endswith('.errHandler') and 'BailErrorStrategy' in src(n.value)
               for n in walk_local(it.node))
    if real:
        ctx.holds('R4', it.loc, it.qualname, 'the parser uses the bail-out strategy (parser._errHandler): no error recovery rewrites the cell')
    else:
        ctx.note('R4', it.loc, it.qualname,
                 ('`parser.errHandler = BailErrorStrategy()` has no effect: the ANTLR runtime reads `_errHandler`, so the default strategy '
                  'recovers and goes on; ' if fake else 'no bail-out strategy is installed; ') +
                 'this does not break C12 - every syntax error is still notified to the collecting listener and the outcome is '
                 'decided by the error count (R1) - but the stated belief "bail out" is false')
    shared.plain_encodings_keep_verbatim_text(ctx, 'R4')
    # ErrorListener.syntaxError records every notification
    el = ctx.prog.func(f'{N.ERR_LISTENER}.ErrorListener.syntaxError')
    recorded = True
    for p in enumerate_paths(docstring_free(el.body)):
        if p.end in ('fall', 'return'):
            if not any(s.kind == 'stmt' and 'self.errors.append' in src(s.node) for s in p.steps):
                # the verbose branch recurses; a path that returns without recording loses an error
                recorded = False
    ctx.check(recorded, 'R4', el.loc, el.qualname, 'listener-records-every-error',
              'every syntaxError notification is recorded', 'a path through syntaxError does not record the error')
    gn = ctx.prog.func(f'{N.ERR_LISTENER}.ErrorListener.getNumberErrorsFound')
    rets = symex.returns(gn)
    ctx.check(len(rets) == 1 and src(rets[0][1]) == 'len(self.errors)', 'R4', gn.loc, gn.qualname, 'error-count',
              'getNumberErrorsFound is the number of recorded errors')
