"""C02 - Import builds a spine tree that mirrors the text cell for cell."""
from __future__ import annotations

import ast
import itertools

from ..errors import AnalysisError
from ..astutil import clone
from ..model import src, walk_local, docstring_free
from .. import names as N
from .. import facts as F
from .. import guards as G
from .. import symex
from ..paths import enumerate_paths, calls_in, step_exprs

IMP = f'{N.IMPORTER}.Importer'


def run(ctx):
    ctx.explanation = (
        'Static rules for C02 on Importer.run and its helpers: (R1) every csv.reader on the import path uses the tab delimiter with '
        'quoting disabled, so quotes, commas and spaces are cell text; (R2) a cell index beyond the live spine paths always ends in a '
        'raise (every path of the guard), and no subscript of the parent list sits inside a handler that could swallow IndexError; '
        '(R3) on every non-raising path through one iteration of the column loop exactly one tree node is created (helpers are '
        'summarised by their constant count); (R4) provenance of the node coordinates: stage = the row counter (incremented exactly '
        'once per non-empty row, before the cells), parent = parents-of-previous-row[this column], header/signature context read from '
        'that parent, header cells carry spine_id = column index and become their own header node; (R5) spine-operator arity: the '
        'number of continuations a cell pushes for the next row is 0 for *-, 2 for *^ and *+, 1 or 0 for *v by the documented guard, '
        '1 for any other cell, raise for unknown operators; (R6) stage bookkeeping of MultistageTree.add_node and Node.__init__. '
        'Decides the propagation mechanism for every layout; equality with an independent spine-path model is not decided.')
    ctx.not_decided = ['equality of the whole tree with an independent spine-path model on all layouts']
    r1_reader(ctx)
    r2_surplus(ctx)
    r3_r5_counts(ctx)
    r4_provenance(ctx)
    r6_bookkeeping(ctx)
    # a file is imported through the same line reader as a string, on every call (no parsed-file cache)
    from . import c20
    ctx.alias = {'R4': 'R7'}
    c20.r4_load(ctx)
    ctx.alias = {'R1': 'R7'}
    c20.r1_readers(ctx)
    ctx.alias = {}
    # "cell text is taken literally": no token class strips or re-spells the text at construction, and the cells of a record reach
    # the tokens as the line reader produced them
    from . import shared
    shared.check_token_ctors_verbatim(ctx, 'R8')
    shared.check_cells_unmodified(ctx, 'R8')
    r9_one_node_per_global_comment(ctx)


# --------------------------------------------------------------------------- R1
def _is_csv_reader(ctx, f, n):
    if not isinstance(n, ast.Call) or not isinstance(n.func, (ast.Name, ast.Attribute)):
        return False
    r = ctx.prog.resolve_expr(f.module, n.func, None)
    return bool(r and r[0] == 'external' and r[1] == 'csv.reader')


def reader_of_entry(ctx, entry, _depth=0):
    """The csv.reader call that produces the rows handed to self.run(...) by an import entry point, found through at
    most one private helper: -> (function containing the call, call node, stream expression in the entry's terms) or None."""
    env = G.single_assignments(entry.node)
    runs = [c for c in walk_local(entry.node) if isinstance(c, ast.Call) and src(c.func) == 'self.run' and c.args]
    if not runs and _depth < 2 and entry.cls is not None:
        # the entry point delegates to another import method of the same object (import_file reads the text and calls
        # import_string): the reader of that method is the reader of this one
        for ret in [n for n in walk_local(entry.node) if isinstance(n, ast.Return) and isinstance(n.value, ast.Call)]:
            c = ret.value
            if isinstance(c.func, ast.Attribute) and F.is_name(c.func.value, 'self'):
                h = ctx.prog.find_method(entry.cls, c.func.attr)
                if h is not None and h is not entry:
                    r = reader_of_entry(ctx, h, _depth + 1)
                    if r is not None:
                        return r
    for rc in runs:
        origin = G.substitute(rc.args[0], env)
        if _is_csv_reader(ctx, entry, origin):
            stream = origin.args[0] if origin.args else None
            # find the original call node (for the line number)
            orig = [c for c in walk_local(entry.node) if _is_csv_reader(ctx, entry, c)]
            return entry, (orig[0] if orig else origin), stream, origin
        if isinstance(origin, ast.Call) and isinstance(origin.func, ast.Attribute) and F.is_name(origin.func.value, 'self') and entry.cls:
            h = ctx.prog.find_method(entry.cls, origin.func.attr)
            if h is None:
                continue
            henv = G.single_assignments(h.node)
            for ret in [n for n in walk_local(h.node) if isinstance(n, ast.Return) and n.value is not None]:
                ro = G.substitute(ret.value, henv)
                if _is_csv_reader(ctx, h, ro):
                    b = F.bind_args(origin, h, True)
                    stream = G.substitute(ro.args[0], {k: v for k, v in b.items()}) if ro.args else None
                    orig = [c for c in walk_local(h.node) if _is_csv_reader(ctx, h, c)]
                    return h, (orig[0] if orig else ro), stream, ro
    return None


def csv_reader_calls(ctx):
    """[(entry point, function containing the reader call, reader call, stream expression)] for import_file / import_string."""
    out = []
    for name in ('import_file', 'import_string'):
        entry = ctx.prog.func(f'{IMP}.{name}')
        r = reader_of_entry(ctx, entry)
        if r is not None:
            out.append((entry, r[0], r[3], r[2], r[1]))
    return out


_PREDEFINED = {
    'csv.excel': {'delimiter': ',', 'quotechar': '"', 'doublequote': True, 'skipinitialspace': False, 'lineterminator': '\r\n',
                  'quoting': 'csv.QUOTE_MINIMAL'},
    'csv.excel_tab': {'delimiter': '\t', 'quotechar': '"', 'doublequote': True, 'skipinitialspace': False, 'lineterminator': '\r\n',
                      'quoting': 'csv.QUOTE_MINIMAL'},
    'csv.unix_dialect': {'delimiter': ',', 'quotechar': '"', 'doublequote': True, 'skipinitialspace': False, 'lineterminator': '\n',
                         'quoting': 'csv.QUOTE_ALL'},
    'csv.Dialect': {},
}
_BY_NAME = {'excel': 'csv.excel', 'excel-tab': 'csv.excel_tab', 'unix': 'csv.unix_dialect'}


def _option_value(ctx, m, v):
    r = ctx.prog.resolve_expr(m, v, None) if isinstance(v, (ast.Name, ast.Attribute)) else None
    if r and r[0] == 'external':
        return r[1]
    if r and r[0] == 'assign':
        return _option_value(ctx, r[2], r[1])
    try:
        return ast.literal_eval(v)
    except Exception:
        return f'<{src(v)}>'


def dialect_fields(ctx, m, node, depth=0):
    """The formatting parameters a dialect argument stands for: a predefined dialect (by object or registered name), or a
    class of the repository deriving from one (its class-level assignments, most derived first).  None: not followed."""
    if depth > 6:
        return None
    if isinstance(node, ast.Constant) and isinstance(node.value, str):
        return dict(_PREDEFINED[_BY_NAME[node.value]]) if node.value in _BY_NAME else None
    if isinstance(node, ast.Call) and not node.args and not node.keywords:      # an instance of the dialect class
        node = node.func
    if not isinstance(node, (ast.Name, ast.Attribute)):
        return None
    r = ctx.prog.resolve_expr(m, node, None)
    if r is None:
        return None
    if r[0] == 'external':
        return dict(_PREDEFINED[r[1]]) if r[1] in _PREDEFINED else None
    if r[0] == 'assign':
        return dialect_fields(ctx, r[2], r[1], depth + 1)
    if r[0] == 'class':
        ci = r[1]
        if ci.methods or len(ci.node.bases) != 1:
            return None
        out = dialect_fields(ctx, ci.module, ci.node.bases[0], depth + 1)
        if out is None:
            return None
        for k, v in ci.attrs.items():
            if k.startswith('__') or k == '_name':
                continue
            out[k] = _option_value(ctx, ci.module, v)
        return out
    return None


def reader_dialect(ctx, f, call):
    """Effective formatting parameters of a csv.reader call: the dialect's, overridden by the keyword arguments."""
    kw = {}
    dia = call.args[1] if len(call.args) > 1 else None
    for k in call.keywords:
        if k.arg is None:
            return None
        if k.arg == 'dialect':
            dia = k.value
            continue
        kw[k.arg] = _option_value(ctx, f.module, k.value)
    if dia is not None:
        base = dialect_fields(ctx, f.module, dia)
        if base is None:
            raise AnalysisError(f'{f.module.relpath}:{call.lineno}: the dialect `{src(dia)}` given to csv.reader is not followed')
        kw = dict(base, **kw)
        kw['<dialect>'] = src(dia)
    return kw


def r1_reader(ctx):
    calls = csv_reader_calls(ctx)
    for name in ('import_file', 'import_string'):
        if not any(e.name == name for e, *_ in calls):
            entry = ctx.prog.func(f'{IMP}.{name}')
            ctx.violation('R1', entry.loc, entry.qualname, 'rows-not-from-csv-reader',
                          f'{name} does not hand the rows of a csv.reader (directly or through one helper) to run(): the cells are '
                          f'not split by the line reader the property describes')
    for entry, f, call, stream, orig in calls:
        at = f'{f.module.relpath}:{orig.lineno}'
        kw = reader_dialect(ctx, f, call)
        if kw is None:
            raise AnalysisError(f'{at}: csv.reader called with **kwargs')
        who = entry.name
        dia = kw.pop('<dialect>', None)
        ctx.check(kw.get('delimiter') == '\t', 'R1', at, entry.qualname, 'reader-delimiter', f'{who}: cells are separated by TAB only',
                  f'{who}: delimiter is {kw.get("delimiter")!r}')
        literal = kw.get('quoting') == 'csv.QUOTE_NONE' or ('quotechar' in kw and kw['quotechar'] is None)
        ctx.check(literal, 'R1', at, entry.qualname, 'reader-interprets-quotes',
                  f'{who}: quoting is disabled: a double quote is ordinary cell text',
                  f'{who}: csv.reader is used with ' + (f'the dialect {dia}' if dia else 'its default dialect')
                  + f' (quotechar \'"\', {kw.get("quoting", "QUOTE_MINIMAL")}): a cell that starts with a double '
                  'quote swallows the following tabs and line ends up to the next quote, and `"la"` loses its quotes')
        extra = set(kw) - {'delimiter', 'quoting', 'quotechar'}
        bad = {k: kw[k] for k in extra if not (k == 'escapechar' and kw[k] is None) and not (k == 'skipinitialspace' and kw[k] is False)
               and not (k == 'strict' and kw[k] in (True, False)) and not (k == 'doublequote' and literal)
               and not (k == 'lineterminator')}
        ctx.check(not bad, 'R1', at, entry.qualname, 'reader-extra-dialect', f'{who}: no other dialect option alters the cell text',
                  f'{who}: dialect options {bad} alter how cells are read')


# --------------------------------------------------------------------------- R2
PARENTS = 'self._prev_stage_parents'


def r2_surplus(ctx):
    n_guards = 0
    n_subs = 0
    for name in ('run', '_compute_spine_operator_token', '_compute_metacomment_token', '_compute_header_token'):
        f = ctx.prog.func(f'{IMP}.{name}')
        guards_ = []
        for n in walk_local(f.node):
            if isinstance(n, ast.If) and f'len({PARENTS})' in src(n.test):
                fm = G._formula(n.test)
                ats = G.atoms_of(fm)
                # canonical: not (col < len(parents))  ==  col >= len
                guards_.append(n)
        for g in guards_:
            n_guards += 1
            at = f'{f.module.relpath}:{g.lineno}'
            fm = G._formula(g.test)
            ats = G.atoms_of(fm)
            col = None
            for a in ats:
                if a.endswith(f' < len({PARENTS})'):
                    col = a[:-len(f' < len({PARENTS})')]
            surplus_true = col is not None and len(ats) == 1 and G.evaluate(fm, {ats[0]: False}) and not G.evaluate(fm, {ats[0]: True})
            if not surplus_true:
                ctx.violation('R2', at, f.qualname, 'surplus-guard-shape',
                              f'the guard `{src(g.test)}` is not `column >= len(parents)` (it does not reject exactly the surplus cells)')
                continue
            ends = {p.end for p in enumerate_paths(g.body)}
            ctx.check(ends == {'raise'}, 'R2', at, f.qualname, 'surplus-cell-not-rejected',
                      f'a cell index beyond the live spine paths (`{col}` >= len(parents)) always raises',
                      f'a path through the surplus-cell guard ends with {sorted(ends - {"raise"})}: a line with more cells than '
                      f'live spine paths is silently mis-aligned instead of rejected')
        # subscripts of the parent list
        tries = [t for t in walk_local(f.node) if isinstance(t, ast.Try)]
        for n in walk_local(f.node):
            if isinstance(n, ast.Subscript) and src(n.value) == PARENTS and isinstance(n.ctx, ast.Load):
                n_subs += 1
                at = f'{f.module.relpath}:{n.lineno}'
                swallowed = any(n in list(ast.walk(ast.Module(body=t.body, type_ignores=[]))) for t in tries)
                ctx.check(not swallowed, 'R2', at, f.qualname, 'index-error-swallowed',
                          f'`{src(n)}` is not inside a try block (an IndexError for a surplus cell escapes)',
                          f'`{src(n)}` is inside a try block: the IndexError of a surplus cell can be swallowed')
    ctx.expect_count('R2', 'surplus-cell guards', n_guards, 2)
    ctx.expect_count('R2', 'subscripts of the parent list', n_subs, 3)


# --------------------------------------------------------------------------- R3 / R5 path counts
def _is_add_node(call):
    return isinstance(call.func, ast.Attribute) and call.func.attr == 'add_node' and src(call.func.value) == 'self._tree'


def _is_next_append(call):
    return isinstance(call.func, ast.Attribute) and call.func.attr in ('append', 'extend') \
        and src(call.func.value) == 'self._next_stage_parents'


def _seq_len(a):
    """Number of elements of a list expression whose length is fixed by its shape; None: not fixed."""
    if isinstance(a, (ast.List, ast.Tuple)) and not any(isinstance(e, ast.Starred) for e in a.elts):
        return len(a.elts)
    if isinstance(a, ast.BinOp) and isinstance(a.op, ast.Mult):
        for x, k in ((a.left, a.right), (a.right, a.left)):
            n = _seq_len(x)
            if n is not None and isinstance(k, ast.Constant) and isinstance(k.value, int) and not isinstance(k.value, bool):
                return n * max(k.value, 0)
    if isinstance(a, ast.BinOp) and isinstance(a.op, ast.Add):
        l, r = _seq_len(a.left), _seq_len(a.right)
        return l + r if l is not None and r is not None else None
    if isinstance(a, ast.Call) and isinstance(a.func, ast.Name) and a.func.id in ('list', 'tuple') and len(a.args) == 1 and not a.keywords:
        return _seq_len(a.args[0])
    return None


def _append_weight(call):
    if call.func.attr == 'append':
        return 1
    return _seq_len(call.args[0]) if call.args else None


def path_counts(ctx, f, body, helper_counts):
    """[(SymPath, add_node count, next-append count)] for the statement list `body`.  Nodes are counted on the statements of
    the path; continuations on the statement-level calls with the values of the locals substituted (`extend([node] * n)`)."""
    out = []
    for sp in symex.sym_paths(body, limit=20000, fi=f):
        nadd = napp = 0
        raw_appends = 0
        for s in sp.path.steps:
            for e in step_exprs(s):
                for c in calls_in(e):
                    if _is_add_node(c):
                        nadd += 1
                    elif _is_next_append(c):
                        raw_appends += 1
                    elif isinstance(c.func, ast.Attribute) and F.is_name(c.func.value, 'self') and c.func.attr in helper_counts:
                        a, b = helper_counts[c.func.attr]
                        if a is None:
                            raise AnalysisError(f'{f.module.relpath}:{c.lineno}: helper {c.func.attr} has no constant count')
                        nadd += a
                        napp += b if b is not None else 0
        top = [e for e in sp.events if e.kind == 'expr' and isinstance(e.expr, ast.Call) and _is_next_append(e.expr)]
        if len(top) != raw_appends:
            raise AnalysisError(f'{f.loc}: a continuation is pushed by a call that is not a statement of its own')
        for e in top:
            w = _append_weight(e.expr)
            if w is None:
                raise AnalysisError(f'{f.module.relpath}:{e.node.lineno}: extend() with an argument whose length is not fixed '
                                    f'by its shape: `{src(e.expr.args[0])[:80] if e.expr.args else ""}`')
            napp += w
        out.append((sp, nadd, napp))
    return out


def r3_r5_counts(ctx):
    hdr = ctx.prog.func(f'{IMP}._compute_header_token')
    sop = ctx.prog.func(f'{IMP}._compute_spine_operator_token')
    run_ = ctx.prog.func(f'{IMP}.run')
    for h_ in (hdr, sop):
        # the counting below is per function: a helper that hands the continuations back to its caller (returns them) moves the
        # push into the caller's data flow, which these rules do not follow
        if any(v_ is not None and not (isinstance(v_, ast.Constant) and v_.value is None) for _, v_, sp_ in symex.returns(h_) if sp_.end == 'return'):
            raise AnalysisError(f'{h_.loc}: {h_.name} returns a value to its caller: the continuations are not pushed where the rule counts them')
    # helper: header -> constant (1 node, 1 continuation)
    hc = path_counts(ctx, hdr, docstring_free(hdr.body), {})
    live = [(sp, a, b) for sp, a, b in hc if sp.end != 'raise']
    okh = bool(live) and all(a == 1 and b == 1 for _, a, b in live)
    ctx.check(okh, 'R3', hdr.loc, hdr.qualname, 'header-one-node',
              'a header cell creates exactly one node and one continuation on every non-raising path',
              f'header cell: (nodes, continuations) per path = {sorted({(a, b) for _, a, b in live})}')
    # helper: spine operator -> 1 node; continuation count by the table
    live = []
    for sp in symex.sym_paths(docstring_free(sop.body), limit=20000, fi=sop):
        if sp.end != 'raise':
            live.append((sp, sum(1 for st in sp.path.steps for e in step_exprs(st) for c in calls_in(e) if _is_add_node(c)), None))
    oks = bool(live) and all(a == 1 for _, a, _ in live)
    ctx.check(oks, 'R3', sop.loc, sop.qualname, 'spine-operator-one-node',
              'a spine-operator cell creates exactly one node on every non-raising path',
              f'spine-operator cell: nodes per path = {sorted({a for _, a, _ in live})}')
    r5_arity(ctx, sop)
    # the column loop of run
    loops = [n for n in walk_local(run_.node) if isinstance(n, ast.For) and 'enumerate(row)' in src(n.iter)]
    ctx.expect_count('R3', 'column loop in Importer.run', len(loops), 1)
    helper = {'_compute_header_token': (1 if okh else None, 1), '_compute_spine_operator_token': (1 if oks else None, None)}
    for loop in loops:
        pcs = path_counts(ctx, run_, loop.body, helper)
        n_live = 0
        bad_nodes, bad_cont = set(), set()
        for sp, a, b in pcs:
            if sp.end == 'raise':
                continue
            n_live += 1
            via_sop = any(isinstance(c.func, ast.Attribute) and c.func.attr == '_compute_spine_operator_token' for c in sp.calls())
            if a != 1:
                bad_nodes.add((a, sp.path.end_node.lineno if sp.path.end_node is not None else loop.lineno))
            if not via_sop and b != 1:
                bad_cont.add((b, sp.path.end_node.lineno if sp.path.end_node is not None else loop.lineno))
        at = f'{run_.module.relpath}:{loop.lineno}'
        ctx.check(not bad_nodes, 'R3', at, run_.qualname, 'one-node-per-cell',
                  f'exactly one node per cell on all {n_live} non-raising paths through the column loop',
                  f'paths with a node count different from 1: {sorted(bad_nodes)[:4]} (count, line)')
        ctx.check(not bad_cont, 'R5', at, run_.qualname, 'one-continuation-per-ordinary-cell',
                  'an ordinary or header cell pushes exactly one continuation for the next row',
                  f'paths with a continuation count different from 1: {sorted(bad_cont)[:4]} (count, line)')
        ctx.expect_count('R3', 'non-raising paths through the column loop', n_live, 6)
        ctx.count('R3.paths_through_column_loop', len(pcs))
    # the row loop: stage counter incremented exactly once per non-empty row, before the cells
    rows = [n for n in docstring_free(run_.body) if isinstance(n, ast.For)]
    ctx.expect_count('R4', 'row loop in Importer.run', len(rows), 1)
    row_loop = rows[0]
    at = f'{run_.module.relpath}:{row_loop.lineno}'
    # on every path through one turn of the row loop: a row with cells adds exactly 1 to the stage counter, before any of
    # its cells is read; a skipped (empty) row adds nothing
    facts = counter_on_row_paths(ctx, run_, 'self._tree_stage')
    ok_inc = bool(facts)
    incs = []
    for sp, inc_idx, work_idx, active, bad in facts:
        incs.extend(src(sp.events[i].node) for i in inc_idx)
        if bad:
            ok_inc = False
        elif not active:
            ok_inc = ok_inc and not inc_idx
        else:
            ok_inc = ok_inc and len(inc_idx) == 1 and (not work_idx or inc_idx[0] < min(work_idx))
    incs = sorted(set(incs))
    ctx.check(ok_inc, 'R4', at, run_.qualname, 'stage-counter',
              'the stage counter is incremented exactly once per non-empty row, before the cells are read',
              f'stage counter updates: {incs}: not exactly one, before the cells, on every path of a row with cells')
    empty = [s for s in row_loop.body if isinstance(s, ast.If) and 'len(row)' in src(s.test)]
    if empty:
        fm = G._formula(empty[0].test)
        ats = G.atoms_of(fm)
        ok_e = src(empty[0].test) in ('len(row) <= 0', 'len(row) == 0', 'not row', 'len(row) < 1')
        ctx.check(ok_e, 'R4', f'{run_.module.relpath}:{empty[0].lineno}', run_.qualname, 'empty-row-skip',
                  'only rows without any cell are skipped', f'rows are skipped under `{src(empty[0].test)}`')


def _closed_atoms(ctx, fi, atoms):
    """Atoms without any free variable of the function: only constants, constructor calls of constants, module-level names."""
    out = []
    for a in atoms:
        try:
            node = ast.parse(a, mode='eval').body
        except SyntaxError:
            continue
        names = {n.id for n in ast.walk(node) if isinstance(n, ast.Name)}
        if names and all(n_ not in fi.all_params and (ctx.prog.resolve(fi.module, n_) is not None or (
                fi.cls is not None and (ctx.prog.find_method(fi.cls, n_) is not None or ctx.prog.find_class_attr(fi.cls, n_) is not None)))
                         for n_ in names):
            out.append(a)
    return out


def r5_arity(ctx, sop):
    """For every spine operator the function is specialised (the cell text replaced by the operator, look-ups in constant
    tables resolved) and the continuations pushed on each remaining path are counted: if-chains, tables of effects and
    `extend([node] * n)` are the same to this rule."""
    col_p, content_p, row_p = sop.params[1:4]
    eq = lambda v: G._cmp_atom(ast.Name(id=content_p), ast.Eq(), ast.Constant(value=v))[1]
    A_first = G._cmp_atom(ast.Name(id=col_p), ast.Eq(), ast.Constant(value=0))[1]
    A_prev_join = f"'*v' == {row_p}[{col_p} - 1]"
    A_same_hdr = G._cmp_atom(ast.parse(f'{PARENTS}[{col_p} - 1].header_node', mode='eval').body, ast.Eq(),
                             ast.parse(f'{PARENTS}[{col_p}].header_node', mode='eval').body)[1]
    A_surplus = f'{col_p} < len({PARENTS})'
    ops = ctx.ce.module_const(N.TOKENS, 'SPINE_OPERATIONS')
    known_eq = {eq(v): v for v in list(ops) + ['*+', '*^', '*v', '*-', '*x']}
    free_ok = {A_first, A_prev_join, A_same_hdr, A_surplus}
    pos = f'0 < {col_p}'        # a column index is never negative: `col > 0` is `not (col == 0)`

    def forms_for(v):
        spc = F._Specialise(ctx, sop, content_p, ast.Constant(value=v))
        body = [ast.fix_missing_locations(spc.visit(clone(s_))) for s_ in docstring_free(sop.body)]
        out = []
        for sp, a, b in path_counts(ctx, sop, body, {}):
            f = G.map_atoms(sp.condition(), lambda a_: ('not', ('atom', A_first)) if a_ == pos else decided(a_))
            out.append((sp, f, b))
        return out

    def decided(atom):
        try:
            node = ast.parse(atom, mode='eval').body
        except SyntaxError:
            return None
        ok, val = ctx.ce.try_eval(node, sop.module, sop.cls, {})
        return ('const', bool(val)) if ok else None
    for v in sorted(set(known_eq.values())):
        forms = forms_for(v)
        all_atoms = []
        for _, f, _ in forms:
            for x in G.atoms_of(f):
                if x not in all_atoms:
                    all_atoms.append(x)
        if len(all_atoms) > 12:
            raise AnalysisError(f'{sop.loc}: too many conditions on the paths of a spine operator cell')
        # atoms about the last spine operator of the node do not influence the count (checked by enumeration)
        unknown = [x for x in all_atoms if x not in known_eq and x not in free_ok]
        at = sop.loc
        others = [x for x in all_atoms if x not in known_eq]
        if v == '*v':
            others += [x for x in (A_first, A_prev_join, A_same_hdr) if x not in others]
        results = {}
        for bits in itertools.product([False, True], repeat=len(others)):
            val = {x: (known_eq[x] == v) for x in all_atoms if x in known_eq}
            val.update(dict(zip(others, bits)))
            for _sp, _f, _b in forms:
                for _a in G.atoms_of(_f):
                    val.setdefault(_a, False)
            if val.get(A_surplus) is False:
                continue   # surplus cell: rejected (R2)
            taken = [(sp, b) for sp, f, b in forms if G.evaluate(f, val)]
            if len(taken) != 1:
                raise AnalysisError(f'{sop.loc}: {len(taken)} paths for cell {v!r}')
            sp, b = taken[0]
            outcome = 'raise' if sp.end == 'raise' else b
            if v == '*v':
                g = val.get(A_first, False) or not val.get(A_prev_join, True) or not val.get(A_same_hdr, True)
                key = 'guard-true' if g else 'guard-false'
            else:
                key = 'any'
            results.setdefault(key, set()).add((outcome, tuple(x for x in unknown if val[x]) if False else ()))
        expected = {'*-': {'any': 0}, '*+': {'any': 2}, '*^': {'any': 2}, '*v': {'guard-true': 1, 'guard-false': 0}}.get(v, {'any': 'raise'})
        for key, exp in expected.items():
            got = {o for o, _ in results.get(key, set())}
            label = v if key == 'any' else f'{v} ({key})'
            what = {'*-': 'terminates the path', '*+': 'adds a path', '*^': 'splits the path', '*v': 'joins paths'}.get(v, 'is rejected')
            if got != {exp} and _closed_atoms(ctx, sop, unknown):
                raise AnalysisError(f'{sop.loc}: for {v!r} the count depends on `{_closed_atoms(ctx, sop, unknown)[0][:70]}`, a test on values '
                                    f'that are fixed by the operator but that the evaluator does not compute: not decided')
            ctx.check(got == {exp}, 'R5', at, sop.qualname, f'spine-operator-arity:{label}',
                      f'{label} {what}: continuations pushed for the next row = {exp}',
                      f'{label}: continuations pushed = {sorted(got, key=str)}, expected {exp}'
                      + (f' (depends on {unknown})' if len(got) > 1 and unknown else ''))
    ctx.count('R5.spine_operator_paths', len(forms))


def counter_on_row_paths(ctx, run_, attr):
    """[(SymPath, indices of `attr += 1` events, indices of the events that read cells, row has cells?, other store to attr?)] for
    every non-raising path through one turn of the row loop of Importer.run."""
    rows = [n for n in docstring_free(run_.body) if isinstance(n, ast.For)]
    if len(rows) != 1:
        raise AnalysisError(f'{run_.loc}: the row loop of Importer.run is not recognised')
    out = []
    for sp in symex.sym_paths(rows[0].body, limit=60000, fi=run_):
        if sp.end == 'raise':
            continue
        inc_idx, work_idx, bad, active = [], [], False, False
        for i, e in enumerate(sp.events):
            if e.kind == 'store' and src(e.target) == attr:
                n = e.node
                plus1 = (isinstance(n, ast.AugAssign) and isinstance(n.op, ast.Add) and isinstance(e.expr, ast.Constant) and e.expr.value == 1) or \
                        (isinstance(n, ast.Assign) and src(e.expr) in (f'{attr} + 1', f'1 + {attr}'))
                if plus1:
                    inc_idx.append(i)
                else:
                    bad = True
            if e.kind in ('iter', 'skip') and isinstance(e.node, ast.For):
                work_idx.append(i)
            if e.kind == 'expr' and isinstance(e.expr, ast.Call) and (src(e.expr.func).startswith('self._compute_') or _is_add_node(e.expr)):
                work_idx.append(i)
            if e.kind in ('expr', 'store', 'iter', 'skip'):
                active = True
        out.append((sp, inc_idx, work_idx, active, bad))
    return out


# --------------------------------------------------------------------------- R4 provenance
def r4_provenance(ctx, rule='R4'):
    add = ctx.prog.func(f'{N.DOCUMENT}.MultistageTree.add_node')
    sites = []
    for name in ('run', '_compute_spine_operator_token', '_compute_metacomment_token', '_compute_header_token'):
        f = ctx.prog.func(f'{IMP}.{name}')
        env = G.single_assignments(f.node)
        for n in walk_local(f.node):
            if isinstance(n, ast.Call) and _is_add_node(n):
                sites.append((f, n, env))
    ctx.expect_count(rule, 'add_node call sites on the import path', len(sites), 5)
    for f, call, env in sites:
        at = f'{f.module.relpath}:{call.lineno}'
        b = F.bind_args(call, add, True)
        pnames = add.params[1:]
        stage, parent, token, lso, sig = (b.get(p) for p in pnames[:5])
        hdr = b.get(pnames[5]) if len(pnames) > 5 else None
        ctx.check(src(stage) == 'self._tree_stage', rule, at, f.qualname, 'node-stage', 'stage = the row counter',
                  f'stage argument is `{src(stage)}`')
        psrc = src(parent)
        # resolve a local parent variable to its origin
        porig = G.norm(parent, {k: v for k, v in env.items()}) if isinstance(parent, ast.Name) else psrc
        if f.name == '_compute_header_token':
            ctx.check(porig == 'self._last_node_previous_to_header', rule, at, f.qualname, 'header-parent',
                      'a header cell hangs from the pre-header chain', f'header parent is `{porig}`')
            continue
        if f.name == '_compute_metacomment_token' and porig == 'self._last_node_previous_to_header':
            ctx.holds(rule, at, f.qualname, 'a pre-header global comment extends the pre-header chain')
            continue
        loopvar_parent = False
        if isinstance(parent, ast.Name):
            for lp in walk_local(f.node):
                if isinstance(lp, ast.For) and F.is_name(lp.target, parent.id) and src(lp.iter) == PARENTS:
                    loopvar_parent = True
                if isinstance(lp, (ast.GeneratorExp, ast.ListComp)) and any(F.is_name(g_.target, parent.id) and src(g_.iter) == PARENTS
                                                                            for g_ in lp.generators) and any(x is call for x in ast.walk(lp)):
                    loopvar_parent = True
        colvar = None
        if f.name == 'run':
            lp = [n for n in walk_local(f.node) if isinstance(n, ast.For) and 'enumerate(row)' in src(n.iter)]
            colvar = lp[0].target.elts[0].id if lp and isinstance(lp[0].target, ast.Tuple) else None
        elif f.name == '_compute_spine_operator_token':
            colvar = f.params[1]
        # in run(), `parent` is assigned twice with the same origin: check every assignment
        origins = set()
        if isinstance(parent, ast.Name):
            for n in walk_local(f.node):
                if isinstance(n, ast.Assign) and any(F.is_name(t, parent.id) for t in n.targets):
                    origins.add(src(n.value))
        else:
            origins.add(psrc)
        okp = loopvar_parent or (colvar is not None and origins == {f'{PARENTS}[{colvar}]'})
        ctx.check(okp, rule, at, f.qualname, 'node-parent',
                  'parent = the node of the previous row on the same spine path (parents[this column])',
                  f'parent is `{sorted(origins) or psrc}`, expected `{PARENTS}[{colvar}]`')
        pn = parent.id if isinstance(parent, ast.Name) else psrc
        ctx.check(src(hdr) == f'{pn}.header_node', rule, at, f.qualname, 'node-header',
                  'the node carries its parent\'s header node (spine identity propagates down the path)',
                  f'header_node argument is `{src(hdr)}`')
        ctx.check(src(sig) == f'{pn}.last_signature_nodes', rule, at, f.qualname, 'node-signatures',
                  'the node inherits its parent\'s signature context', f'signature argument is `{src(sig)}`')
        ctx.check(src(lso) == f'self.get_last_spine_operator({pn})', rule, at, f.qualname, 'node-last-spine-operator',
                  'the node inherits its parent\'s last spine operator', f'last_spine_operator argument is `{src(lso)}`')
    # header token: spine id = column index, header node is its own header
    hdr = ctx.prog.func(f'{IMP}._compute_header_token')
    ci, cc = hdr.params[1:3]
    ht = ctx.prog.cls(f'{N.TOKENS}.HeaderToken')
    hts = [n for n in walk_local(hdr.node) if isinstance(n, ast.Call) and F.constructed_class(ctx, n, hdr) is ht]
    ctx.expect_count(rule, 'HeaderToken construction', len(hts), 1)
    for n in hts:
        b = F.bind_args(n, ctx.prog.find_method(ht, '__init__'), True)
        ctx.check(F.is_name(b.get('encoding'), cc) and F.is_name(b.get('spine_id'), ci), rule, f'{hdr.module.relpath}:{n.lineno}',
                  hdr.qualname, 'header-spine-id', 'HeaderToken(cell text, spine_id = 0-based column index)',
                  f'HeaderToken arguments: encoding=`{src(b.get("encoding"))}`, spine_id=`{src(b.get("spine_id"))}`')
    own = any(isinstance(n, ast.Assign) and len(n.targets) == 1 and isinstance(n.targets[0], ast.Attribute)
              and n.targets[0].attr == 'header_node' and src(n.targets[0].value) == src(n.value) for n in walk_local(hdr.node))
    ctx.check(own, rule, hdr.loc, hdr.qualname, 'header-is-own-header', 'a header node is its own header node')
    run_ = ctx.prog.func(f'{IMP}.run')
    for n in walk_local(run_.node):
        if isinstance(n, ast.Call) and isinstance(n.func, ast.Attribute) and n.func.attr in (
                '_compute_header_token', '_compute_spine_operator_token') and F.is_name(n.func.value, 'self'):
            lp = [x for x in walk_local(run_.node) if isinstance(x, ast.For) and 'enumerate(row)' in src(x.iter)][0]
            iv, cv = (e.id for e in lp.target.elts)
            t = ctx.prog.func(f'{IMP}.{n.func.attr}')
            b = F.bind_args(n, t, True)
            ok = F.is_name(b.get(t.params[1]), iv) and F.is_name(b.get(t.params[2]), cv)
            ctx.check(ok, rule, f'{run_.module.relpath}:{n.lineno}', run_.qualname, f'helper-args:{n.func.attr}',
                      f'{n.func.attr} receives (column index, cell text) of the current cell',
                      f'{n.func.attr} receives `{src(n)[:80]}`')
    # parents of the next row become the parents of this row
    ok_shift = any(isinstance(n, ast.Assign) and src(n.targets[0]) == PARENTS and 'self._next_stage_parents' in src(n.value)
                   for n in walk_local(run_.node))
    ok_reset = any(isinstance(n, ast.Assign) and src(n.targets[0]) == 'self._next_stage_parents' and src(n.value) == '[]'
                   for n in walk_local(run_.node))
    ctx.check(ok_shift and ok_reset, rule, run_.loc, run_.qualname, 'parents-shift',
              'per row: parents := continuations of the previous row; continuations := []')


# --------------------------------------------------------------------------- R6
def r6_bookkeeping(ctx):
    add = ctx.prog.func(f'{N.DOCUMENT}.MultistageTree.add_node')
    stage_p, parent_p = add.params[1:3]
    sps = symex.func_sym_paths(add)
    lt = f'len(self.stages) < {stage_p}'       # stage > len
    eqa = G._cmp_atom(ast.Name(id=stage_p), ast.Eq(), ast.parse('len(self.stages)', mode='eval').body)[1]
    for sp in sps:
        f = sp.condition()
        ats = set(G.atoms_of(f))
        if not ats <= {lt, eqa}:
            ctx.violation('R6', add.loc, add.qualname, 'add_node-extra-condition', f'add_node depends on `{sorted(ats - {lt, eqa})}`')
            return
    cases = {'new-stage': {eqa: True, lt: False}, 'beyond': {eqa: False, lt: True}, 'existing': {eqa: False, lt: False}}
    for name, val in cases.items():
        taken = [sp for sp in sps if G.evaluate(sp.condition(), {a: val[a] for a in G.atoms_of(sp.condition())})]
        if len(taken) != 1:
            raise AnalysisError(f'{add.loc}: {len(taken)} paths for case {name}')
        sp = taken[0]
        evs = [src(e.expr) for e in sp.events if e.kind == 'expr' and isinstance(e.expr, ast.Call)]
        node_expr = None
        for e in sp.events:
            if e.kind == 'assign' and isinstance(e.expr, ast.Call) and src(e.expr.func) == 'Node':
                node_expr = src(e.expr)
        if name == 'beyond':
            ctx.check(sp.end == 'raise', 'R6', add.loc, add.qualname, 'stage-beyond-raises', 'a stage beyond the next one raises')
            continue
        want_stage = f'self.stages.append([{node_expr}])' if name == 'new-stage' else f'self.stages[{stage_p}].append({node_expr})'
        in_stage = want_stage in evs
        if not in_stage and name == 'new-stage':
            # the same through a named list: v = []; self.stages.append(v); v.append(node)
            fresh = [e.target[0] for e in sp.events if e.kind == 'assign' and isinstance(e.expr, ast.List) and not e.expr.elts and e.target]
            in_stage = any(f'self.stages.append({v_})' in evs and f'{v_}.append({node_expr})' in evs
                           and evs.index(f'self.stages.append({v_})') >= 0 for v_ in fresh)
        ctx.check(in_stage and sp.end == 'return' and src(sp.value) == node_expr, 'R6', add.loc, add.qualname,
                  f'stage-list:{name}', f'{name}: the node is appended to its stage list and returned',
                  f'{name}: stage bookkeeping is {evs}')
        ctx.check(f'{parent_p}.children.append({node_expr})' in evs and
                  len([e for e in evs if '.children.' in e]) == 1, 'R6', add.loc, add.qualname, f'child-link:{name}',
                  f'{name}: the node is appended once to its parent\'s children', f'{name}: child links {evs}')
    node_cls = ctx.prog.cls(f'{N.DOCUMENT}.Node')
    init = node_cls.methods['__init__']
    b = None
    for n in walk_local(add.node):
        if isinstance(n, ast.Call) and F.constructed_class(ctx, n, add) is node_cls:
            b = F.bind_args(n, init, True)
    if b is None:
        raise AnalysisError('add_node does not construct a Node')
    want = {'stage': add.params[1], 'parent': add.params[2], 'token': add.params[3], 'last_spine_operator_node': add.params[4],
            'last_signature_nodes': add.params[5], 'header_node': add.params[6]}
    ok = all(F.is_name(b.get(k), v) for k, v in want.items())
    ctx.check(ok, 'R6', add.loc, add.qualname, 'node-args', 'add_node passes its arguments to Node(...) unswapped',
              f'Node(...) arguments: { {k: src(v) for k, v in b.items()} }')
    stores = {src(n.targets[0]): src(n.value) for n in walk_local(init.node) if isinstance(n, ast.Assign) and len(n.targets) == 1}
    for attr in ('token', 'parent', 'stage', 'header_node', 'last_spine_operator_node'):
        ctx.check(stores.get(f'self.{attr}') == attr, 'R6', init.loc, init.qualname, f'node-stores:{attr}',
                  f'Node.__init__ stores {attr}', f'self.{attr} = `{stores.get(f"self.{attr}")}`')
    ctx.check(stores.get('self.children') == '[]', 'R6', init.loc, init.qualname, 'node-children-fresh', 'a node starts without children')


# --------------------------------------------------------------------------- R9: a global comment is ONE node
def r9_one_node_per_global_comment(ctx):
    """A global-comment line has one cell and becomes one node.  A loop in _compute_metacomment_token that adds a node per open
    spine is harmless only while the test that guards it can never select it (today: `self._header_row_number is None` with an
    attribute that nothing ever sets)."""
    imp = ctx.prog.cls(f'{IMP.rpartition(".")[0]}.Importer') if False else ctx.prog.func(f'{IMP}._compute_metacomment_token').cls
    f = ctx.prog.func(f'{IMP}._compute_metacomment_token')
    parent = {}
    for n in ast.walk(f.node):
        for c in ast.iter_child_nodes(n):
            parent[c] = n
    loops = [n for n in walk_local(f.node) if isinstance(n, (ast.For, ast.While))
             and any(isinstance(c, ast.Call) and isinstance(c.func, ast.Attribute) and c.func.attr == 'add_node' for c in ast.walk(n))]
    n_checked = 0
    for lp in loops:
        # the chain of `if` tests above the loop, with the branch taken
        guards, cur = [], lp
        while cur in parent:
            up = parent[cur]
            if isinstance(up, ast.If):
                guards.append((up.test, cur in up.body))
            cur = up
        dead = False
        why = 'the loop is not guarded by a test on importer state'
        for test, taken in guards:
            m = None
            if isinstance(test, ast.Compare) and len(test.ops) == 1 and isinstance(test.ops[0], (ast.Is, ast.IsNot)) \
                    and isinstance(test.comparators[0], ast.Constant) and test.comparators[0].value is None \
                    and isinstance(test.left, ast.Attribute) and F.is_name(test.left.value, 'self'):
                is_none_branch = isinstance(test.ops[0], ast.Is) == taken
                attr = test.left.attr
                stores = [a for m_ in imp.methods.values() for a in walk_local(m_.node) if isinstance(a, (ast.Assign, ast.AnnAssign, ast.AugAssign))
                          and any(src(t) == f'self.{attr}' for t in (a.targets if isinstance(a, ast.Assign) else [a.target]))]
                non_none = [a for a in stores if not (isinstance(getattr(a, 'value', None), ast.Constant) and a.value.value is None)]
                if not is_none_branch and not non_none:
                    dead = True       # needs `self.attr is not None`, and nothing ever gives it a value
                elif not is_none_branch:
                    why = (f'`self.{attr}` is set by `{src(non_none[0])[:60]}` ({non_none[0].lineno}), so the branch that adds one node per open '
                           f'spine is taken for every global comment after that')
        n_checked += 1
        ctx.check(dead, 'R9', f'{f.module.relpath}:{lp.lineno}', f.qualname, 'global-comment-one-node-per-spine',
                  'the per-spine loop of _compute_metacomment_token can never run (its guard needs state nothing sets): a global comment is one node',
                  f'a global comment (one cell) becomes one node PER OPEN SPINE: {why}; the rows below descend from those nodes instead of '
                  f'from the cells above them')
    if not loops:
        ctx.holds('R9', f.loc, f.qualname, 'a global comment adds its node(s) without a per-spine loop')
