"""Normalising front end.

The rules are written against ANCHORS: the functions, classes and tables of kernpy they know by name (frozen in
known_names.txt).  Everything else a maintainer may introduce while restructuring - an extracted helper, a local closure,
a look-up table walked by a loop, a comprehension instead of an accumulating loop, `rows[-1]` instead of
`rows[len(rows) - 1]` - is glue, and glue must not change a verdict.  This module rewrites every function body of the
application modules into one normal form before any rule looks at it:

  1. idioms      accumulating loop -> comprehension / ''.join(generator); search loop and flag loop -> any(...);
                 x[len(x) - 1] -> x[-1]; sum(1 for v in it if v == k) -> it.count(k); [k for _ in range(n)] -> [k] * n;
                 d.get(k, None) -> d.get(k); [v for v in it] -> list(it); x.sort(key=k) -> x = sorted(x, key=k);
                 for i, v in enumerate(it) with i unused -> for v in it
  2. inlining    a call of a function that is NOT an anchor (not listed in known_names.txt), local closures and
                 local lambdas included, is replaced by its body (expression helpers anywhere, statement helpers where
                 the call is the value of a simple statement); early returns become if / else nests
  3. unrolling   a loop over a constant table that is not an anchor (`for key, cls in _TABLE: if key == x: return cls()`)
                 is unrolled with the table's entries substituted; `x = _TABLE.get(k)` / `_TABLE[k]` on such a
                 constant dict becomes an if-chain
  4. lifting     `x = a if c else b` and `return a if c else b` become if statements, so conditional values are
                 path conditions everywhere

All rewrites preserve behaviour (for the purposes of the analyses: evaluation ORDER of pure sub-expressions is not
preserved when arguments are substituted for parameters).  Nothing here decides a property.
"""
from __future__ import annotations

import ast
import copy
import os
from typing import Dict, List, Optional

from .astutil import clone
from .model import walk_local, FuncInfo

_HERE = os.path.dirname(os.path.abspath(__file__))
MAX_TABLE = 32
MAX_HELPER_NODES = 900
MAX_DEPTH = 5


def load_known():
    p = os.path.join(_HERE, 'known_names.txt')
    with open(p, encoding='utf-8') as f:
        return {l.strip() for l in f if l.strip() and not l.startswith('#')}


# ----------------------------------------------------------------------- small helpers
def same(a, b) -> bool:
    return ast.dump(a) == ast.dump(b)


def loads(node) -> set:
    return {n.id for n in ast.walk(node) if isinstance(n, ast.Name)}


def mentions(name: str, nodes) -> bool:
    if isinstance(nodes, ast.AST):
        nodes = [nodes]
    for x in nodes:
        for n in ast.walk(x):
            if isinstance(n, ast.Name) and n.id == name:
                return True
    return False


def at(new, old):
    ast.copy_location(new, old)
    ast.fix_missing_locations(new)
    return new


def is_const(node, value) -> bool:
    return isinstance(node, ast.Constant) and node.value == value and type(node.value) is type(value)


def neg_one(old):
    return at(ast.UnaryOp(op=ast.USub(), operand=ast.Constant(value=1)), old)


def negate(e):
    """Logical negation with the negation pushed into a single comparison / not-not removed."""
    if isinstance(e, ast.UnaryOp) and isinstance(e.op, ast.Not):
        return e.operand
    if isinstance(e, ast.Compare) and len(e.ops) == 1:
        inv = {ast.Eq: ast.NotEq, ast.NotEq: ast.Eq, ast.In: ast.NotIn, ast.NotIn: ast.In, ast.Is: ast.IsNot, ast.IsNot: ast.Is,
               ast.Lt: ast.GtE, ast.GtE: ast.Lt, ast.Gt: ast.LtE, ast.LtE: ast.Gt}
        return at(ast.Compare(left=e.left, ops=[inv[type(e.ops[0])]()], comparators=e.comparators), e)
    if isinstance(e, ast.Constant) and isinstance(e.value, bool):
        return at(ast.Constant(value=not e.value), e)
    return at(ast.UnaryOp(op=ast.Not(), operand=e), e)


def stores_in(stmts) -> set:
    out = set()
    for s in stmts:
        for n in ast.walk(s):
            if isinstance(n, ast.Name) and isinstance(n.ctx, (ast.Store, ast.Del)):
                out.add(n.id)
            elif isinstance(n, ast.ExceptHandler) and n.name:
                out.add(n.name)
    return out


def has_node(stmts, kinds, stop_at_loops=False) -> bool:
    """Is there a node of one of `kinds` in the statements (nested function / class definitions are not entered;
    with stop_at_loops, nested loops are not entered either - for break / continue)."""
    todo = list(stmts)
    while todo:
        n = todo.pop()
        if isinstance(n, kinds):
            return True
        if isinstance(n, (ast.FunctionDef, ast.AsyncFunctionDef, ast.ClassDef, ast.Lambda)):
            continue
        if stop_at_loops and isinstance(n, (ast.For, ast.While, ast.AsyncFor)):
            todo.extend(n.orelse)
            continue
        todo.extend(ast.iter_child_nodes(n))
    return False


# ----------------------------------------------------------------------- 1. expression idioms
class ExprCanon(ast.NodeTransformer):
    def visit_Subscript(self, node):
        self.generic_visit(node)
        s = node.slice
        # x[len(x) - 1] -> x[-1]
        if isinstance(s, ast.BinOp) and isinstance(s.op, ast.Sub) and is_const(s.right, 1) and isinstance(s.left, ast.Call) \
                and isinstance(s.left.func, ast.Name) and s.left.func.id == 'len' and len(s.left.args) == 1 \
                and same(s.left.args[0], _load(node.value)):
            node.slice = neg_one(s)
        return node

    def visit_Call(self, node):
        self.generic_visit(node)
        f = node.func
        # operator.attrgetter('a.b', 'c') -> lambda _o: (_o.a.b, _o.c);  operator.itemgetter(k) -> lambda _o: _o[k]
        if ast.unparse(f) in ('attrgetter', 'operator.attrgetter', 'itemgetter', 'operator.itemgetter') and node.args and not node.keywords \
                and all(isinstance(a, ast.Constant) for a in node.args):
            obj = lambda: ast.Name(id='_o', ctx=ast.Load())
            parts = []
            okg = True
            for a in node.args:
                if ast.unparse(f).endswith('attrgetter'):
                    if not (isinstance(a.value, str) and all(x.isidentifier() for x in a.value.split('.'))):
                        okg = False
                        break
                    e = obj()
                    for x in a.value.split('.'):
                        e = ast.Attribute(value=e, attr=x, ctx=ast.Load())
                else:
                    e = ast.Subscript(value=obj(), slice=a, ctx=ast.Load())
                parts.append(e)
            if okg:
                body = parts[0] if len(parts) == 1 else ast.Tuple(elts=parts, ctx=ast.Load())
                lam = ast.Lambda(args=ast.arguments(posonlyargs=[], args=[ast.arg(arg='_o')], kwonlyargs=[], kw_defaults=[], defaults=[]), body=body)
                return at(lam, node)
        # (lambda a: E)(x) -> E[a := x];  (f if c else g)(x) -> f(x) if c else g(x)
        if isinstance(f, (ast.Lambda, ast.IfExp)):
            from .astutil import beta_reduce
            red = beta_reduce(node)
            if red is not node and not (isinstance(red, ast.Call) and isinstance(red.func, (ast.Lambda, ast.IfExp))):
                return self.visit(red) if not isinstance(red, ast.Call) else red
        # S.join(p for p in (a, b) if p)  ->  (a + S + b if b else a) if a else b      (join of the non-empty parts of two names)
        if isinstance(f, ast.Attribute) and f.attr == 'join' and len(node.args) == 1 and not node.keywords \
                and isinstance(f.value, (ast.Name, ast.Attribute, ast.Constant)) \
                and isinstance(node.args[0], (ast.GeneratorExp, ast.ListComp)) and len(node.args[0].generators) == 1:
            g = node.args[0].generators[0]
            if isinstance(g.target, ast.Name) and isinstance(node.args[0].elt, ast.Name) and node.args[0].elt.id == g.target.id \
                    and len(g.ifs) == 1 and isinstance(g.ifs[0], ast.Name) and g.ifs[0].id == g.target.id \
                    and isinstance(g.iter, (ast.Tuple, ast.List)) and len(g.iter.elts) == 2 \
                    and all(isinstance(e, (ast.Name, ast.Constant)) for e in g.iter.elts):
                a, b = g.iter.elts
                both = ast.BinOp(left=ast.BinOp(left=_load(a), op=ast.Add(), right=_load(f.value)), op=ast.Add(), right=_load(b))
                inner = ast.IfExp(test=_load(b), body=both, orelse=_load(a))
                return at(ast.IfExp(test=_load(a), body=inner, orelse=_load(b)), node)
        # filter(f, X) -> (_v for _v in X if f(_v));  filter(None, X) -> (_v for _v in X if _v)
        if isinstance(f, ast.Name) and f.id == 'filter' and len(node.args) == 2 and not node.keywords \
                and not isinstance(node.args[1], ast.Starred) \
                and (isinstance(node.args[0], (ast.Name, ast.Attribute, ast.Lambda, ast.IfExp)) or is_const(node.args[0], None)):
            fn, coll = node.args
            used = {n.id for n in ast.walk(node) if isinstance(n, ast.Name)}
            var = '_v'
            while var in used:
                var += '_'
            ref = ast.Name(id=var, ctx=ast.Load())
            if is_const(fn, None):
                test = ref
            else:
                from .astutil import beta_reduce
                test = beta_reduce(ast.Call(func=fn, args=[ref], keywords=[]))
            gen = ast.comprehension(target=ast.Name(id=var, ctx=ast.Store()), iter=coll, ifs=[test], is_async=0)
            return at(ast.GeneratorExp(elt=ast.Name(id=var, ctx=ast.Load()), generators=[gen]), node)
        # f(x, **{}) -> f(x)
        if any(k.arg is None and isinstance(k.value, ast.Dict) and not k.value.keys for k in node.keywords):
            node.keywords = [k for k in node.keywords if not (k.arg is None and isinstance(k.value, ast.Dict) and not k.value.keys)]
        # f(**{'a': x, 'b': y}) -> f(a=x, b=y)
        if any(k.arg is None and isinstance(k.value, ast.Dict) and k.value.keys
               and all(isinstance(q, ast.Constant) and isinstance(q.value, str) and q.value.isidentifier() for q in k.value.keys)
               for k in node.keywords):
            kws, names = [], []
            for k in node.keywords:
                if k.arg is None and isinstance(k.value, ast.Dict) and k.value.keys \
                        and all(isinstance(q, ast.Constant) and isinstance(q.value, str) and q.value.isidentifier() for q in k.value.keys):
                    for q, v in zip(k.value.keys, k.value.values):
                        kws.append(ast.keyword(arg=q.value, value=v))
                        names.append(q.value)
                else:
                    kws.append(k)
                    names.append(k.arg)
            if len(set(names)) == len(names):
                node.keywords = kws
        # getattr(x, 'name') -> x.name
        if isinstance(f, ast.Name) and f.id == 'getattr' and len(node.args) == 2 and not node.keywords \
                and isinstance(node.args[1], ast.Constant) and isinstance(node.args[1].value, str) and node.args[1].value.isidentifier():
            return at(ast.Attribute(value=node.args[0], attr=node.args[1].value, ctx=ast.Load()), node)
        # map(f, X) -> (f(_m) for _m in X)   (one iterable; f a name, an attribute or a lambda)
        if isinstance(f, ast.Name) and f.id == 'map' and len(node.args) == 2 and not node.keywords \
                and isinstance(node.args[0], (ast.Name, ast.Attribute, ast.Lambda)) and not isinstance(node.args[1], ast.Starred):
            fn, coll = node.args
            used = {n.id for n in ast.walk(node) if isinstance(n, ast.Name)}
            var = '_m'
            while var in used:
                var += '_'
            if isinstance(fn, ast.Lambda) and len(fn.args.args) == 1 and not (fn.args.vararg or fn.args.kwarg or fn.args.kwonlyargs or fn.args.defaults):
                elt = Subst({fn.args.args[0].arg: ast.Name(id=var, ctx=ast.Load())}).visit(clone(fn.body))
            else:
                elt = ast.Call(func=fn, args=[ast.Name(id=var, ctx=ast.Load())], keywords=[])
            gen = ast.comprehension(target=ast.Name(id=var, ctx=ast.Store()), iter=coll, ifs=[], is_async=0)
            return at(ast.GeneratorExp(elt=elt, generators=[gen]), node)
        # chain.from_iterable(E(p) for p in X) / chain(*[E(p) for p in X]) -> (_y for p in X for _y in E(p))
        flat = None
        if isinstance(f, ast.Attribute) and f.attr == 'from_iterable' and ast.unparse(f.value) in ('chain', 'itertools.chain') \
                and len(node.args) == 1 and not node.keywords:
            flat = node.args[0]
        elif ast.unparse(f) in ('chain', 'itertools.chain') and len(node.args) == 1 and isinstance(node.args[0], ast.Starred) and not node.keywords:
            flat = node.args[0].value
        if isinstance(flat, (ast.GeneratorExp, ast.ListComp)) and len(flat.generators) == 1:
            used = {n.id for n in ast.walk(node) if isinstance(n, ast.Name)}
            var = '_y'
            while var in used:
                var += '_'
            g2 = ast.comprehension(target=ast.Name(id=var, ctx=ast.Store()), iter=flat.elt, ifs=[], is_async=0)
            return at(ast.GeneratorExp(elt=ast.Name(id=var, ctx=ast.Load()), generators=[flat.generators[0], g2]), node)
        # sum(1 for v in it if v == k) -> it.count(k)
        if isinstance(f, ast.Name) and f.id in ('sum', 'len') and len(node.args) == 1 and not node.keywords:
            g = node.args[0]
            ok_shape = (f.id == 'sum' and isinstance(g, ast.GeneratorExp) and is_const(g.elt, 1)) or \
                       (f.id == 'len' and isinstance(g, ast.ListComp) and len(g.generators) == 1
                        and isinstance(g.generators[0].target, ast.Name) and isinstance(g.elt, ast.Name)
                        and g.elt.id == g.generators[0].target.id)
            if ok_shape and len(g.generators) == 1 and isinstance(g.generators[0].target, ast.Name) \
                    and len(g.generators[0].ifs) == 1 and not g.generators[0].is_async:
                v = g.generators[0].target.id
                c = g.generators[0].ifs[0]
                if isinstance(c, ast.Compare) and len(c.ops) == 1 and isinstance(c.ops[0], ast.Eq):
                    l, r = c.left, c.comparators[0]
                    k = None
                    if isinstance(l, ast.Name) and l.id == v and not mentions(v, r):
                        k = r
                    elif isinstance(r, ast.Name) and r.id == v and not mentions(v, l):
                        k = l
                    if k is not None and not mentions(v, g.generators[0].iter):
                        return at(ast.Call(func=ast.Attribute(value=g.generators[0].iter, attr='count', ctx=ast.Load()),
                                           args=[k], keywords=[]), node)
        # f((v for v in it)) -> f(it): an identity generator handed to a call that consumes an iterable
        if len(node.args) == 1 and not node.keywords and isinstance(node.args[0], ast.GeneratorExp) and len(node.args[0].generators) == 1:
            g0 = node.args[0].generators[0]
            if not g0.ifs and not g0.is_async and isinstance(g0.target, ast.Name) and isinstance(node.args[0].elt, ast.Name) \
                    and node.args[0].elt.id == g0.target.id:
                node.args = [g0.iter]
        # all(P for ..) -> not any(not P for ..)
        if isinstance(f, ast.Name) and f.id == 'all' and len(node.args) == 1 and not node.keywords \
                and isinstance(node.args[0], (ast.GeneratorExp, ast.ListComp)) and len(node.args[0].generators) == 1:
            g0 = node.args[0]
            inner = ast.GeneratorExp(elt=negate(g0.elt), generators=g0.generators)
            return at(ast.UnaryOp(op=ast.Not(), operand=ast.Call(func=ast.Name(id='any', ctx=ast.Load()), args=[inner], keywords=[])), node)
        # d.get(k, None) -> d.get(k)
        if isinstance(f, ast.Attribute) and f.attr == 'get' and len(node.args) == 2 and not node.keywords \
                and is_const(node.args[1], None):
            node.args = node.args[:1]
        return node

    def visit_Compare(self, node):
        self.generic_visit(node)
        # next((v for v in it if P), None) is None  ->  not any(P for v in it)      (the elements themselves are never None)
        if len(node.ops) == 1 and isinstance(node.ops[0], (ast.Is, ast.IsNot)) and is_const(node.comparators[0], None):
            c = node.left
            if isinstance(c, ast.Call) and isinstance(c.func, ast.Name) and c.func.id == 'next' and len(c.args) == 2 \
                    and is_const(c.args[1], None) and isinstance(c.args[0], ast.GeneratorExp) and len(c.args[0].generators) == 1:
                g = c.args[0].generators[0]
                if g.ifs and isinstance(g.target, ast.Name) and isinstance(c.args[0].elt, ast.Name) and c.args[0].elt.id == g.target.id:
                    gen = ast.comprehension(target=g.target, iter=g.iter, ifs=[], is_async=0)
                    anyc = ast.Call(func=ast.Name(id='any', ctx=ast.Load()),
                                    args=[ast.GeneratorExp(elt=_and(list(g.ifs), node), generators=[gen])], keywords=[])
                    if isinstance(node.ops[0], ast.Is):
                        return at(ast.UnaryOp(op=ast.Not(), operand=anyc), node)
                    return at(anyc, node)
        # (A if c else B) is None  ->  (c and A is None) or (not c and B is None), a constant operand decided at once
        if len(node.ops) == 1 and isinstance(node.left, ast.IfExp) and isinstance(node.ops[0], (ast.Is, ast.IsNot, ast.Eq, ast.NotEq)) \
                and isinstance(node.comparators[0], ast.Constant):
            def side(x):
                if isinstance(x, ast.Constant) and isinstance(node.ops[0], (ast.Is, ast.IsNot)):
                    same_ = x.value is node.comparators[0].value
                    return ast.Constant(value=same_ if isinstance(node.ops[0], ast.Is) else not same_)
                return self.visit(ast.Compare(left=x, ops=[node.ops[0]], comparators=[clone(node.comparators[0])]))
            t = node.left.test
            a, b = side(node.left.body), side(node.left.orelse)
            left_ = a if isinstance(a, ast.Constant) and a.value is True else None
            conj1 = t if left_ is not None else (ast.Constant(value=False) if isinstance(a, ast.Constant) else ast.BoolOp(op=ast.And(), values=[clone(t), a]))
            nt = ast.UnaryOp(op=ast.Not(), operand=clone(t))
            if isinstance(b, ast.Constant):
                conj2 = nt if b.value is True else ast.Constant(value=False)
            else:
                conj2 = ast.BoolOp(op=ast.And(), values=[nt, b])
            parts_ = [x for x in (conj1, conj2) if not (isinstance(x, ast.Constant) and x.value is False)]
            if not parts_:
                return at(ast.Constant(value=False), node)
            return at(parts_[0] if len(parts_) == 1 else ast.BoolOp(op=ast.Or(), values=parts_), node)
        return node

    def visit_DictComp(self, node):
        self.generic_visit(node)
        # {K(k, v): V(k, v) for k, v in {a: x, b: y}.items()}  ->  {K(a, x): V(a, x), K(b, y): V(b, y)}
        if len(node.generators) == 1 and not node.generators[0].ifs and not node.generators[0].is_async:
            g = node.generators[0]
            it = g.iter
            if isinstance(it, ast.Call) and isinstance(it.func, ast.Attribute) and it.func.attr == 'items' and not it.args and not it.keywords \
                    and isinstance(it.func.value, ast.Dict) and all(isinstance(k, ast.Constant) for k in it.func.value.keys) \
                    and len(it.func.value.keys) <= 24 and isinstance(g.target, ast.Tuple) and len(g.target.elts) == 2 \
                    and all(isinstance(t, ast.Name) for t in g.target.elts):
                kn, vn = g.target.elts[0].id, g.target.elts[1].id
                keys, values = [], []
                for k, v in zip(it.func.value.keys, it.func.value.values):
                    sub = Subst({kn: k, vn: v})
                    keys.append(canon_expr(sub.visit(clone(node.key))))
                    values.append(canon_expr(sub.visit(clone(node.value))))
                return at(ast.Dict(keys=keys, values=values), node)
        return node

    def visit_BoolOp(self, node):
        self.generic_visit(node)
        # `None or x` -> x; `True and x` -> x; `x or <truthy constant> or y` -> `x or <constant>`
        is_or = isinstance(node.op, ast.Or)
        vals = []
        for i, v in enumerate(node.values):
            last = i == len(node.values) - 1
            if isinstance(v, ast.Constant) and not last:
                if bool(v.value) == is_or:
                    vals.append(v)
                    break               # decides the expression
                continue                # neutral operand
            vals.append(v)
        if len(vals) == 1:
            return vals[0]
        node.values = vals
        return node

    def _fuse(self, node):
        """[F(e) for e in (G(m) for m in X if Q(m)) if P(e)]  ->  [F(G(m)) for m in X if Q(m) if P(G(m))]"""
        g = node.generators[0]
        inner = g.iter
        if isinstance(inner, ast.Call) and isinstance(inner.func, ast.Name) and inner.func.id in ('list', 'tuple', 'iter') \
                and len(inner.args) == 1 and not inner.keywords:
            inner = inner.args[0]
        if not (isinstance(inner, (ast.GeneratorExp, ast.ListComp)) and len(inner.generators) == 1 and isinstance(g.target, ast.Name)
                and not g.is_async and not inner.generators[0].is_async):
            return node
        ig = inner.generators[0]
        inner_names = set(_target_names(ig.target))
        rest = ast.Module(body=[ast.Expr(value=x) for x in ([node.elt] if not isinstance(node, ast.DictComp) else [node.key, node.value])
                                + list(g.ifs) + [y for h in node.generators[1:] for y in [h.iter] + list(h.ifs)]], type_ignores=[])
        if any(isinstance(n, ast.Name) and n.id in inner_names for n in ast.walk(rest)):
            return node         # the inner variable would capture a name of the outer expression
        sub = Subst({g.target.id: inner.elt})
        for field in ('elt', 'key', 'value'):
            if hasattr(node, field):
                setattr(node, field, sub.visit(getattr(node, field)))
        new_ifs = list(ig.ifs) + [sub.visit(c) for c in g.ifs]
        first = ast.comprehension(target=ig.target, iter=ig.iter, ifs=new_ifs, is_async=0)
        later = []
        for h in node.generators[1:]:
            h.iter = sub.visit(h.iter)
            h.ifs = [sub.visit(c) for c in h.ifs]
            later.append(h)
        node.generators = [first] + later
        return self._fuse(node)

    def visit_GeneratorExp(self, node):
        self.generic_visit(node)
        return self._fuse(node)

    def visit_SetComp(self, node):
        self.generic_visit(node)
        return self._fuse(node)

    def visit_ListComp(self, node):
        self.generic_visit(node)
        node = self._fuse(node)
        if len(node.generators) == 1 and not node.generators[0].is_async:
            g = node.generators[0]
            # [v for v in it] -> list(it)
            if not g.ifs and isinstance(g.target, ast.Name) and isinstance(node.elt, ast.Name) and node.elt.id == g.target.id:
                return at(ast.Call(func=ast.Name(id='list', ctx=ast.Load()), args=[g.iter], keywords=[]), node)
            # [k for _ in range(n)] -> [k] * n
            if not g.ifs and isinstance(g.target, ast.Name) and not mentions(g.target.id, node.elt) \
                    and isinstance(g.iter, ast.Call) and isinstance(g.iter.func, ast.Name) and g.iter.func.id == 'range' \
                    and len(g.iter.args) == 1 and not g.iter.keywords and _invariant(node.elt):
                return at(ast.BinOp(left=ast.List(elts=[node.elt], ctx=ast.Load()), op=ast.Mult(), right=g.iter.args[0]), node)
        return node


def _invariant(e) -> bool:
    """An expression whose repeated evaluation gives equal immutable values (literals of str / numbers / names)."""
    return isinstance(e, ast.Constant) or isinstance(e, ast.Name) or \
        (isinstance(e, ast.Attribute) and _invariant(e.value))


def _load(node):
    c = clone(node)
    for n in ast.walk(c):
        if hasattr(n, 'ctx'):
            n.ctx = ast.Load()
    return c


def canon_expr(node):
    return ExprCanon().visit(node)


# ----------------------------------------------------------------------- 1. statement idioms
def _is_empty_list(e):
    return (isinstance(e, ast.List) and not e.elts) or \
        (isinstance(e, ast.Call) and isinstance(e.func, ast.Name) and e.func.id == 'list' and not e.args and not e.keywords)


def _is_empty_str(e):
    return isinstance(e, ast.Constant) and e.value == '' and isinstance(e.value, str)


def _single_name_assign(s):
    if isinstance(s, ast.Assign) and len(s.targets) == 1 and isinstance(s.targets[0], ast.Name):
        return s.targets[0].id, s.value
    if isinstance(s, ast.AnnAssign) and isinstance(s.target, ast.Name) and s.value is not None:
        return s.target.id, s.value
    return None, None


def _loop_filter_body(body, many=False):
    """A loop body of the form `S`, `if C: S` or `if not C: continue; S` -> (conditions, S); else None.
    many: S may be several statements (returned as a list)."""
    conds = []
    body = list(body)
    while True:
        if len(body) == 1 and isinstance(body[0], ast.If) and not body[0].orelse:
            conds.append(body[0].test)
            body = list(body[0].body)
            continue
        if len(body) >= 2 and isinstance(body[0], ast.If) and not body[0].orelse and len(body[0].body) == 1 \
                and isinstance(body[0].body[0], ast.Continue):
            conds.append(negate(body[0].test))
            body = body[1:]
            continue
        break
    if many:
        return (conds, body) if body else None
    if len(body) != 1:
        return None
    return conds, body[0]


def _target_names(t) -> List[str]:
    return [n.id for n in ast.walk(t) if isinstance(n, ast.Name)]


def _and(conds, old):
    if not conds:
        return None
    if len(conds) == 1:
        return conds[0]
    return at(ast.BoolOp(op=ast.And(), values=list(conds)), old)


def _empty_kind(val):
    if _is_empty_list(val):
        return 'list'
    if _is_empty_str(val):
        return 'str'
    return None


def canon_block(stmts: list, outer=None) -> list:
    """Recursively canonicalise a statement list.  `outer`: names that hold a fresh empty list at block entry (bound by an
    enclosing block and not mentioned since) - an accumulating loop in this block may use them (never across a loop boundary)."""
    out = []
    fresh = dict(outer or {})
    for s in stmts:
        out.extend(_canon_stmt(s, fresh))
        for n in ast.walk(s):
            if isinstance(n, ast.Name):
                fresh.pop(n.id, None)
        nm, val = _single_name_assign(s)
        if nm is not None and _empty_kind(val):
            fresh[nm] = _empty_kind(val)
    out = _accumulations(out, dict(outer or {}))
    out = _search_loops(out)
    out = [_loop_append(s) for s in out]
    return out


def _loop_append(s):
    """`for t in it: [if c:] X.append(e)` (X any receiver that does not depend on the loop)  ->  `X.extend(e for t in it if c)`"""
    if not isinstance(s, ast.For) or s.orelse:
        return s
    if isinstance(s.iter, (ast.Tuple, ast.List)) and not any(isinstance(e, ast.Starred) for e in s.iter.elts):
        return s            # a loop over a display is unrolled, entry by entry
    fb = _loop_filter_body(s.body)
    if fb is None:
        return s
    conds, act = fb
    if not (isinstance(act, ast.Expr) and isinstance(act.value, ast.Call) and isinstance(act.value.func, ast.Attribute)
            and act.value.func.attr == 'append' and len(act.value.args) == 1 and not act.value.keywords):
        return s
    recv = act.value.func.value
    tn = _target_names(s.target)
    if any(mentions(t, recv) for t in tn) or has_node([recv], (ast.Call,)):
        return s
    rn = ast.unparse(recv)
    if any(ast.unparse(n) == rn for x in [s.iter, act.value.args[0]] + conds for n in ast.walk(x) if isinstance(n, (ast.Name, ast.Attribute))):
        return s
    gen = ast.comprehension(target=s.target, iter=s.iter, ifs=([_and(conds, s)] if conds else []), is_async=0)
    call = ast.Call(func=ast.Attribute(value=recv, attr='extend', ctx=ast.Load()),
                    args=[ast.GeneratorExp(elt=act.value.args[0], generators=[gen])], keywords=[])
    return at(ast.Expr(value=call), s)


_MAY_ALIAS = None      # set by Normalizer.normalize for the function being canonicalised


def _canon_stmt(s, fresh=None) -> list:
    if isinstance(s, (ast.FunctionDef, ast.AsyncFunctionDef, ast.ClassDef)):
        return [s]          # nested definitions are normalised as functions of their own
    # a, b = (x, y) with independent sides -> two bindings
    if isinstance(s, ast.Assign) and len(s.targets) == 1 and isinstance(s.targets[0], ast.Tuple) and isinstance(s.value, ast.Tuple) \
            and len(s.targets[0].elts) == len(s.value.elts) and all(isinstance(t, ast.Name) for t in s.targets[0].elts) \
            and not any(mentions(t.id, s.value) for t in s.targets[0].elts):
        parts = []
        for t, v in zip(s.targets[0].elts, s.value.elts):
            parts.extend(_canon_stmt(at(ast.Assign(targets=[ast.Name(id=t.id, ctx=ast.Store())], value=v), s), fresh))
        return parts
    # X.extend(E(m) for m in (a(), b()) if C(m))  ->  m_1 = a(); m_2 = b(); if C(m_1): X.append(E(m_1)); if C(m_2): X.append(E(m_2))
    if isinstance(s, ast.Expr) and isinstance(s.value, ast.Call) and isinstance(s.value.func, ast.Attribute) and s.value.func.attr == 'extend' \
            and isinstance(s.value.func.value, (ast.Name, ast.Attribute)) and len(s.value.args) == 1 and not s.value.keywords \
            and isinstance(s.value.args[0], (ast.GeneratorExp, ast.ListComp)) and len(s.value.args[0].generators) == 1:
        g_ = s.value.args[0].generators[0]
        if isinstance(g_.target, ast.Name) and isinstance(g_.iter, (ast.Tuple, ast.List)) and 1 <= len(g_.iter.elts) <= 8 \
                and not any(isinstance(e_, ast.Starred) for e_ in g_.iter.elts) and not g_.is_async:
            used_ = {n.id for n in ast.walk(s) if isinstance(n, ast.Name)}
            out_ = []
            refs = []
            for i_, e_ in enumerate(g_.iter.elts, 1):
                if isinstance(e_, (ast.Name, ast.Constant)):
                    refs.append(e_)
                    continue
                nm_ = f'{g_.target.id}_{i_}'
                while nm_ in used_:
                    nm_ += '_'
                used_.add(nm_)
                out_.append(at(ast.Assign(targets=[ast.Name(id=nm_, ctx=ast.Store())], value=e_), s))
                refs.append(ast.Name(id=nm_, ctx=ast.Load()))
            for r_ in refs:
                sub = {g_.target.id: r_}
                app = at(ast.Expr(value=ast.Call(func=ast.Attribute(value=_load(s.value.func.value), attr='append', ctx=ast.Load()),
                                                 args=[Subst(sub).visit(clone(s.value.args[0].elt))], keywords=[])), s)
                if g_.ifs:
                    test = Subst(sub).visit(clone(_and(list(g_.ifs), s)))
                    out_.append(at(ast.If(test=test, body=[app], orelse=[]), s))
                else:
                    out_.append(app)
            return [ast.fix_missing_locations(x) for x in out_]
    # r = functools.reduce(f, X, init)  ->  r = init; for _x in X: r = f(r, _x)      (and the same for `return reduce(...)`)
    if isinstance(s, (ast.Return, ast.Assign)) and isinstance(getattr(s, 'value', None), ast.Call) \
            and ast.unparse(s.value.func) in ('functools.reduce', 'reduce') and len(s.value.args) == 3 and not s.value.keywords \
            and not any(isinstance(a, ast.Starred) for a in s.value.args) \
            and (isinstance(s, ast.Return) or (len(s.targets) == 1 and isinstance(s.targets[0], ast.Name))):
        fn, coll, init = s.value.args
        used = {n.id for n in ast.walk(s) if isinstance(n, ast.Name)}
        acc = s.targets[0].id if isinstance(s, ast.Assign) else '_acc'
        var = '_x'
        while acc in used and isinstance(s, ast.Return):
            acc += '_'
        while var in used:
            var += '_'
        if not (isinstance(s, ast.Assign) and any(isinstance(n, ast.Name) and n.id == acc for a in s.value.args for n in ast.walk(a))):
            step = ast.Call(func=fn, args=[ast.Name(id=acc, ctx=ast.Load()), ast.Name(id=var, ctx=ast.Load())], keywords=[])
            out_ = [at(ast.Assign(targets=[ast.Name(id=acc, ctx=ast.Store())], value=init), s),
                    at(ast.For(target=ast.Name(id=var, ctx=ast.Store()), iter=coll,
                               body=[at(ast.Assign(targets=[ast.Name(id=acc, ctx=ast.Store())], value=step), s)], orelse=[]), s)]
            if isinstance(s, ast.Return):
                out_.append(at(ast.Return(value=ast.Name(id=acc, ctx=ast.Load())), s))
            res = []
            for o in out_:
                res.extend(_canon_stmt(ast.fix_missing_locations(o), fresh))
            return res
    # head, _, _ = E  ->  head = E[0]   (targets named `_` are never read)
    if isinstance(s, ast.Assign) and len(s.targets) == 1 and isinstance(s.targets[0], ast.Tuple) and not isinstance(s.value, (ast.Tuple, ast.List)) \
            and all(isinstance(t, ast.Name) for t in s.targets[0].elts):
        used = [(k, t) for k, t in enumerate(s.targets[0].elts) if t.id not in ('_', '__')]
        if len(used) == 1 and isinstance(s.value, ast.Call) and isinstance(s.value.func, ast.Attribute) \
                and s.value.func.attr in ('partition', 'rpartition', 'split', 'rsplit', 'groups', 'span'):
            k, t = used[0]
            idx = k if s.value.func.attr in ('partition', 'rpartition') or k == 0 else k - len(s.targets[0].elts)
            return _canon_stmt(at(ast.Assign(targets=[ast.Name(id=t.id, ctx=ast.Store())],
                                             value=ast.Subscript(value=s.value, slice=ast.Constant(value=idx), ctx=ast.Load())), s), fresh)
    inherit = fresh if isinstance(s, (ast.If, ast.Try, ast.With)) else None
    # expressions of this statement
    for field, value in ast.iter_fields(s):
        if isinstance(value, ast.expr):
            setattr(s, field, canon_expr(value))
        elif isinstance(value, list) and value and isinstance(value[0], ast.expr):
            setattr(s, field, [canon_expr(v) for v in value])
        elif isinstance(value, list) and value and isinstance(value[0], ast.withitem):
            for it in value:
                it.context_expr = canon_expr(it.context_expr)
        elif isinstance(value, list) and value and isinstance(value[0], ast.keyword):
            for k in value:
                k.value = canon_expr(k.value)
    for field in ('body', 'orelse', 'finalbody'):
        v = getattr(s, field, None)
        if isinstance(v, list) and (not v or isinstance(v[0], ast.stmt)):
            setattr(s, field, canon_block(v, inherit if field == 'body' or isinstance(s, ast.If) else None))
    if isinstance(s, ast.Try):
        for h in s.handlers:
            h.body = canon_block(h.body)
    if hasattr(ast, 'Match') and isinstance(s, ast.Match):
        for c in s.cases:
            c.body = canon_block(c.body)
    # for i, v in enumerate(it) with i unused -> for v in it
    if isinstance(s, ast.For) and isinstance(s.iter, ast.Call) and isinstance(s.iter.func, ast.Name) and s.iter.func.id == 'enumerate' \
            and len(s.iter.args) == 1 and not s.iter.keywords and isinstance(s.target, ast.Tuple) and len(s.target.elts) == 2 \
            and isinstance(s.target.elts[0], ast.Name) and not mentions(s.target.elts[0].id, s.body + s.orelse):
        s.target = s.target.elts[1]
        s.iter = s.iter.args[0]
    # x.sort(key=k) -> x = sorted(x, key=k)          (x a plain local name)
    if isinstance(s, ast.Expr) and isinstance(s.value, ast.Call) and isinstance(s.value.func, ast.Attribute) \
            and s.value.func.attr == 'sort' and isinstance(s.value.func.value, ast.Name) and not s.value.args \
            and _MAY_ALIAS is not None and s.value.func.value.id not in _MAY_ALIAS:
        x = s.value.func.value.id
        return [at(ast.Assign(targets=[ast.Name(id=x, ctx=ast.Store())],
                              value=ast.Call(func=ast.Name(id='sorted', ctx=ast.Load()), args=[ast.Name(id=x, ctx=ast.Load())],
                                             keywords=s.value.keywords)), s)]
    return [s]


def _accumulations(stmts: list, outer=None) -> list:
    """`x = []` ... `for t in it: [if c:] x.append(e)`  ->  `x = [e for t in it if c]`
       `x = ''` ... `for t in it: [if c:] x += e`        ->  `x = ''.join(e for t in it if c)`"""
    out = list(stmts)
    changed = True
    while changed:
        changed = False
        for j, s in enumerate(out):
            if not isinstance(s, ast.For) or s.orelse:
                continue
            fb = _loop_filter_body(s.body)
            if fb is None or not isinstance(fb[1], (ast.Expr, ast.AugAssign, ast.Assign)):
                r = _summarised_accumulation(out, j, outer or {})
                if r is not None:
                    out = r
                    changed = True
                    break
            if fb is not None and isinstance(fb[1], ast.Assign) and len(fb[1].targets) == 1 and isinstance(fb[1].targets[0], ast.Subscript) \
                    and isinstance(fb[1].targets[0].value, ast.Name):
                r = _dict_accumulation(out, j, fb)
                if r is not None:
                    out = r
                    changed = True
                    break
                continue
            if fb is None:
                r = _set_accumulation(out, j)
                if r is not None:
                    out = r
                    changed = True
                    break
                continue
            conds, act = fb
            x = e = None
            kind = None
            if isinstance(act, ast.Expr) and isinstance(act.value, ast.Call) and isinstance(act.value.func, ast.Attribute) \
                    and act.value.func.attr in ('add', 'update') and isinstance(act.value.func.value, ast.Name):
                r = _set_accumulation(out, j)
                if r is not None:
                    out = r
                    changed = True
                    break
                continue
            if isinstance(act, ast.Expr) and isinstance(act.value, ast.Call) and isinstance(act.value.func, ast.Attribute) \
                    and act.value.func.attr == 'append' and isinstance(act.value.func.value, ast.Name) \
                    and len(act.value.args) == 1 and not act.value.keywords:
                x, e, kind = act.value.func.value.id, act.value.args[0], 'list'
            elif isinstance(act, ast.AugAssign) and isinstance(act.op, ast.Add) and isinstance(act.target, ast.Name):
                x, e, kind = act.target.id, act.value, 'str'
            elif isinstance(act, ast.Assign) and len(act.targets) == 1 and isinstance(act.targets[0], ast.Name) \
                    and isinstance(act.value, ast.BinOp) and isinstance(act.value.op, ast.Add) \
                    and isinstance(act.value.left, ast.Name) and act.value.left.id == act.targets[0].id:
                x, e, kind = act.targets[0].id, act.value.right, 'str'
            if x is None:
                continue
            tn = _target_names(s.target)
            if x in tn or mentions(x, [s.iter, e] + conds):
                continue
            # the initialisation: the closest preceding statement that mentions x must be `x = [] / ''`
            i = j - 1
            while i >= 0 and not mentions(x, out[i]):
                i -= 1
            if i < 0:
                continue
            nm, val = _single_name_assign(out[i])
            if nm != x:
                continue
            if kind == 'list' and not _is_empty_list(val):
                continue
            if kind == 'str' and not _is_empty_str(val):
                continue
            # statements in between must not be able to observe x (they do not mention it) nor leave the block early in a way
            # that would observe the uninitialised name afterwards (return / raise are fine: x is a local)
            gen = ast.comprehension(target=s.target, iter=s.iter, ifs=([_and(conds, s)] if conds else []), is_async=0)
            if kind == 'list':
                value = ast.ListComp(elt=e, generators=[gen])
            else:
                value = ast.Call(func=ast.Attribute(value=ast.Constant(value=''), attr='join', ctx=ast.Load()),
                                 args=[ast.GeneratorExp(elt=e, generators=[gen])], keywords=[])
            new = at(ast.Assign(targets=[ast.Name(id=x, ctx=ast.Store())], value=value), s)
            new.value = canon_expr(new.value)
            ast.fix_missing_locations(new)
            out[j] = new
            del out[i]
            changed = True
            break
    return out


def simplify_cond(expr):
    """A boolean combination rebuilt without the atoms it does not depend on (truth table over <= 8 atoms); a condition that is
    a conjunction of literals comes out as that conjunction."""
    import itertools
    from . import guards as G
    leaves = {}

    def collect(n):
        if isinstance(n, ast.BoolOp):
            for v in n.values:
                collect(v)
        elif isinstance(n, ast.UnaryOp) and isinstance(n.op, ast.Not):
            collect(n.operand)
        else:
            f = G._formula(n)
            if f[0] == 'atom':
                leaves.setdefault(f[1], (n, True))
            elif f[0] == 'not' and f[1][0] == 'atom':
                leaves.setdefault(f[1][1], (n, False))
            else:
                for a in G.atoms_of(f):
                    leaves.setdefault(a, None)
    collect(expr)
    f = G._formula(expr)
    ats = G.atoms_of(f)
    if not ats or len(ats) > 8 or any(leaves.get(a) is None for a in ats):
        return expr
    rel = []
    for a in ats:
        others = [x for x in ats if x != a]
        dep = False
        for bits in itertools.product([False, True], repeat=len(others)):
            v = dict(zip(others, bits))
            if G.evaluate(f, dict(v, **{a: True})) != G.evaluate(f, dict(v, **{a: False})):
                dep = True
                break
        if dep:
            rel.append(a)
    fixed = {a: False for a in ats if a not in rel}
    sat = [bits for bits in itertools.product([False, True], repeat=len(rel)) if G.evaluate(f, dict(fixed, **dict(zip(rel, bits))))]
    if not rel:
        return ast.Constant(value=bool(sat))

    def lit(a, val):
        node, pol = leaves[a]
        return clone(node) if pol == val else negate(clone(node))
    # a sub-cube?
    cube = {}
    for k, a in enumerate(rel):
        vals = {b[k] for b in sat}
        if len(vals) == 1:
            cube[a] = vals.pop()
    if len(sat) == 2 ** (len(rel) - len(cube)):
        parts = [lit(a, v) for a, v in cube.items()]
        return parts[0] if len(parts) == 1 else ast.BoolOp(op=ast.And(), values=parts) if parts else ast.Constant(value=True)
    terms = []
    for b in sat:
        parts = [lit(a, v) for a, v in zip(rel, b)]
        terms.append(parts[0] if len(parts) == 1 else ast.BoolOp(op=ast.And(), values=parts))
    return terms[0] if len(terms) == 1 else ast.BoolOp(op=ast.Or(), values=terms)


def _summarised_accumulation(out: list, j: int, outer=None):
    """A loop whose body - whatever its branching and its loop-local temporaries - appends AT MOST ONE element per iteration to
    each of one or several lists and does nothing else:  `x = []` ... `for t in it: <body>`  ->
    `x = [<element> for t in it if <some path appends to x>]` (one comprehension per list; loop fission is exact because the
    body has no other effect), with <element> a conditional expression over the appending paths (symbolic execution of the
    body, locals substituted)."""
    from . import symex
    from .errors import AnalysisError
    outer = outer or {}
    s = out[j]
    if s.orelse or has_node(s.body, (ast.For, ast.While, ast.Try, ast.With, ast.Return, ast.Raise, ast.Break, ast.FunctionDef, ast.Lambda,
                                     ast.Yield, ast.YieldFrom, ast.Delete)):
        return None
    try:
        sps = symex.sym_paths(s.body, limit=64, inliner=False)
    except AnalysisError:
        return None
    per = {}            # accumulator -> [(SymPath, element)]
    for sp in sps:
        if sp.end not in ('fall', 'continue'):
            return None
        seen_here = set()
        for e in sp.events:
            if e.kind in ('assign', 'cond', 'other'):
                if e.kind == 'other' and not isinstance(e.node, ast.Pass):
                    return None
                continue
            if e.kind == 'expr' and isinstance(e.expr, ast.Call) and isinstance(e.node.value.func, ast.Attribute) \
                    and e.node.value.func.attr == 'append' and isinstance(e.node.value.func.value, ast.Name) and len(e.expr.args) == 1 \
                    and not e.expr.keywords:
                x = e.node.value.func.value.id
                if x in seen_here:
                    return None
                seen_here.add(x)
                per.setdefault(x, []).append((sp, e.expr.args[0]))
                continue
            return None
        if not all(symex.pure(c) or _only_reads(c) for c, _ in sp.conds):
            return None
    if not per:
        return None
    tn = _target_names(s.target)
    locals_ = stores_in(s.body)
    inits = {}
    for x, appending in per.items():
        if x in tn or x in locals_ or mentions(x, [s.iter]) or any(mentions(y, e) or any(mentions(y, c) for c, _ in sp.conds)
                                                                    for sp, e in appending for y in per):
            return None
        i = j - 1
        while i >= 0 and not mentions(x, out[i]):
            i -= 1
        if i < 0:
            if outer.get(x) != 'list':
                return None
            inits[x] = None
            continue
        nm, val = _single_name_assign(out[i])
        if nm != x or not _is_empty_list(val):
            return None
        inits[x] = i
    if any(mentions(n, out[j + 1:]) for n in locals_):
        return None         # a loop-local temporary is read after the loop

    def cond_of(sp):
        cs = [c if t else negate(c) for c, t in sp.conds]
        return _and([clone(c) for c in cs], s) if cs else ast.Constant(value=True)
    news = []
    for x, appending in per.items():
        conds = [cond_of(sp) for sp, _ in appending]
        if len(appending) == len(sps):
            flt = None
        elif len(conds) == 1:
            flt = conds[0]
        else:
            flt = ast.BoolOp(op=ast.Or(), values=conds)
        if flt is not None:
            flt = simplify_cond(flt)
            ast.fix_missing_locations(at(flt, s))
            if _bool_const(flt) is True:
                flt = None
        elt = clone(appending[-1][1])
        if not all(same(e, appending[0][1]) for _, e in appending):
            for (sp, e), c in list(zip(appending, conds))[-2::-1]:
                elt = ast.IfExp(test=simplify_cond(clone(c)), body=clone(e), orelse=elt)
        gen = ast.comprehension(target=clone(s.target), iter=clone(s.iter), ifs=([flt] if flt is not None else []), is_async=0)
        news.append(at(ast.Assign(targets=[ast.Name(id=x, ctx=ast.Store())], value=ast.ListComp(elt=elt, generators=[gen])), s))
    drop = {i for i in inits.values() if i is not None}
    res = []
    for k, st in enumerate(out):
        if k in drop:
            continue
        if k == j:
            res.extend(news)
        else:
            res.append(st)
    return res


def _only_reads(e) -> bool:
    """Calls of methods whose names are read-only by convention in this code base (predicates / getters)."""
    for n in ast.walk(e):
        if isinstance(n, ast.Call):
            f = n.func
            nm = f.attr if isinstance(f, ast.Attribute) else (f.id if isinstance(f, ast.Name) else '')
            if not (nm.startswith(('is_', 'has_', 'get_', 'startswith', 'endswith', 'isinstance', 'len')) or nm in ('get', 'count', 'index')):
                return False
    return True


def _dict_accumulation(out: list, j: int, fb):
    """`x = {}` ... `for t in it: [if c:] x[k] = v`  ->  `x = {k: v for t in it if c}`"""
    s = out[j]
    conds, act = fb
    x = act.targets[0].value.id
    k, v = act.targets[0].slice, act.value
    if x in _target_names(s.target) or mentions(x, [s.iter, k, v] + conds):
        return None
    i = j - 1
    while i >= 0 and not mentions(x, out[i]):
        i -= 1
    if i < 0:
        return None
    nm, val = _single_name_assign(out[i])
    empty = (isinstance(val, ast.Dict) and not val.keys) or \
        (isinstance(val, ast.Call) and isinstance(val.func, ast.Name) and val.func.id == 'dict' and not val.args and not val.keywords)
    if nm != x or not empty:
        return None
    gen = ast.comprehension(target=s.target, iter=s.iter, ifs=([_and(conds, s)] if conds else []), is_async=0)
    new = at(ast.Assign(targets=[ast.Name(id=x, ctx=ast.Store())], value=ast.DictComp(key=k, value=v, generators=[gen])), s)
    res = list(out)
    res[j] = new
    del res[i]
    return res


def _set_accumulation(out: list, j: int):
    """`x = set()` ... `for t in it: [if c:] x.add(e) / x.update(E) / x |= E (one or more)`
       ->  `x = set().union(*[{e} | E ... for t in it if c])`"""
    s = out[j]
    fb = _loop_filter_body(s.body, many=True)
    if fb is None:
        return None
    conds, acts = fb
    x = None
    parts = []
    for a in acts:
        if isinstance(a, ast.Expr) and isinstance(a.value, ast.Call) and isinstance(a.value.func, ast.Attribute) \
                and a.value.func.attr in ('add', 'update') and isinstance(a.value.func.value, ast.Name) \
                and len(a.value.args) == 1 and not a.value.keywords:
            nm = a.value.func.value.id
            part = ast.Set(elts=[a.value.args[0]]) if a.value.func.attr == 'add' else a.value.args[0]
        elif isinstance(a, ast.AugAssign) and isinstance(a.op, ast.BitOr) and isinstance(a.target, ast.Name):
            nm, part = a.target.id, a.value
        else:
            return None
        if x is not None and nm != x:
            return None
        x = nm
        parts.append(part)
    if x is None or x in _target_names(s.target) or mentions(x, [s.iter] + parts + conds):
        return None
    i = j - 1
    while i >= 0 and not mentions(x, out[i]):
        i -= 1
    if i < 0:
        return None
    nm, val = _single_name_assign(out[i])
    if nm != x or not (isinstance(val, ast.Call) and isinstance(val.func, ast.Name) and val.func.id == 'set' and not val.args and not val.keywords):
        return None
    u = parts[0]
    for q in parts[1:]:
        u = ast.BinOp(left=u, op=ast.BitOr(), right=q)
    gen = ast.comprehension(target=s.target, iter=s.iter, ifs=([_and(conds, s)] if conds else []), is_async=0)
    value = ast.Call(func=ast.Attribute(value=ast.Call(func=ast.Name(id='set', ctx=ast.Load()), args=[], keywords=[]), attr='union', ctx=ast.Load()),
                     args=[ast.Starred(value=ast.ListComp(elt=u, generators=[gen]), ctx=ast.Load())], keywords=[])
    new = at(ast.Assign(targets=[ast.Name(id=x, ctx=ast.Store())], value=value), s)
    res = list(out)
    res[j] = new
    del res[i]
    return res


def _bool_const(e):
    return e.value if isinstance(e, ast.Constant) and isinstance(e.value, bool) else None


def _search_loops(stmts: list) -> list:
    """`for t in it: if c: return True` + `return False`          -> `return any(c for t in it)`
       `f = False` ... `for t in it: if c: f = True [break]`     -> `f = any(c for t in it)`"""
    out = list(stmts)
    changed = True
    while changed:
        changed = False
        for j, s in enumerate(out):
            if isinstance(s, ast.For) and s.orelse and len(s.body) == 1 and isinstance(s.body[0], ast.If) and not s.body[0].orelse \
                    and len(s.body[0].body) == 1 and isinstance(s.body[0].body[0], ast.Break) \
                    and not any(mentions(t, s.orelse) for t in _target_names(s.target)):
                # `for t in it: if c: break` / `else: S`  ->  `if not any(c for t in it): S`
                gen0 = ast.comprehension(target=s.target, iter=s.iter, ifs=[], is_async=0)
                found = ast.Call(func=ast.Name(id='any', ctx=ast.Load()), args=[ast.GeneratorExp(elt=s.body[0].test, generators=[gen0])], keywords=[])
                out[j] = at(ast.If(test=ast.UnaryOp(op=ast.Not(), operand=found), body=list(s.orelse), orelse=[]), s)
                changed = True
                break
            if not isinstance(s, ast.For) or s.orelse:
                continue
            body = list(s.body)
            if len(body) != 1 or not isinstance(body[0], ast.If) or body[0].orelse:
                continue
            c = body[0].test
            inner = list(body[0].body)
            tn = _target_names(s.target)
            gen = ast.comprehension(target=s.target, iter=s.iter, ifs=[], is_async=0)

            def any_of(cond):
                return ast.Call(func=ast.Name(id='any', ctx=ast.Load()),
                                args=[ast.GeneratorExp(elt=cond, generators=[gen])], keywords=[])
            # search loop with return
            if len(inner) == 1 and isinstance(inner[0], ast.Return) and _bool_const(inner[0].value) is not None \
                    and j + 1 < len(out) and isinstance(out[j + 1], ast.Return) and _bool_const(out[j + 1].value) is not None \
                    and _bool_const(inner[0].value) != _bool_const(out[j + 1].value):
                found = _bool_const(inner[0].value)
                v = any_of(c)
                if not found:
                    v = ast.UnaryOp(op=ast.Not(), operand=v)
                out[j] = at(ast.Return(value=v), s)
                del out[j + 1]
                changed = True
                break
            # validation / guard loop: `for t in it: if c: raise E | return V`  ->  `if any(c for t in it): raise E | return V`
            if len(inner) == 1 and isinstance(inner[0], (ast.Raise, ast.Return)) and not any(mentions(t, inner[0]) for t in tn):
                out[j] = at(ast.If(test=any_of(c), body=[inner[0]], orelse=[]), s)
                changed = True
                break
            # flag loop
            if inner and isinstance(inner[0], ast.Assign) and len(inner[0].targets) == 1 and isinstance(inner[0].targets[0], ast.Name) \
                    and _bool_const(inner[0].value) is not None \
                    and (len(inner) == 1 or (len(inner) == 2 and isinstance(inner[1], ast.Break))):
                f = inner[0].targets[0].id
                if f in tn or mentions(f, [s.iter, c]):
                    continue
                i = j - 1
                while i >= 0 and not mentions(f, out[i]):
                    i -= 1
                if i < 0:
                    continue
                nm, val = _single_name_assign(out[i])
                if nm != f or _bool_const(val) is None or _bool_const(val) == _bool_const(inner[0].value):
                    continue
                v = any_of(c)
                if not _bool_const(inner[0].value):
                    v = ast.UnaryOp(op=ast.Not(), operand=v)
                out[j] = at(ast.Assign(targets=[ast.Name(id=f, ctx=ast.Store())], value=v), s)
                del out[i]
                changed = True
                break
    return out


# ----------------------------------------------------------------------- local aliases of attributes
def _fresh_container(e) -> bool:
    if isinstance(e, (ast.List, ast.Dict, ast.Set, ast.ListComp, ast.DictComp, ast.SetComp)):
        return True
    return isinstance(e, ast.Call) and isinstance(e.func, ast.Name) and e.func.id in ('list', 'dict', 'set')


def attribute_aliases(stmts: list) -> list:
    """`x = <fresh container>` ... `self.a = x` ... uses of x   ->   `self.a = <fresh container>` ... uses of self.a
    (top-level statements of the function only; x assigned once, self.a stored once, nothing in between touches self)."""
    out = list(stmts)
    whole = ast.Module(body=out, type_ignores=[])
    for j, s in enumerate(out):
        if not (isinstance(s, ast.Assign) and len(s.targets) == 1 and isinstance(s.targets[0], ast.Attribute)
                and isinstance(s.targets[0].value, ast.Name) and s.targets[0].value.id == 'self' and isinstance(s.value, ast.Name)):
            continue
        x, attr = s.value.id, s.targets[0].attr
        defs = [i for i, t in enumerate(out[:j]) if _single_name_assign(t)[0] == x]
        if len(defs) != 1 or not _fresh_container(_single_name_assign(out[defs[0]])[1]):
            continue
        i = defs[0]
        n_store_x = sum(1 for n in ast.walk(whole) if isinstance(n, ast.Name) and n.id == x and isinstance(n.ctx, (ast.Store, ast.Del)))
        n_store_a = sum(1 for n in ast.walk(whole) if isinstance(n, ast.Attribute) and n.attr == attr and isinstance(n.ctx, (ast.Store, ast.Del))
                        and isinstance(n.value, ast.Name) and n.value.id == 'self')
        if n_store_x != 1 or n_store_a != 1:
            continue
        if any(mentions('self', t) for t in out[i:j]):
            continue
        # x must not escape into a nested function (late binding) - keep it simple
        if any(isinstance(n, (ast.FunctionDef, ast.Lambda)) and mentions(x, n) for n in ast.walk(whole)):
            continue
        new_def = at(ast.Assign(targets=[clone(s.targets[0])], value=_single_name_assign(out[i])[1]), out[i])
        rep = {x: _load(s.targets[0])}
        res = out[:i] + [new_def]
        for t in out[i + 1:j] + out[j + 1:]:
            res.append(Subst(rep).visit(t))
        for t in res:
            ast.fix_missing_locations(t)
        return attribute_aliases(res)
    return out


# ----------------------------------------------------------------------- named intermediate results used at once
def _own_exprs(s):
    """(field, expression) pairs a statement evaluates itself, before any nested block runs."""
    if isinstance(s, (ast.If, ast.While)):
        return [('test', s.test)]
    if isinstance(s, (ast.Return, ast.Expr)) and s.value is not None:
        return [('value', s.value)]
    if isinstance(s, (ast.Assign, ast.AnnAssign, ast.AugAssign)) and getattr(s, 'value', None) is not None:
        return [('value', s.value)]
    if isinstance(s, ast.Raise) and s.exc is not None:
        return [('exc', s.exc)]
    return []


def adjacent_temps(block: list, whole_body: list) -> list:
    """`t = E` directly followed (possibly through further such bindings) by ONE statement whose own expression is the only
    place where t is used: the name is replaced by E there (`ok = a and b; if not ok: ...` -> `if not (a and b): ...`).
    E is duplicated only when it has no call that could have an effect."""
    from .symex import pure
    whole = ast.Module(body=whole_body, type_ignores=[])
    stores, loads = {}, {}
    for n in ast.walk(whole):
        if isinstance(n, ast.Name):
            d = stores if isinstance(n.ctx, (ast.Store, ast.Del)) else loads
            d[n.id] = d.get(n.id, 0) + 1
    out = list(block)
    for st in out:
        for field in ('body', 'orelse', 'finalbody'):
            v = getattr(st, field, None)
            if isinstance(v, list) and v and isinstance(v[0], ast.stmt) and not isinstance(st, (ast.FunctionDef, ast.AsyncFunctionDef, ast.ClassDef)):
                setattr(st, field, adjacent_temps(v, whole_body))
        if isinstance(st, ast.Try):
            for h in st.handlers:
                h.body = adjacent_temps(h.body, whole_body)
    i = 0
    while i < len(out):
        nm, val = _single_name_assign(out[i])
        if nm is None or stores.get(nm) != 1 or not loads.get(nm) or isinstance(val, (ast.Lambda, ast.ListComp, ast.List, ast.Dict, ast.Set,
                                                                                       ast.DictComp, ast.SetComp)) \
                or (isinstance(val, ast.GeneratorExp) and loads.get(nm) != 1):      # a generator is consumed once
            i += 1
            continue
        # the run of bindings that follows, then the consumer
        j = i + 1
        while j < len(out) and _single_name_assign(out[j])[0] is not None and j - i < 6:
            # a later binding of the run may itself be the consumer; stop the run at the first statement that is not a pure
            # binding of a once-bound name
            n2, v2 = _single_name_assign(out[j])
            if stores.get(n2) != 1:
                break
            j += 1
        if j >= len(out):
            j = len(out) - 1
        span = out[i + 1:j + 1]
        used = 0
        for k, t in enumerate(span):
            for _, e in _own_exprs(t):
                used += sum(1 for n in ast.walk(e) if isinstance(n, ast.Name) and n.id == nm and isinstance(n.ctx, ast.Load))
        if used != loads.get(nm) or used == 0:
            i += 1
            continue
        if used > 1 and not pure(val):
            i += 1
            continue
        # the names E reads must not be re-bound inside the span before the use (bindings of the run bind other names: checked by
        # the single-store condition together with this test)
        reads = loads_of(val)
        if any(_single_name_assign(t)[0] in reads for t in span):
            i += 1
            continue
        if not pure(val):
            # an effectful E moves past the other bindings of the run: only when it is used by the very next statement
            first_user = next((k for k, t in enumerate(span) if any(mentions(nm, e) for _, e in _own_exprs(t))), None)
            if first_user != 0:
                i += 1
                continue
        for t in span:
            for field, e in _own_exprs(t):
                setattr(t, field, Subst({nm: val}).visit(e))
            ast.fix_missing_locations(t)
        del out[i]
    return out


def loads_of(e) -> set:
    return {n.id for n in ast.walk(e) if isinstance(n, ast.Name)}


# ----------------------------------------------------------------------- 4. conditional expressions -> statements
def lift_ifexp(stmts: list) -> list:
    out = []
    for s in stmts:
        for field in ('body', 'orelse', 'finalbody'):
            v = getattr(s, field, None)
            if isinstance(v, list) and v and isinstance(v[0], ast.stmt) and not isinstance(s, (ast.FunctionDef, ast.AsyncFunctionDef, ast.ClassDef)):
                setattr(s, field, lift_ifexp(v))
        if isinstance(s, ast.Try):
            for h in s.handlers:
                h.body = lift_ifexp(h.body)
        out.extend(_lift_one(s))
    return out


def _find_ifexp(e, path=()):
    """First conditional expression at a position of `e` that is evaluated unconditionally -> (parent, field, index) or None."""
    def kids(n):
        if isinstance(n, ast.Call):
            out = []
            if isinstance(n.func, ast.Attribute):
                out.append((n.func, 'value', None))
            out += [(n, 'args', i) for i in range(len(n.args)) if not isinstance(n.args[i], ast.Starred)]
            out += [(k, 'value', None) for k in n.keywords]
            return out
        if isinstance(n, ast.Attribute):
            return [(n, 'value', None)]
        if isinstance(n, ast.Subscript):
            return [(n, 'value', None), (n, 'slice', None)]
        if isinstance(n, ast.BinOp):
            return [(n, 'left', None), (n, 'right', None)]
        if isinstance(n, ast.UnaryOp):
            return [(n, 'operand', None)]
        if isinstance(n, ast.Compare):
            return [(n, 'left', None)] + ([(n, 'comparators', 0)] if len(n.comparators) == 1 else [])
        if isinstance(n, ast.BoolOp):
            return [(n, 'values', 0)]
        if isinstance(n, (ast.Tuple, ast.List)):
            return [(n, 'elts', i) for i in range(len(n.elts)) if not isinstance(n.elts[i], ast.Starred)]
        if isinstance(n, ast.JoinedStr):
            return []
        return []
    for parent, field, idx in kids(e):
        child = getattr(parent, field)
        child = child[idx] if idx is not None else child
        if isinstance(child, ast.IfExp):
            return parent, field, idx
        r = _find_ifexp(child)
        if r is not None:
            return r
    return None


def _lift_one(s, depth=0) -> list:
    v = getattr(s, 'value', None)
    if isinstance(s, (ast.Assign, ast.AnnAssign, ast.Return, ast.AugAssign)) and isinstance(v, ast.IfExp):
        def mk(val):
            c = clone(s)
            c.value = val
            return c
        a = _lift_one(mk(v.body), depth + 1)
        b = _lift_one(mk(v.orelse), depth + 1)
        return [at(ast.If(test=v.test, body=a, orelse=b), s)]
    if depth < 3 and isinstance(s, (ast.Assign, ast.AnnAssign, ast.Return, ast.AugAssign, ast.Expr)) and v is not None:
        # a conditional argument: f(a if c else b)  ->  if c: f(a) else: f(b)
        variants = []
        test = None
        for pick in ('body', 'orelse'):
            c = clone(s)
            r = _find_ifexp(c.value)
            if r is None:
                return [s]
            parent, field, idx = r
            node = getattr(parent, field)
            node = node[idx] if idx is not None else node
            test = node.test
            repl = getattr(node, pick)
            if idx is not None:
                getattr(parent, field)[idx] = repl
            else:
                setattr(parent, field, repl)
            variants.append(c)
        return [at(ast.If(test=test, body=_lift_one(variants[0], depth + 1), orelse=_lift_one(variants[1], depth + 1)), s)]
    return [s]


# ----------------------------------------------------------------------- constant folding of trivial tests
def fold_trivial(stmts: list) -> list:
    """After substitution of table entries: `if True:` / `if not False:` select their branch."""
    out = []
    for s in stmts:
        for field in ('body', 'orelse', 'finalbody'):
            v = getattr(s, field, None)
            if isinstance(v, list) and v and isinstance(v[0], ast.stmt) and not isinstance(s, (ast.FunctionDef, ast.AsyncFunctionDef, ast.ClassDef)):
                setattr(s, field, fold_trivial(v))
        if isinstance(s, ast.If):
            t = s.test
            val = _bool_const(t)
            if val is None and isinstance(t, ast.UnaryOp) and isinstance(t.op, ast.Not) and _bool_const(t.operand) is not None:
                val = not _bool_const(t.operand)
            if val is True:
                out.extend(s.body)
                continue
            if val is False:
                out.extend(s.orelse)
                continue
        out.append(s)
    # statements after an unconditional return / raise in the same block are dead
    for i, s in enumerate(out):
        if isinstance(s, (ast.Return, ast.Raise)):
            return out[:i + 1]
    return out


# ----------------------------------------------------------------------- scope-aware substitution
class Subst(ast.NodeTransformer):
    """Replace loads of names by expressions; comprehension targets and lambda parameters shadow."""

    def __init__(self, mapping: Dict[str, ast.AST]):
        self.m = mapping

    def visit_Name(self, node):
        if node.id in self.m and isinstance(node.ctx, ast.Load):
            return at(clone(self.m[node.id]), node)
        return node

    def _comp(self, node):
        bound = set()
        for g in node.generators:
            bound.update(_target_names(g.target))
        inner = Subst({k: v for k, v in self.m.items() if k not in bound})
        first = True
        for g in node.generators:
            g.iter = (self if first else inner).visit(g.iter)
            first = False
            g.ifs = [inner.visit(i) for i in g.ifs]
        if isinstance(node, ast.DictComp):
            node.key = inner.visit(node.key)
            node.value = inner.visit(node.value)
        else:
            node.elt = inner.visit(node.elt)
        return node

    visit_ListComp = visit_SetComp = visit_GeneratorExp = visit_DictComp = _comp

    def visit_Lambda(self, node):
        a = node.args
        bound = {x.arg for x in a.posonlyargs + a.args + a.kwonlyargs}
        if a.vararg:
            bound.add(a.vararg.arg)
        if a.kwarg:
            bound.add(a.kwarg.arg)
        node.body = Subst({k: v for k, v in self.m.items() if k not in bound}).visit(node.body)
        return node


class Rename(ast.NodeTransformer):
    def __init__(self, mapping: Dict[str, str]):
        self.m = mapping

    def visit_Name(self, node):
        if node.id in self.m:
            node.id = self.m[node.id]
        return node

    def visit_ExceptHandler(self, node):
        if node.name in self.m:
            node.name = self.m[node.name]
        return self.generic_visit(node)


# ----------------------------------------------------------------------- 2. helper inlining
_BUILTIN_NAMES = set()
for _t in (str, bytes, list, tuple, dict, set, frozenset, int, float, object, type):
    _BUILTIN_NAMES |= set(dir(_t))


def _BUILTIN_METHOD(name):
    return name in _BUILTIN_NAMES


class Normalizer:
    def __init__(self, prog, known: Optional[set] = None):
        self.prog = prog
        self.known = load_known() if known is None else known
        self.done: Dict[int, bool] = {}
        self.active: List[int] = []
        self.counter = 0
        self.stats = {'inlined': 0, 'unrolled': 0, 'lookups': 0, 'functions': 0}
        self.inlined_names = set()
        self._scopes = {}
        self._stores = None

    # ---- driver
    def run(self):
        for fi in list(self.prog.all_functions()):
            self.normalize(fi)
        for m in self.prog.modules.values():
            m._parents = None
        return self

    def normalize(self, fi: FuncInfo):
        k = id(fi.node)
        if k in self.done:
            return
        if isinstance(fi.node, ast.Lambda):
            self.done[k] = True
            return
        self.done[k] = False        # in progress
        self.active.append(k)
        try:
            body = fi.node.body
            doc = []
            if body and isinstance(body[0], ast.Expr) and isinstance(body[0].value, ast.Constant) and isinstance(body[0].value.value, str):
                doc, body = [body[0]], body[1:]
            # nested definitions first (closures are inlined into this body)
            for n in walk_local(fi.node):
                if isinstance(n, (ast.FunctionDef, ast.AsyncFunctionDef)) and n is not fi.node:
                    self.normalize(FuncInfo(fi.module, n, fi.cls, outer=fi))
            # names that may be ALIASES of an object the function did not create (bound from an attribute, a parameter, another
            # name, a subscript): an in-place `x.sort()` on them is an effect and must stay one
            global _MAY_ALIAS
            _MAY_ALIAS = set(fi.all_params)
            for n in walk_local(fi.node):
                if isinstance(n, (ast.Assign, ast.AnnAssign)) and getattr(n, 'value', None) is not None:
                    fresh_val = isinstance(n.value, (ast.List, ast.ListComp, ast.Dict, ast.Set, ast.Tuple, ast.DictComp, ast.SetComp, ast.BinOp)) or (
                        isinstance(n.value, ast.Call) and isinstance(n.value.func, ast.Name) and n.value.func.id in ('list', 'sorted', 'set', 'dict', 'tuple'))
                    if not fresh_val and isinstance(n.value, ast.Call):
                        # a helper every return of which hands out a list it has just built
                        try:
                            r_ = self.resolve_callee(n.value, fi)
                        except Exception:
                            r_ = None
                        if r_ is not None:
                            rets_ = [x_ for x_ in walk_local(r_[0].node) if isinstance(x_, ast.Return)]
                            fresh_val = bool(rets_) and all(
                                isinstance(x_.value, (ast.List, ast.ListComp)) or (isinstance(x_.value, ast.Call) and isinstance(x_.value.func, ast.Name)
                                                                                  and x_.value.func.id in ('list', 'sorted')) for x_ in rets_)
                    if not fresh_val:
                        for t in (n.targets if isinstance(n, ast.Assign) else [n.target]):
                            for x in ast.walk(t):
                                if isinstance(x, ast.Name):
                                    _MAY_ALIAS.add(x.id)
                elif isinstance(n, (ast.For, ast.With, ast.comprehension)):
                    tg = n.target if not isinstance(n, ast.With) else None
                    for x in (ast.walk(tg) if tg is not None else []):
                        if isinstance(x, ast.Name):
                            _MAY_ALIAS.add(x.id)
            body = canon_block(body)
            _MAY_ALIAS = None
            body = self.inline_block(body, fi, 0)
            body = self.unroll_block(body, fi)
            body = self.bool_tables(body, fi)
            body = fold_trivial(body)
            body = attribute_aliases(body)
            body = self.copy_propagate(body, fi)
            body = adjacent_temps(body, body)
            body = self.canon_calls(body, fi)
            body = canon_block(body)
            body = lift_ifexp(body)
            body = canon_block(body)        # (a, b = (x, y) produced by a lifted conditional tuple)
            if not body:
                body = [at(ast.Pass(), fi.node)]
            fi.node.body = doc + body
            ast.fix_missing_locations(fi.node)
            self.stats['functions'] += 1
        finally:
            self.active.pop()
            self.done[k] = True

    def scope_info(self, fi: FuncInfo):
        k = id(fi.node)
        r = self._scopes.get(k)
        if r is None:
            defs, lambdas, counts, locs = {}, {}, {}, set()
            for n in walk_local(fi.node):
                if isinstance(n, ast.FunctionDef) and n is not fi.node:
                    defs[n.name] = n
                elif isinstance(n, ast.Name) and isinstance(n.ctx, ast.Store):
                    locs.add(n.id)
                elif isinstance(n, ast.Assign):
                    for t in n.targets:
                        if isinstance(t, ast.Name):
                            counts[t.id] = counts.get(t.id, 0) + 1
                            lambdas[t.id] = n.value if isinstance(n.value, ast.Lambda) else None
            lambdas = {k2: v for k2, v in lambdas.items() if counts.get(k2) == 1 and v is not None}
            rows = {}
            for n in walk_local(fi.node):
                if isinstance(n, ast.Assign) and len(n.targets) == 1 and isinstance(n.targets[0], ast.Name) and counts.get(n.targets[0].id) == 1 \
                        and isinstance(n.value, (ast.Tuple, ast.List)) and n.value.elts and all(isinstance(e, (ast.Tuple, ast.List)) for e in n.value.elts):
                    rows[n.targets[0].id] = n.value
            r = self._scopes[k] = {'defs': defs, 'lambdas': lambdas, 'rows': rows, 'locals': locs | set(fi.all_params) if not isinstance(fi.node, ast.Lambda) else locs}
        return r

    def fresh(self, name: str) -> str:
        self.counter += 1
        return f'{name}__{self.counter}'

    # ---- callee resolution
    def is_anchor(self, qualname: str) -> bool:
        return qualname in self.known

    def resolve_callee(self, call: ast.Call, fi: FuncInfo):
        """-> (FuncInfo, receiver expression or None) for a statically resolved call of a function that is not an anchor."""
        f = call.func
        prog = self.prog
        target = recv = None
        if isinstance(f, ast.Name):
            # local closure / local lambda
            scope = fi
            while scope is not None and target is None:
                info = self.scope_info(scope)
                if f.id in info['defs']:
                    target = FuncInfo(scope.module, info['defs'][f.id], scope.cls, outer=scope)
                elif info['lambdas'].get(f.id) is not None:
                    target = FuncInfo(scope.module, info['lambdas'][f.id], scope.cls, outer=scope)
                    target.qualname = f'{scope.qualname}.<locals>.{f.id}'
                scope = scope.outer
            if target is None:
                if f.id in self.scope_info(fi)['locals']:
                    return None
                b = prog.resolve(fi.module, f.id)
                if b is not None and b.kind == 'def':
                    target = b.value
        elif isinstance(f, ast.Attribute):
            v = f.value
            if isinstance(v, ast.Name) and v.id in ('self', 'cls') and fi.cls is not None and fi.params and fi.params[0] == v.id \
                    and fi.kind in ('method', 'classmethod', 'property', 'setter'):
                target = prog.find_method(fi.cls, f.attr)
                if target is not None:
                    # the helper must not be overridden below the class it is called from
                    for sub in prog.subclasses(fi.cls, strict=True):
                        if f.attr in sub.methods:
                            return None
                    recv = v
            elif isinstance(v, ast.Call) and isinstance(v.func, ast.Name) and v.func.id == 'super':
                return None
            else:
                r = prog.resolve_expr(fi.module, v, None)
                if r is not None and r[0] == 'class':
                    target = prog.find_method(r[1], f.attr)
                    if target is not None and target.kind == 'method':
                        return None     # unbound call Class.method(obj, ...) : not glue we model
                    recv = v
                elif r is not None and r[0] == 'module':
                    tm = prog.modules.get(r[1])
                    if tm is not None:
                        b = prog.resolve(tm, f.attr)
                        if b is not None and b.kind == 'def':
                            target = b.value
                elif r is None or r[0] not in ('external', 'def'):
                    # obj.helper(...) on an object whose class is not written at the call: a method name the pinned tree does
                    # not know, defined by exactly one class of the program and by no built-in type, names its definition
                    cands = self._methods_named(f.attr)
                    if len(cands) == 1 and cands[0].kind == 'method' and not _BUILTIN_METHOD(f.attr):
                        target, recv = cands[0], v
        if target is None or isinstance(target, str):
            return None
        if target.module.generated or target.module.legacy:
            return None
        if self.is_anchor(target.qualname):
            return None
        if target.name.startswith('__') and target.name.endswith('__'):
            return None
        if target.kind in ('property', 'setter') or target.is_abstract:
            return None
        if any(d not in ('staticmethod', 'classmethod') for d in target.decorators):
            return None
        if id(target.node) in self.active:
            return None             # recursion
        return target, recv

    def _methods_named(self, name):
        idx = getattr(self, '_method_index', None)
        if idx is None:
            idx = {}
            for fi_ in self.prog.functions.values():
                if fi_.cls is not None and fi_.outer is None and not fi_.module.generated:
                    idx.setdefault(fi_.name, []).append(fi_)
            self._method_index = idx
        return idx.get(name, [])

    # ---- binding
    def bind(self, call: ast.Call, target: FuncInfo, recv, fi: FuncInfo):
        """-> mapping parameter name -> argument expression, or None when the call shape is not modelled."""
        a = target.node.args
        if any(isinstance(x, ast.Starred) for x in call.args) or any(k.arg is None for k in call.keywords):
            return None
        if a.kwarg:
            # f(x, **rest) called with plain keywords: rest is the dict of the keywords that name no parameter
            named = {x.arg for x in a.posonlyargs + a.args + a.kwonlyargs}
            inner = clone(call)
            rest = [k for k in inner.keywords if k.arg not in named]
            inner.keywords = [k for k in inner.keywords if k.arg in named]
            shadow = copy.copy(target)
            shadow_node = copy.copy(target.node)
            shadow_node.args = copy.copy(a)
            shadow_node.args.kwarg = None
            shadow.node = shadow_node
            mapping = self.bind(inner, shadow, recv, fi)
            if mapping is None:
                return None
            mapping[a.kwarg.arg] = ast.Dict(keys=[ast.Constant(value=k.arg) for k in rest], values=[k.value for k in rest])
            return mapping
        if a.vararg:
            # f(x, *rest) called with plain positional arguments: rest is the tuple of the surplus ones
            n_pos = len(a.posonlyargs + a.args) - (1 if target.kind in ('method', 'classmethod') and target.cls is not None and target.outer is None else 0)
            if len(call.args) < n_pos or any(k.arg in [x.arg for x in a.posonlyargs + a.args] for k in call.keywords):
                return None
            inner = clone(call)
            rest = inner.args[n_pos:]
            inner.args = inner.args[:n_pos]
            shadow = copy.copy(target)
            shadow_node = copy.copy(target.node)
            shadow_node.args = copy.copy(a)
            shadow_node.args.vararg = None
            shadow.node = shadow_node
            mapping = self.bind(inner, shadow, recv, fi)
            if mapping is None:
                return None
            mapping[a.vararg.arg] = ast.Tuple(elts=rest, ctx=ast.Load())
            return mapping
        pos = [x.arg for x in a.posonlyargs + a.args]
        mapping: Dict[str, ast.AST] = {}
        if target.kind in ('method', 'classmethod') and target.cls is not None and target.outer is None:
            if not pos:
                return None
            first, pos = pos[0], pos[1:]
            if target.kind == 'method':
                if recv is None:
                    return None
                mapping[first] = recv
            else:
                if isinstance(recv, ast.Name) and recv.id == 'self':
                    # `cls.X` and `self.X` read the same class attribute / call the same class-level method: when the helper
                    # uses its class only that way, the instance stands for it (keeps the expression resolvable)
                    attr_only = True
                    for n in ast.walk(target.node):
                        for c in ast.iter_child_nodes(n):
                            if isinstance(c, ast.Name) and c.id == first and not (isinstance(n, ast.Attribute) and n.value is c):
                                attr_only = False
                    mapping[first] = recv if attr_only else ast.Call(func=ast.Name(id='type', ctx=ast.Load()), args=[recv], keywords=[])
                elif recv is not None:
                    mapping[first] = recv
                else:
                    return None
        if len(call.args) > len(pos):
            return None
        for p, x in zip(pos, call.args):
            mapping[p] = x
        names = set(pos) | {x.arg for x in a.kwonlyargs}
        for k in call.keywords:
            if k.arg not in names or k.arg in mapping:
                return None
            mapping[k.arg] = k.value
        defaults = [None] * (len(a.posonlyargs + a.args) - len(a.defaults)) + list(a.defaults)
        for p, d in zip(a.posonlyargs + a.args, defaults):
            if p.arg not in mapping and d is not None:
                mapping[p.arg] = d
        for p, d in zip(a.kwonlyargs, a.kw_defaults):
            if p.arg not in mapping and d is not None:
                mapping[p.arg] = d
        for p in list(pos) + [x.arg for x in a.kwonlyargs]:
            if p not in mapping:
                return None
        return mapping

    def callee_body(self, target: FuncInfo, generator=False):
        self.normalize(target)
        if isinstance(target.node, ast.Lambda):
            return [ast.Return(value=clone(target.node.body), lineno=target.node.lineno, col_offset=0)]
        body = target.node.body
        if body and isinstance(body[0], ast.Expr) and isinstance(body[0].value, ast.Constant) and isinstance(body[0].value.value, str):
            body = body[1:]
        if sum(1 for s in body for _ in ast.walk(s)) > MAX_HELPER_NODES:
            return None
        if has_node(body, ((ast.YieldFrom,) if generator else (ast.Yield, ast.YieldFrom))
                    + (ast.Await, ast.Global, ast.Nonlocal, ast.FunctionDef, ast.AsyncFunctionDef, ast.ClassDef)):
            return None
        return clone(body)

    def _share_globals(self, body, target: FuncInfo, fi: FuncInfo) -> bool:
        """A helper of ANOTHER module is inlined: the module-level names its body uses must mean the same in the caller's module.
        A name the caller's module does not bind is bound there to the helper module's definition (as an import would);
        a name both bind differently makes the helper non-inlinable here."""
        if target.module is fi.module:
            return True
        tm, cm = target.module, fi.module
        local_names = set()
        for st in body:
            for n in ast.walk(st):
                if isinstance(n, ast.Name) and isinstance(n.ctx, (ast.Store, ast.Del)):
                    local_names.add(n.id)
                elif isinstance(n, ast.arg):
                    local_names.add(n.arg)
        local_names |= set(target.all_params)
        import builtins
        todo = {}
        for st in body:
            for n in ast.walk(st):
                if isinstance(n, ast.Name) and isinstance(n.ctx, ast.Load) and n.id not in local_names and not hasattr(builtins, n.id):
                    bt = self.prog.resolve(tm, n.id)
                    if bt is None:
                        continue
                    bc = self.prog.resolve(cm, n.id)
                    if bc is None:
                        todo[n.id] = bt
                    elif not (bc is bt or (bc.kind == bt.kind and (bc.value is bt.value or bc.value == bt.value))):
                        return False
        for name, b in todo.items():
            cm.scope.setdefault(name, []).append(b)
        return True

    def _avoid_capture(self, body, mapping):
        """Comprehension variables of the helper that also occur in an argument expression get fresh names."""
        used = set()
        for a in mapping.values():
            used |= loads(a)
        bound = set()
        for s in body:
            for n in ast.walk(s):
                if isinstance(n, ast.comprehension):
                    bound.update(_target_names(n.target))
        clash = (bound & used) - set(mapping)
        if clash:
            ren = {n: self.fresh(n) for n in clash}
            for s in body:
                Rename(ren).visit(s)

    # ---- expression form
    def expr_form(self, stmts, env: Dict[str, ast.AST], budget=None):
        """The value returned by a body made of local assignments, if / else and returns, as ONE expression."""
        budget = budget if budget is not None else [64]
        budget[0] -= 1
        if budget[0] < 0:
            return None
        if not stmts:
            return ast.Constant(value=None)
        memo = _memo_idiom(stmts, getattr(self, '_memo_owner', None))
        if memo is not None:
            # x = D.get(k); if x is None: x = E; D[k] = x; return x   ->   E   (what a memo returns is what it computes the first time;
            # whether keeping it is harmless is a question for the effect rules, not for the value)
            return Subst(env).visit(clone(memo))
        s, rest = stmts[0], stmts[1:]
        if isinstance(s, ast.Pass):
            return self.expr_form(rest, env, budget)
        nm, val = _single_name_assign(s)
        if nm is not None:
            e2 = dict(env)
            e2[nm] = Subst(env).visit(clone(val))
            return self.expr_form(rest, e2, budget)
        if isinstance(s, ast.Return):
            return Subst(env).visit(clone(s.value)) if s.value is not None else ast.Constant(value=None)
        if isinstance(s, ast.If):
            t = Subst(env).visit(clone(s.test))
            b = self.expr_form(list(s.body) + list(rest), env, budget)
            o = self.expr_form(list(s.orelse) + list(rest), env, budget)
            if b is None or o is None:
                return None
            if same(b, o):
                return b
            # boolean results read better (and compare better) as and / or
            if _bool_const(b) is True and _bool_const(o) is False:
                return ast.Call(func=ast.Name(id='bool', ctx=ast.Load()), args=[t], keywords=[])
            if _bool_const(b) is False and _bool_const(o) is True:
                return negate(t)
            return ast.IfExp(test=t, body=b, orelse=o)
        return None

    # ---- statement form
    def stmt_form(self, stmts, ret: str):
        """Single-exit version of a body: `return e` -> `ret = e`, code after an early return moves into the else branch."""
        out = []
        for i, s in enumerate(stmts):
            rest = list(stmts[i + 1:])
            if isinstance(s, ast.Return):
                v = s.value if s.value is not None else ast.Constant(value=None)
                out.append(at(ast.Assign(targets=[ast.Name(id=ret, ctx=ast.Store())], value=v), s))
                return out
            if not has_node([s], (ast.Return,)):
                out.append(s)
                if isinstance(s, ast.Raise):
                    return out
                continue
            if isinstance(s, ast.If):
                b = self.stmt_form(list(s.body) + clone(rest), ret)
                o = self.stmt_form(list(s.orelse) + clone(rest), ret)
                if b is None or o is None:
                    return None
                out.append(at(ast.If(test=s.test, body=b or [ast.Pass()], orelse=o), s))
                return out
            if isinstance(s, ast.Try) and not rest and not has_node(s.finalbody, (ast.Return,)):
                b = self.stmt_form(list(s.body), ret)
                hs = []
                for h in s.handlers:
                    hb = self.stmt_form(list(h.body), ret)
                    if hb is None:
                        return None
                    hs.append(at(ast.ExceptHandler(type=h.type, name=h.name, body=hb), h))
                oe = self.stmt_form(list(s.orelse), ret) if s.orelse else []
                if b is None or oe is None:
                    return None
                if s.orelse:
                    # the implicit `ret = None` at the end of the try body would be wrong when an else block follows
                    if not isinstance(s.body[-1], ast.Return):
                        b = b[:-1]
                out.append(at(ast.Try(body=b, handlers=hs, orelse=oe, finalbody=s.finalbody), s))
                return out
            if isinstance(s, ast.With) and not rest:
                b = self.stmt_form(list(s.body), ret)
                if b is None:
                    return None
                out.append(at(ast.With(items=s.items, body=b), s))
                return out
            return None
        tail = ast.Assign(targets=[ast.Name(id=ret, ctx=ast.Store())], value=ast.Constant(value=None))
        if stmts:
            at(tail, stmts[-1])
        else:
            tail.lineno, tail.col_offset = 1, 0
            ast.fix_missing_locations(tail)
        out.append(tail)
        return out

    # ---- call sites
    def try_expr_inline(self, call: ast.Call, fi: FuncInfo, depth: int):
        r = self.resolve_callee(call, fi)
        if r is None:
            return None
        target, recv = r
        mapping = self.bind(call, target, recv, fi)
        if mapping is None:
            return None
        body = self.callee_body(target)
        if body is None:
            return None
        if not self._share_globals(body, target, fi):
            return None
        self._avoid_capture(body, mapping)
        # parameters that the helper re-assigns behave like locals initialised with the argument
        # (a memo may be looked through only when its table is an attribute the class's own __init__ creates on the object)
        self._memo_owner = set()
        if target.cls is not None and '__init__' in target.cls.methods:
            for a_ in ast.walk(target.cls.methods['__init__'].node):
                if isinstance(a_, (ast.Assign, ast.AnnAssign)):
                    for t_ in (a_.targets if isinstance(a_, ast.Assign) else [a_.target]):
                        if isinstance(t_, ast.Attribute) and isinstance(t_.value, ast.Name) and t_.value.id == 'self':
                            self._memo_owner.add(t_.attr)
        try:
            e = self.expr_form(body, dict(mapping))
        finally:
            self._memo_owner = None
        if False:
            e = None
        if e is None:
            return None
        self.stats['inlined'] += 1
        self.inlined_names.add(target.qualname)
        return at(e, call)

    def try_property_inline(self, a: ast.Attribute, fi: FuncInfo):
        """`self.x` where x is a @property of the own class that is NOT an anchor and whose getter has expression form -> the
        expression (a new read-only property is glue like a new helper: what it reads is read by its user)."""
        if not (isinstance(a.ctx, ast.Load) and isinstance(a.value, ast.Name) and a.value.id == 'self' and fi.cls is not None
                and fi.params[:1] == ['self']):
            return None
        target = None
        for c in self.prog.mro(fi.cls):
            if a.attr in c.methods:
                target = c.methods[a.attr]
                break
            if a.attr in c.attrs:
                return None
        if target is None or target.kind != 'property' or self.is_anchor(target.qualname) or target.module.generated:
            return None
        if id(target.node) in self.active or len(target.params) != 1:
            return None
        for sub in self.prog.subclasses(fi.cls, strict=True):
            if a.attr in sub.methods or a.attr in sub.attrs:
                return None
        self.normalize(target)
        body = target.node.body
        if body and isinstance(body[0], ast.Expr) and isinstance(body[0].value, ast.Constant) and isinstance(body[0].value.value, str):
            body = body[1:]
        if has_node(body, (ast.Yield, ast.YieldFrom, ast.Await, ast.Global, ast.Nonlocal, ast.FunctionDef, ast.AsyncFunctionDef, ast.ClassDef)):
            return None
        e = self.expr_form(clone(body), {target.params[0]: a.value})
        if e is None:
            return None
        self.stats['inlined'] += 1
        self.inlined_names.add(target.qualname)
        return at(e, a)

    def unroll_next(self, c: ast.Call, fi: FuncInfo):
        """next((E for T in ROWS if C), D) over a literal tuple / list of rows (or a constant table that is not an anchor)
        ->  E1 if C1 else (E2 if C2 else ... D): the first row whose condition holds (rows substituted for T)."""
        if not (isinstance(c.func, ast.Name) and c.func.id == 'next' and 1 <= len(c.args) <= 2 and not c.keywords
                and isinstance(c.args[0], ast.GeneratorExp) and len(c.args[0].generators) == 1):
            return None
        g = c.args[0].generators[0]
        if g.is_async or len(c.args) != 2:
            return None
        entries = None
        it = g.iter
        if isinstance(it, ast.Name) and it.id in self.scope_info(fi).get('rows', {}):
            it = self.scope_info(fi)['rows'][it.id]         # a local bound once to a literal tuple of rows
        if isinstance(it, (ast.Tuple, ast.List)) and 0 < len(it.elts) <= 16 and not any(isinstance(e, ast.Starred) for e in it.elts):
            entries = list(it.elts)
        else:
            entries = self._entries(it, fi)
        if not entries:
            return None
        out = c.args[1]
        for e in reversed(entries):
            mapping = {}
            if isinstance(g.target, ast.Name):
                mapping[g.target.id] = e
            elif isinstance(g.target, (ast.Tuple, ast.List)) and isinstance(e, (ast.Tuple, ast.List)) and len(e.elts) == len(g.target.elts) \
                    and all(isinstance(t, ast.Name) for t in g.target.elts):
                for t, x in zip(g.target.elts, e.elts):
                    mapping[t.id] = x
            else:
                return None
            elt = Subst(mapping).visit(clone(c.args[0].elt))
            conds = [Subst(mapping).visit(clone(i)) for i in g.ifs]
            test = _and(conds, c) if conds else ast.Constant(value=True)
            tv = _bool_const(test)
            if tv is True:
                out = elt
            elif tv is False:
                continue
            else:
                out = ast.IfExp(test=test, body=elt, orelse=out)
        self.stats['unrolled'] += 1
        return at(out, c)

    def inline_exprs(self, node, fi: FuncInfo, depth: int):
        """Replace calls of expression helpers anywhere inside an expression."""
        nz = self

        class T(ast.NodeTransformer):
            def visit_Call(self, c):
                self.generic_visit(c)
                e = nz.try_expr_inline(c, fi, depth)
                if e is None:
                    e = nz.unroll_next(c, fi)
                return e if e is not None else c

            def visit_Attribute(self, a):
                self.generic_visit(a)
                e = nz.try_property_inline(a, fi)
                return e if e is not None else a
        return T().visit(node)

    def try_stmt_inline(self, call: ast.Call, fi: FuncInfo):
        """-> (prefix statements, name holding the result) for a call of a statement helper."""
        r = self.resolve_callee(call, fi)
        if r is None:
            return None
        target, recv = r
        mapping = self.bind(call, target, recv, fi)
        if mapping is None:
            return None
        body = self.callee_body(target)
        if body is None:
            return None
        if not self._share_globals(body, target, fi):
            return None
        self._avoid_capture(body, mapping)
        ret = self.fresh('ret')
        sf = self.stmt_form(body, ret)
        if sf is None:
            return None
        # locals of the helper get fresh names; parameters are substituted when they are never re-bound and the argument is
        # atomic, and become initialised locals otherwise
        assigned = stores_in(sf) - {ret}
        ren = {}
        prefix = []
        sub = {}
        for p, a in mapping.items():
            if p in assigned or not _atomic(a):
                n = self.fresh(p)
                ren[p] = n
                prefix.append(at(ast.Assign(targets=[ast.Name(id=n, ctx=ast.Store())], value=clone(a)), call))
            else:
                sub[p] = a
        for n in assigned:
            if n not in ren:
                ren[n] = self.fresh(n)
        mod = ast.Module(body=sf, type_ignores=[])
        Rename(ren).visit(mod)
        Subst(sub).visit(mod)
        for s in mod.body:
            ast.fix_missing_locations(s)
        self.stats['inlined'] += 1
        self.inlined_names.add(target.qualname)
        return prefix + mod.body, ret

    def try_generator_inline(self, s: ast.For, fi: FuncInfo):
        """`for x in helper(args): BODY` where helper is a generator function the pinned tree does not know: the statements of
        the helper with `x = <yielded value>; BODY` in place of every `yield` (BODY without break / continue / return, the helper
        without return value, yield expressions used as statements only)."""
        if s.orelse or not isinstance(s.iter, ast.Call) or not isinstance(s.target, ast.Name):
            return None
        if has_node(s.body, (ast.Break, ast.Continue), stop_at_loops=True) or has_node(s.body, (ast.Return, ast.Yield, ast.YieldFrom)):
            return None
        r = self.resolve_callee(s.iter, fi)
        if r is None:
            return None
        target, recv = r
        if isinstance(target.node, ast.Lambda) or not has_node(target.node.body, (ast.Yield,)):
            return None
        if has_node(target.node.body, (ast.YieldFrom, ast.Try, ast.With)):
            return None
        mapping = self.bind(s.iter, target, recv, fi)
        if mapping is None:
            return None
        body = self.callee_body(target, generator=True)
        if body is None:
            return None
        # yields must be whole statements; returns must be bare
        for n in ast.walk(ast.Module(body=body, type_ignores=[])):
            if isinstance(n, ast.Return) and n.value is not None:
                return None
        n_yield = sum(1 for n in ast.walk(ast.Module(body=body, type_ignores=[])) if isinstance(n, ast.Yield))
        n_stmt = sum(1 for n in ast.walk(ast.Module(body=body, type_ignores=[])) if isinstance(n, ast.Expr) and isinstance(n.value, ast.Yield))
        if n_yield != n_stmt or n_yield == 0 or n_yield > 3:
            return None
        if has_node(body, (ast.Return,)):
            return None             # an early return of the generator would have to leave the inlined block only
        if not self._share_globals(body, target, fi):
            return None
        self._avoid_capture(body, mapping)
        assigned = stores_in(body)
        ren, prefix, sub = {}, [], {}
        for p_, a in mapping.items():
            if p_ in assigned or not _atomic(a):
                n = self.fresh(p_)
                ren[p_] = n
                prefix.append(at(ast.Assign(targets=[ast.Name(id=n, ctx=ast.Store())], value=clone(a)), s))
            else:
                sub[p_] = a
        for n in assigned:
            if n not in ren:
                ren[n] = self.fresh(n)
        mod = ast.Module(body=body, type_ignores=[])
        Rename(ren).visit(mod)
        Subst(sub).visit(mod)
        loop = s

        class Y(ast.NodeTransformer):
            def visit_Expr(self, node):
                if isinstance(node.value, ast.Yield):
                    v = node.value.value if node.value.value is not None else ast.Constant(value=None)
                    return [at(ast.Assign(targets=[ast.Name(id=loop.target.id, ctx=ast.Store())], value=v), node)] + clone(loop.body)
                return node

            def visit_FunctionDef(self, node):
                return node
            visit_Lambda = visit_ClassDef = visit_AsyncFunctionDef = visit_FunctionDef
        Y().visit(mod)
        for b in mod.body:
            ast.fix_missing_locations(b)
        self.stats['inlined'] += 1
        self.inlined_names.add(target.qualname)
        return prefix + mod.body

    def inline_block(self, stmts: list, fi: FuncInfo, depth: int) -> list:
        out = []
        for s in stmts:
            out.extend(self.inline_stmt(s, fi, depth))
        return out

    def inline_stmt(self, s, fi: FuncInfo, depth: int) -> list:
        if isinstance(s, (ast.FunctionDef, ast.AsyncFunctionDef, ast.ClassDef)):
            return [s]
        # nested blocks
        for field in ('body', 'orelse', 'finalbody'):
            v = getattr(s, field, None)
            if isinstance(v, list) and v and isinstance(v[0], ast.stmt):
                setattr(s, field, self.inline_block(v, fi, depth))
        if isinstance(s, ast.Try):
            for h in s.handlers:
                h.body = self.inline_block(h.body, fi, depth)
        # 0. `X.extend(self._generator(...))` is `for _r in self._generator(...): X.append(_r)`
        if isinstance(s, ast.Expr) and isinstance(s.value, ast.Call) and isinstance(s.value.func, ast.Attribute) and s.value.func.attr == 'extend' \
                and len(s.value.args) == 1 and not s.value.keywords and isinstance(s.value.args[0], ast.Call):
            r0 = self.resolve_callee(s.value.args[0], fi)
            if r0 is not None and not isinstance(r0[0].node, ast.Lambda) and has_node(r0[0].node.body, (ast.Yield,)):
                var = self.fresh('item')
                loop = at(ast.For(target=ast.Name(id=var, ctx=ast.Store()), iter=s.value.args[0],
                                  body=[at(ast.Expr(value=ast.Call(func=ast.Attribute(value=clone(s.value.func.value), attr='append', ctx=ast.Load()),
                                                                    args=[ast.Name(id=var, ctx=ast.Load())], keywords=[])), s)], orelse=[]), s)
                ast.fix_missing_locations(loop)
                g = self.try_generator_inline(loop, fi)
                if g is not None:
                    return self.inline_block(g, fi, depth + 1) if depth < 4 else g
        # 0. `for x in self._generator(...): BODY`: the generator's body with BODY in place of every `yield`
        if isinstance(s, ast.For):
            g = self.try_generator_inline(s, fi)
            if g is not None:
                return self.inline_block(g, fi, depth + 1) if depth < 4 else g
        # 1. expression helpers anywhere
        for field, value in list(ast.iter_fields(s)):
            if field in ('body', 'orelse', 'finalbody', 'handlers'):
                continue
            if isinstance(value, ast.expr):
                setattr(s, field, self.inline_exprs(value, fi, depth))
            elif isinstance(value, list) and value and isinstance(value[0], ast.expr):
                setattr(s, field, [self.inline_exprs(v, fi, depth) for v in value])
            elif isinstance(value, list) and value and isinstance(value[0], ast.withitem):
                for it in value:
                    it.context_expr = self.inline_exprs(it.context_expr, fi, depth)
        # 2. statement helpers in value position (or hoistable out of the statement's own expressions); the helper's body was
        #    normalised in its own context already
        pre = self._hoist_statement_helpers(s, fi)
        ast.fix_missing_locations(s)
        if pre and isinstance(s, ast.Expr) and isinstance(s.value, ast.Name) and s.value.id.startswith('ret__'):
            return pre
        return pre + [s]

    def _hoist_statement_helpers(self, s, fi: FuncInfo) -> list:
        """Calls of statement helpers that are evaluated unconditionally, exactly once, by the simple statement `s` are
        replaced by a fresh local holding the result; the helper's single-exit body is returned as prefix."""
        if isinstance(s, (ast.While, ast.For, ast.AsyncFor)):
            roots = [('iter', s.iter)] if isinstance(s, (ast.For, ast.AsyncFor)) else []
        elif isinstance(s, ast.If):
            roots = [('test', s.test)]
        elif isinstance(s, (ast.Assign, ast.AnnAssign, ast.AugAssign, ast.Return, ast.Expr)):
            roots = [('value', s.value)] if getattr(s, 'value', None) is not None else []
        elif isinstance(s, ast.Raise):
            roots = [('exc', s.exc)] if s.exc is not None else []
        else:
            roots = []
        prefix = []
        for field, root in roots:
            new_root = self._hoist_in(root, fi, prefix)
            setattr(s, field, new_root)
        return prefix

    def _hoist_in(self, e, fi: FuncInfo, prefix: list):
        """Post-order over the unconditionally evaluated positions of an expression."""
        if isinstance(e, ast.Call):
            e.func = self._hoist_in(e.func, fi, prefix) if isinstance(e.func, ast.Attribute) else e.func
            e.args = [self._hoist_in(a, fi, prefix) for a in e.args]
            for k in e.keywords:
                k.value = self._hoist_in(k.value, fi, prefix)
            # expression helpers are handled by inline_exprs: only helpers WITHOUT expression form come here
            r = self.resolve_callee(e, fi)
            if r is not None:
                target, recv = r
                mapping = self.bind(e, target, recv, fi)
                body = self.callee_body(target) if mapping is not None else None
                if body is not None and self.expr_form(body, dict(mapping)) is None:
                    res = self.try_stmt_inline(e, fi)
                    if res is not None:
                        stmts, ret = res
                        prefix.extend(stmts)
                        return at(ast.Name(id=ret, ctx=ast.Load()), e)
            return e
        if isinstance(e, ast.Attribute):
            e.value = self._hoist_in(e.value, fi, prefix)
            return e
        if isinstance(e, ast.Subscript):
            e.value = self._hoist_in(e.value, fi, prefix)
            e.slice = self._hoist_in(e.slice, fi, prefix)
            return e
        if isinstance(e, ast.BinOp):
            e.left = self._hoist_in(e.left, fi, prefix)
            e.right = self._hoist_in(e.right, fi, prefix)
            return e
        if isinstance(e, ast.UnaryOp):
            e.operand = self._hoist_in(e.operand, fi, prefix)
            return e
        if isinstance(e, ast.Compare):
            e.left = self._hoist_in(e.left, fi, prefix)
            if len(e.comparators) == 1:
                e.comparators = [self._hoist_in(e.comparators[0], fi, prefix)]
            return e
        if isinstance(e, ast.BoolOp):
            e.values[0] = self._hoist_in(e.values[0], fi, prefix)     # only the first operand is unconditional
            return e
        if isinstance(e, (ast.Tuple, ast.List, ast.Set)):
            e.elts = [self._hoist_in(x, fi, prefix) for x in e.elts]
            return e
        if isinstance(e, ast.IfExp):
            e.test = self._hoist_in(e.test, fi, prefix)
            return e
        if isinstance(e, ast.JoinedStr):
            return e
        return e

    # ---- one argument style for calls of kernpy functions
    def _call_target(self, call: ast.Call, fi: FuncInfo):
        """(FuncInfo, number of leading parameters supplied by the receiver) for a call that resolves statically to ONE kernpy
        function or constructor; None otherwise (calls on arbitrary receivers are left as written)."""
        prog = self.prog
        f = call.func

        def ctor(ci):
            for c in prog.mro(ci):
                if '__init__' in c.methods:
                    return c.methods['__init__'], 1
            return None

        def of(t):
            if t is None or t.module.generated or t.module.legacy or isinstance(t.node, ast.Lambda):
                return None
            if t.kind in ('method', 'classmethod'):
                return t, 1
            if t.kind in ('staticmethod', 'function'):
                return t, 0
            return None
        if isinstance(f, ast.Name):
            info = self.scope_info(fi)
            if f.id in info['defs'] or f.id in info['locals']:
                return None
            b = prog.resolve(fi.module, f.id)
            if b is None:
                return None
            if b.kind == 'def':
                return b.value, 0
            if b.kind == 'class':
                return ctor(b.value)
            return None
        if isinstance(f, ast.Attribute):
            v = f.value
            if isinstance(v, ast.Name) and v.id in ('self', 'cls') and fi.cls is not None and fi.params[:1] == [v.id]:
                return of(prog.find_method(fi.cls, f.attr))
            if isinstance(v, ast.Call) and isinstance(v.func, ast.Name) and v.func.id == 'super' and fi.cls is not None and not v.args:
                for c in prog.mro(fi.cls)[1:]:
                    if f.attr in c.methods:
                        return of(c.methods[f.attr])
                return None
            if isinstance(v, (ast.Name, ast.Attribute)):
                if isinstance(v, ast.Name) and v.id in self.scope_info(fi)['locals']:
                    return None
                r = prog.resolve_expr(fi.module, v, None)
                if r is None:
                    return None
                if r[0] == 'class':
                    t = prog.find_method(r[1], f.attr)
                    if t is not None and t.kind in ('classmethod', 'staticmethod'):
                        return of(t)
                    if t is None and f.attr in r[1].nested:
                        return ctor(r[1].nested[f.attr])
                    return None
                if r[0] == 'module':
                    tm = prog.modules.get(r[1])
                    b = prog.resolve(tm, f.attr) if tm is not None else None
                    if b is not None and b.kind == 'def':
                        return b.value, 0
                    if b is not None and b.kind == 'class':
                        return ctor(b.value)
        return None

    def canon_calls(self, stmts: list, fi: FuncInfo) -> list:
        """f(a, y=c, x=b) -> f(a, b, c): arguments of a resolved kernpy callee are written positionally in parameter order as far
        as they are contiguous from the first parameter, the rest as keywords in parameter order."""
        nz = self

        class T(ast.NodeTransformer):
            def visit_Call(self, c):
                self.generic_visit(c)
                if any(isinstance(a, ast.Starred) for a in c.args) or any(k.arg is None for k in c.keywords):
                    return c
                r = nz._call_target(c, fi)
                if r is None:
                    return c
                t, drop = r
                a = t.node.args
                if a.vararg or a.kwarg:
                    return c
                pos = [x.arg for x in a.posonlyargs + a.args][drop:]
                kwonly = [x.arg for x in a.kwonlyargs]
                if len(c.args) > len(pos):
                    return c
                given = dict(zip(pos, c.args))
                for k in c.keywords:
                    if k.arg in given or k.arg not in pos + kwonly:
                        return c
                    given[k.arg] = k.value
                args, kws = [], []
                contiguous = True
                for i, p in enumerate(pos):
                    if p in given and contiguous and i >= len(a.posonlyargs) - drop - 0:
                        args.append(given[p])
                    elif p in given and contiguous:
                        args.append(given[p])
                    elif p in given:
                        kws.append(ast.keyword(arg=p, value=given[p]))
                    else:
                        contiguous = False
                for p in kwonly:
                    if p in given:
                        kws.append(ast.keyword(arg=p, value=given[p]))
                c.args, c.keywords = args, kws
                return c
        out = []
        for st in stmts:
            if isinstance(st, (ast.FunctionDef, ast.AsyncFunctionDef, ast.ClassDef)):
                out.append(st)
            else:
                out.append(T().visit(st))
                ast.fix_missing_locations(out[-1])
        return out

    # ---- copy propagation of attribute reads
    def _callees(self, call: ast.Call, fi: FuncInfo):
        """Functions a call may reach: own hierarchy for self / cls receivers, every method of that name for other receivers,
        the resolved function or the constructor chain for plain names.  None = unknown callee of the application (external
        callees return an empty list: they cannot re-bind attributes of kernpy objects other than through callbacks)."""
        prog = self.prog
        f = call.func
        out = []
        if isinstance(f, ast.Name):
            if f.id in ('setattr', 'delattr', 'exec', 'eval'):
                return None
            if f.id in self.scope_info(fi)['defs']:
                return [FuncInfo(fi.module, self.scope_info(fi)['defs'][f.id], fi.cls, outer=fi)]
            if f.id in self.scope_info(fi)['locals']:
                # a callable held in a local or a parameter (a predicate, a conversion callback): assumed not to re-bind
                # attributes of the objects the caller is working on
                return [] if f.id not in ('cls',) else self._ctor(fi.cls)
            b = prog.resolve(fi.module, f.id)
            if b is None or b.kind in ('external', 'module'):
                return []
            if b.kind == 'def':
                return [b.value]
            if b.kind == 'class':
                return self._ctor(b.value)
            return None
        if isinstance(f, ast.Attribute):
            v = f.value
            if isinstance(v, ast.Name) and v.id in ('self', 'cls') and fi.cls is not None:
                cs = set(prog.mro(fi.cls)) | set(prog.subclasses(fi.cls))
                out = [c.methods[f.attr] for c in cs if f.attr in c.methods]
                if out:
                    return out
            if isinstance(v, ast.Call) and isinstance(v.func, ast.Name) and v.func.id == 'super' and fi.cls is not None:
                return [c.methods[f.attr] for c in prog.mro(fi.cls)[1:] if f.attr in c.methods]
            r = prog.resolve_expr(fi.module, v, None) if isinstance(v, (ast.Name, ast.Attribute)) and not \
                (isinstance(v, ast.Name) and v.id in self.scope_info(fi)['locals']) else None
            if r is not None and r[0] == 'external':
                return []
            if r is not None and r[0] == 'class':
                m = prog.find_method(r[1], f.attr)
                return [m] if m is not None else []
            if r is not None and r[0] == 'module':
                tm = prog.modules.get(r[1])
                b = prog.resolve(tm, f.attr) if tm is not None else None
                if b is not None and b.kind == 'def':
                    return [b.value]
                if b is not None and b.kind == 'class':
                    return self._ctor(b.value)
                return []
            return [c.methods[f.attr] for c in prog.classes.values() if f.attr in c.methods and not c.module.generated and not c.module.legacy]
        return None

    def _ctor(self, ci):
        if ci is None:
            return None
        return [c.methods['__init__'] for c in self.prog.mro(ci) if '__init__' in c.methods][:1]

    def store_closure(self):
        """id(function node) -> attribute names the function may (transitively) re-bind on an object that already exists
        ('*' when a callee cannot be resolved)."""
        if self._stores is None:
            direct, calls, infos = {}, {}, {}
            todo = [f for f in self.prog.functions.values() if not f.module.generated and not f.module.legacy and not isinstance(f.node, ast.Lambda)]
            for f in todo:
                k = id(f.node)
                if k in infos:
                    continue
                infos[k] = f
                d = direct.setdefault(k, set())
                c = calls.setdefault(k, [])
                fresh_self = f.name == '__init__' and f.params[:1] == ['self']      # stores into the object under construction
                fresh = set()           # locals bound (only) to objects constructed in this function
                bound = {}
                for n in ast.walk(f.node):
                    if isinstance(n, ast.Assign):
                        for t in n.targets:
                            if isinstance(t, ast.Name):
                                bound.setdefault(t.id, []).append(n.value)
                for nm_, vals in bound.items():
                    if all(isinstance(v, ast.Call) and isinstance(v.func, ast.Name) and
                           (v.func.id == 'cls' or (self.prog.resolve(f.module, v.func.id) is not None
                                                   and self.prog.resolve(f.module, v.func.id).kind == 'class')) for v in vals):
                        fresh.add(nm_)
                for n in ast.walk(f.node):
                    if isinstance(n, ast.Attribute) and isinstance(n.ctx, (ast.Store, ast.Del)):
                        if fresh_self and isinstance(n.value, ast.Name) and n.value.id == 'self':
                            continue
                        if isinstance(n.value, ast.Name) and n.value.id in fresh and n.value.id not in f.all_params:
                            continue
                        d.add(n.attr)
                    elif isinstance(n, ast.Call):
                        cs = self._callees(n, f)
                        if cs is None:
                            d.add('*')
                        else:
                            c.extend(id(x.node) for x in cs)
            clo = {k: set(v) for k, v in direct.items()}
            changed = True
            while changed:
                changed = False
                for k, cs in calls.items():
                    cur = clo[k]
                    for c in cs:
                        add = clo.get(c)
                        if add and not add <= cur:
                            cur |= add
                            changed = True
            self._stores = clo
        return self._stores

    def copy_propagate(self, stmts: list, fi: FuncInfo) -> list:
        """`x = self.a.b` (a pure attribute chain, x bound once) ... uses of x  ->  uses of `self.a.b`, when nothing between the
        binding and the end of its block can re-bind an attribute of the chain or a name it starts from."""
        if isinstance(fi.node, ast.Lambda):
            return stmts
        whole = ast.Module(body=stmts, type_ignores=[])
        counts = {}
        for n in ast.walk(whole):
            if isinstance(n, ast.Name) and isinstance(n.ctx, (ast.Store, ast.Del)):
                counts[n.id] = counts.get(n.id, 0) + 1
            elif isinstance(n, ast.ExceptHandler) and n.name:
                counts[n.name] = counts.get(n.name, 0) + 2
            elif isinstance(n, (ast.Global, ast.Nonlocal)):
                for nm in n.names:
                    counts[nm] = counts.get(nm, 0) + 2
        params = set(fi.all_params)

        def chain(e):
            names = []
            while isinstance(e, ast.Attribute):
                names.append(e.attr)
                e = e.value
            return (e.id, names) if isinstance(e, ast.Name) and names else None

        def process(block: list) -> list:
            i = 0
            block = list(block)
            while i < len(block):
                st = block[i]
                for field in ('body', 'orelse', 'finalbody'):
                    v = getattr(st, field, None)
                    if isinstance(v, list) and v and isinstance(v[0], ast.stmt) and not isinstance(st, (ast.FunctionDef, ast.AsyncFunctionDef, ast.ClassDef)):
                        setattr(st, field, process(v))
                if isinstance(st, ast.Try):
                    for h in st.handlers:
                        h.body = process(h.body)
                nm, val = _single_name_assign(st)
                ch = chain(val) if nm is not None else None
                if nm is None or ch is None or counts.get(nm) != 1 or nm in params or nm == ch[0]:
                    i += 1
                    continue
                base, attrs = ch
                region = block[i + 1:]
                # every use of the name lies in the region
                n_uses = sum(1 for n in ast.walk(whole) if isinstance(n, ast.Name) and n.id == nm and isinstance(n.ctx, ast.Load))
                r_uses = sum(1 for t in region for n in ast.walk(t) if isinstance(n, ast.Name) and n.id == nm and isinstance(n.ctx, ast.Load))
                if n_uses != r_uses or n_uses == 0:
                    i += 1
                    continue
                if has_node(region, (ast.FunctionDef, ast.AsyncFunctionDef, ast.Lambda, ast.ClassDef)) and \
                        any(mentions(nm, n) for t in region for n in ast.walk(t) if isinstance(n, (ast.FunctionDef, ast.Lambda))):
                    i += 1
                    continue
                safe = True
                blockers = []
                clo = self.store_closure()
                # inside a loop the region also runs again AFTER later statements of the loop body: the enclosing function is
                # scanned for re-binding of the base name instead of the region only
                for t in region:
                    for n in ast.walk(t):
                        if isinstance(n, ast.Name) and n.id == base and isinstance(n.ctx, (ast.Store, ast.Del)):
                            safe = False
                        elif isinstance(n, ast.Attribute) and isinstance(n.ctx, (ast.Store, ast.Del)) and n.attr in attrs:
                            safe = False
                        elif isinstance(n, ast.Call):
                            cs = self._callees(n, fi)
                            if cs is None:
                                safe = False
                            else:
                                for c_ in cs:
                                    st_ = clo.get(id(c_.node), set())
                                    if '*' in st_ or (st_ & set(attrs)):
                                        safe = False
                                        blockers.append(c_.qualname)
                if not safe:
                    if os.environ.get('KPSA_DEBUG_COPY'):
                        print(f'copy of {nm} = {ast.unparse(val)} blocked in {fi.qualname}: {sorted(set(blockers))[:6]}')
                    i += 1
                    continue
                rep = {nm: val}
                new_region = [Subst(rep).visit(t) for t in region]
                for t in new_region:
                    ast.fix_missing_locations(t)
                block = block[:i] + new_region
                self.stats['copies'] = self.stats.get('copies', 0) + 1
                # do not advance: block[i] is now the first statement of the old region
            return block
        return process(stmts)

    # ---- 3. constant tables
    def const_table(self, node, fi: FuncInfo):
        """A Name / cls.X / self.X / Class.X / module.X that denotes a literal tuple / list / dict which is not an anchor."""
        prog = self.prog
        r = None
        if isinstance(node, ast.Name):
            if node.id in self.scope_info(fi)['locals']:
                return None
            b = prog.resolve(fi.module, node.id)
            if b is not None and b.kind == 'assign':
                if len(fi.module.scope.get(node.id, [])) > 1:
                    return None
                qn = f'{b.module.name}.{node.id}'
                r = (qn, b.value)
        elif isinstance(node, ast.Attribute):
            rr = prog.resolve_expr(fi.module, node, fi.cls)
            if rr is not None and rr[0] == 'assign' and isinstance(node.value, ast.Name) and node.value.id in ('self', 'cls') and fi.cls is not None \
                    and any(node.attr in sub.attrs for sub in prog.subclasses(fi.cls, strict=True)):
                rr = None           # a sub-class gives the attribute another value: not a constant of this method
            if rr is not None and rr[0] == 'assign':
                owner = rr[3].qualname if rr[3] is not None else rr[2].name
                r = (f'{owner}.{node.attr}', rr[1])
        if r is None:
            return None
        qn, val = r
        if self.is_anchor(qn):
            return None
        if isinstance(val, (ast.Tuple, ast.List)) and len(val.elts) <= MAX_TABLE and not any(isinstance(e, ast.Starred) for e in val.elts):
            return val
        if isinstance(val, ast.Dict) and len(val.keys) <= MAX_TABLE and all(k is not None for k in val.keys):
            return val
        return None

    def bool_tables(self, stmts: list, fi: FuncInfo) -> list:
        """`TABLE[test]` / `TABLE.get(test)` on a constant table whose keys are exactly True and False, and `(a, b)[test]` on a
        literal pair, are the conditional expression they spell."""
        nz = self

        def pair(table):
            if isinstance(table, ast.Dict) and len(table.keys) == 2:
                ks = {k.value: v for k, v in zip(table.keys, table.values) if isinstance(k, ast.Constant) and isinstance(k.value, bool)}
                if set(ks) == {True, False}:
                    return ks[True], ks[False]
            return None

        def entry(table, key):
            if isinstance(table, ast.Dict) and isinstance(key, ast.Constant) and all(isinstance(k, ast.Constant) for k in table.keys):
                for k, v in zip(table.keys, table.values):
                    if type(k.value) is type(key.value) and k.value == key.value:
                        return clone(v), True
                return None, True
            return None, False

        def const_value(expr):
            ce = getattr(nz, '_ce', None)
            if ce is None:
                from .consteval import ConstEval
                ce = nz._ce = ConstEval(nz.prog)
            try:
                return ce.try_eval(expr, fi.module, fi.cls, {})
            except Exception:
                return False, None

        class T(ast.NodeTransformer):
            def visit_Call(self, node):
                node = self.generic_visit(node)
                f = node.func
                # X.translate(<constant table>) -> X.replace(k1, v1).replace(k2, v2)...  when no image contains another key (then the
                # simultaneous translation and the chain of replacements are the same function)
                if isinstance(f, ast.Attribute) and f.attr == 'translate' and len(node.args) == 1 and not node.keywords \
                        and isinstance(node.args[0], (ast.Name, ast.Attribute, ast.Call)):
                    okt, table = const_value(node.args[0])
                    if okt and isinstance(table, dict) and table and len(table) <= 8 and all(isinstance(k, int) for k in table):
                        pairs = [(chr(k), '' if v is None else (chr(v) if isinstance(v, int) else v)) for k, v in table.items()]
                        keys = {k for k, _ in pairs}
                        if all(isinstance(v, str) and not (set(v) & (keys - {k})) and k not in v for k, v in pairs):
                            out_ = f.value
                            for k, v in pairs:
                                out_ = ast.Call(func=ast.Attribute(value=out_, attr='replace', ctx=ast.Load()),
                                                args=[ast.Constant(value=k), ast.Constant(value=v)], keywords=[])
                            return ast.copy_location(out_, node)
                # TABLE.get('constant'[, default]) on a constant table that is not an anchor: the entry / the default
                if isinstance(f, ast.Attribute) and f.attr == 'get' and 1 <= len(node.args) <= 2 and not node.keywords \
                        and isinstance(node.args[0], ast.Constant) and isinstance(f.value, (ast.Name, ast.Attribute)):
                    v, known = entry(nz.const_table(f.value, fi), node.args[0])
                    if known:
                        return ast.copy_location(v if v is not None else (node.args[1] if len(node.args) == 2 else ast.Constant(value=None)), node)
                return node

            def visit_Subscript(self, node):
                node = self.generic_visit(node)
                if isinstance(node.ctx, ast.Load) and isinstance(node.slice, ast.Constant) and isinstance(node.value, (ast.Name, ast.Attribute)):
                    v, known = entry(nz.const_table(node.value, fi), node.slice)
                    if known and v is not None:
                        return ast.copy_location(v, node)
                if not isinstance(node.ctx, ast.Load) or isinstance(node.slice, (ast.Slice, ast.Constant)):
                    return node
                pr = None
                if isinstance(node.value, (ast.Name, ast.Attribute)):
                    pr = pair(nz.const_table(node.value, fi))
                elif isinstance(node.value, ast.Dict):
                    pr = pair(node.value)
                if pr is None:
                    return node
                return ast.copy_location(ast.IfExp(test=node.slice, body=clone(pr[0]), orelse=clone(pr[1])), node)

            def visit_FunctionDef(self, node):
                return node

            visit_AsyncFunctionDef = visit_ClassDef = visit_FunctionDef
        out = []
        for s_ in stmts:
            if isinstance(s_, (ast.FunctionDef, ast.AsyncFunctionDef, ast.ClassDef)):
                out.append(s_)
            else:
                for s1 in _canon_stmt(s_):
                    for s2 in _canon_stmt(ast.fix_missing_locations(T().visit(s1))):
                        out.append(ast.fix_missing_locations(s2))
        return out

    @staticmethod
    def _used_once_as_iter(name, stmts) -> bool:
        """The local is read exactly once in the block, as the iterable of a `for` statement."""
        loads = [n for s_ in stmts for n in ast.walk(s_) if isinstance(n, ast.Name) and n.id == name and isinstance(n.ctx, ast.Load)]
        fors = [s_ for s_ in stmts if isinstance(s_, ast.For) and isinstance(s_.iter, ast.Name) and s_.iter.id == name]
        return len(loads) == 1 and len(fors) == 1

    def unroll_block(self, stmts: list, fi: FuncInfo) -> list:
        out = []
        displays = {}       # names bound, in this block, to a display of names / constants (a parameter pack of an inlined helper)
        for s in stmts:
            if isinstance(s, ast.For) and isinstance(s.iter, ast.Name) and s.iter.id in displays:
                s.iter = clone(displays[s.iter.id])
            nm, val = _single_name_assign(s)
            for x in stores_in([s]):
                displays.pop(x, None)
            if nm is not None and isinstance(val, (ast.Tuple, ast.List)) and val.elts and len(val.elts) <= 8 \
                    and not any(isinstance(e, ast.Starred) for e in val.elts):
                # (entries that are not names / constants are bound to temporaries by the unrolling, in order)
                if all(_atomic(e) or (isinstance(e, (ast.Tuple, ast.List)) and all(_atomic(x) for x in e.elts)) for e in val.elts) \
                        or self._used_once_as_iter(nm, stmts):
                    displays[nm] = val
            if isinstance(s, (ast.FunctionDef, ast.AsyncFunctionDef, ast.ClassDef)):
                out.append(s)
                continue
            for field in ('body', 'orelse', 'finalbody'):
                v = getattr(s, field, None)
                if isinstance(v, list) and v and isinstance(v[0], ast.stmt):
                    setattr(s, field, self.unroll_block(v, fi))
            if isinstance(s, ast.Try):
                for h in s.handlers:
                    h.body = self.unroll_block(h.body, fi)
            r = self._unroll_for(s, fi) if isinstance(s, ast.For) else None
            out.extend(r if r is not None else [s])
        return out

    def _entries(self, it, fi: FuncInfo):
        """Entries (as expressions) iterated by `for ... in <it>` when <it> is a constant table."""
        if isinstance(it, ast.Call) and isinstance(it.func, ast.Attribute) and it.func.attr in ('items', 'keys', 'values') \
                and not it.args and not it.keywords:
            t = self.const_table(it.func.value, fi)
            if isinstance(t, ast.Dict):
                if it.func.attr == 'items':
                    return [ast.Tuple(elts=[k, v], ctx=ast.Load()) for k, v in zip(t.keys, t.values)]
                return list(t.keys if it.func.attr == 'keys' else t.values)
            return None
        if isinstance(it, (ast.Tuple, ast.List)) and 0 < len(it.elts) <= 8 and not any(isinstance(e, ast.Starred) for e in it.elts):
            return list(it.elts)        # a loop over a display: entries that are not names / constants are bound to temporaries
        t = self.const_table(it, fi)
        if isinstance(t, (ast.Tuple, ast.List)):
            return list(t.elts)
        if isinstance(t, ast.Dict):
            return list(t.keys)
        return None

    def _unroll_for(self, s: ast.For, fi: FuncInfo):
        first_match = False
        if not s.orelse and len(s.body) == 1 and isinstance(s.body[0], ast.If) and not s.body[0].orelse and s.body[0].body \
                and isinstance(s.body[0].body[-1], ast.Break) \
                and not has_node(s.body[0].body[:-1], (ast.Break, ast.Continue), stop_at_loops=True):
            first_match = True      # `for e in T: if C(e): S(e); break`  ->  if C(e1): S(e1) elif C(e2): S(e2) ...
        elif s.orelse or has_node(s.body, (ast.Break, ast.Continue), stop_at_loops=True):
            return None
        entries = self._entries(s.iter, fi)
        if entries is None:
            return None
        if first_match:
            if not all(_atomic(e) or (isinstance(e, (ast.Tuple, ast.List)) and all(_atomic(x) for x in e.elts)) for e in entries):
                return None
            chain = []
            for e in reversed(entries):
                mapping = {}
                if isinstance(s.target, ast.Name):
                    mapping[s.target.id] = e
                elif isinstance(s.target, (ast.Tuple, ast.List)) and isinstance(e, (ast.Tuple, ast.List)) \
                        and len(e.elts) == len(s.target.elts) and all(isinstance(t, ast.Name) for t in s.target.elts):
                    mapping = {t.id: x for t, x in zip(s.target.elts, e.elts)}
                else:
                    return None
                branch = clone(s.body[0])
                branch.body = branch.body[:-1] or [at(ast.Pass(), s)]
                if stores_in([branch]) & set(mapping):
                    return None
                mod = ast.Module(body=[branch], type_ignores=[])
                Subst(mapping).visit(mod)
                branch = mod.body[0]
                branch.test = canon_expr(branch.test)
                branch.orelse = chain
                chain = [branch]
            for b in chain:
                ast.fix_missing_locations(b)
            self.stats['unrolled'] += 1
            return chain
        out = []
        if isinstance(s.iter, (ast.Tuple, ast.List)):
            # the display is evaluated once, before the first iteration
            bound = []
            taken = {n.id for n in ast.walk(ast.Module(body=fi.node.body, type_ignores=[])) if isinstance(n, ast.Name)}
            for k, e in enumerate(entries):
                if _atomic(e) or (isinstance(e, (ast.Tuple, ast.List)) and all(_atomic(x) for x in e.elts)):
                    bound.append(e)
                    continue
                if isinstance(e, (ast.Tuple, ast.List)) and isinstance(s.target, (ast.Tuple, ast.List)) and len(e.elts) == len(s.target.elts) \
                        and all(isinstance(t, ast.Name) for t in s.target.elts) and not any(isinstance(x, ast.Starred) for x in e.elts):
                    # an entry that is itself a display: its elements are bound one by one
                    elts = []
                    for t, x in zip(s.target.elts, e.elts):
                        if _atomic(x):
                            elts.append(x)
                            continue
                        name = f'{t.id}_{k + 1}'
                        while name in taken:
                            name = '_' + name
                        taken.add(name)
                        out.append(at(ast.Assign(targets=[ast.Name(id=name, ctx=ast.Store())], value=x), s))
                        elts.append(ast.Name(id=name, ctx=ast.Load()))
                    bound.append(ast.Tuple(elts=elts, ctx=ast.Load()))
                    continue
                base = s.target.id if isinstance(s.target, ast.Name) else 'entry'
                name = f'{base}_{k + 1}'
                while name in taken:
                    name = '_' + name
                taken.add(name)
                out.append(at(ast.Assign(targets=[ast.Name(id=name, ctx=ast.Store())], value=e), s))
                bound.append(ast.Name(id=name, ctx=ast.Load()))
            entries = bound
        for e in entries:
            mapping = {}
            if isinstance(s.target, ast.Name):
                mapping[s.target.id] = e
            elif isinstance(s.target, (ast.Tuple, ast.List)) and isinstance(e, (ast.Tuple, ast.List)) \
                    and len(e.elts) == len(s.target.elts) and all(isinstance(t, ast.Name) for t in s.target.elts):
                for t, x in zip(s.target.elts, e.elts):
                    mapping[t.id] = x
            else:
                return None
            body = clone(s.body)
            if stores_in(body) & set(mapping):
                return None
            mod = ast.Module(body=body, type_ignores=[])
            Subst(mapping).visit(mod)
            for b in mod.body:
                for n in ast.walk(b):       # every copy reports the line of the loop
                    if hasattr(n, 'lineno'):
                        n.lineno = getattr(e, 'lineno', n.lineno)
            out.extend(mod.body)
        self.stats['unrolled'] += 1
        return out

    def _lookup_chain(self, s, fi: FuncInfo):
        """`x = T.get(k[, d])`, `x = T[k]`, `return T.get(k[, d])`, `return T[k]` on a constant dict -> if-chain."""
        if not isinstance(s, (ast.Assign, ast.Return, ast.AnnAssign)) or getattr(s, 'value', None) is None:
            return None
        v = s.value
        table = key = None
        default = None
        strict = False
        if isinstance(v, ast.Call) and isinstance(v.func, ast.Attribute) and v.func.attr == 'get' and 1 <= len(v.args) <= 2 and not v.keywords:
            table, key = self.const_table(v.func.value, fi), v.args[0]
            default = v.args[1] if len(v.args) == 2 else ast.Constant(value=None)
        elif isinstance(v, ast.Subscript) and isinstance(v.ctx, ast.Load):
            table, key, strict = self.const_table(v.value, fi), v.slice, True
        if not isinstance(table, ast.Dict):
            return None

        def mk(val):
            c = clone(s)
            c.value = clone(val)
            return c
        if strict:
            tail = [at(ast.Raise(exc=ast.Call(func=ast.Name(id='KeyError', ctx=ast.Load()), args=[clone(key)], keywords=[]), cause=None), s)]
        else:
            tail = [mk(default)]
        for k, val in reversed(list(zip(table.keys, table.values))):
            test = ast.Compare(left=clone(key), ops=[ast.Eq()], comparators=[clone(k)])
            tail = [at(ast.If(test=test, body=[mk(val)], orelse=tail), s)]
        self.stats['lookups'] += 1
        return tail


def _memo_idiom(stmts, owner=None):
    """`x = D.get(k)` / `if x is None: x = E; D[k] = x` / `return x`  ->  E, else None.  Only for a memo that lives in the object
    itself (`self.attr` bound in the class's __init__): a table at class or module level outlives the call, and dropping the store
    would hide that from the effect rules."""
    if len(stmts) != 3:
        return None
    if owner is None:
        return None
    a, b, c = stmts
    nm, val = _single_name_assign(a)
    if nm is None or not (isinstance(val, ast.Call) and isinstance(val.func, ast.Attribute) and val.func.attr == 'get' and len(val.args) == 1
                          and not val.keywords):
        return None
    table, key = val.func.value, val.args[0]
    if not (isinstance(table, ast.Attribute) and isinstance(table.value, ast.Name) and table.value.id == 'self' and table.attr in owner):
        return None
    if not (isinstance(b, ast.If) and not b.orelse and isinstance(b.test, ast.Compare) and len(b.test.ops) == 1
            and isinstance(b.test.ops[0], ast.Is) and isinstance(b.test.left, ast.Name) and b.test.left.id == nm
            and is_const(b.test.comparators[0], None) and len(b.body) == 2):
        return None
    n2, e = _single_name_assign(b.body[0])
    st = b.body[1]
    if n2 != nm or not (isinstance(st, ast.Assign) and len(st.targets) == 1 and isinstance(st.targets[0], ast.Subscript)
                        and same(st.targets[0].value, table) and same(st.targets[0].slice, key)
                        and isinstance(st.value, ast.Name) and st.value.id == nm):
        return None
    if not (isinstance(c, ast.Return) and isinstance(c.value, ast.Name) and c.value.id == nm):
        return None
    if mentions(nm, [e]):
        return None
    return e


def _atomic(e) -> bool:
    if isinstance(e, (ast.Name, ast.Constant)):
        return True
    if isinstance(e, ast.Attribute):
        return _atomic(e.value)
    return False


def _locals_of(fnode) -> set:
    out = set()
    for n in walk_local(fnode):
        if isinstance(n, ast.Name) and isinstance(n.ctx, ast.Store):
            out.add(n.id)
    return out


def _local_lambda(fnode, name):
    found = None
    count = 0
    for n in walk_local(fnode):
        if isinstance(n, ast.Assign):
            for t in n.targets:
                if isinstance(t, ast.Name) and t.id == name:
                    count += 1
                    found = n.value if isinstance(n.value, ast.Lambda) else None
    return found if count == 1 else None


def normalize_program(prog, known=None):
    return Normalizer(prog, known).run()
