"""A reader for the ANTLR4 subset used by kern/kernSpineParser.g4 and kern/kernSpineLexer.g4."""
from __future__ import annotations

import re
from typing import Dict, List, Optional, Set, Tuple

from .errors import AnalysisError

ANY = '<any>'


class Elem:
    __slots__ = ('kind', 'name', 'quant', 'alts')

    def __init__(self, kind, name=None, quant='', alts=None):
        self.kind = kind      # rule | token | literal | group | notset
        self.name = name
        self.quant = quant    # '' ? * +
        self.alts = alts      # for group: list of sequences

    @property
    def optional(self):
        return self.quant in ('?', '*')

    def __repr__(self):
        if self.kind == 'group':
            return '(' + ' | '.join(' '.join(map(repr, a)) for a in self.alts) + ')' + self.quant
        return f'{self.name}{self.quant}'


def _strip_comments(s):
    s = re.sub(r'/\*.*?\*/', lambda m: '\n' * m.group(0).count('\n'), s, flags=re.S)
    out = []
    for line in s.split('\n'):
        # a // outside quotes starts a comment
        res, i, q = '', 0, False
        while i < len(line):
            c = line[i]
            if c == "'" and (i == 0 or line[i - 1] != '\\' or (i > 1 and line[i - 2] == '\\')):
                q = not q
            if not q and line.startswith('//', i):
                break
            res += c
            i += 1
        out.append(res)
    return '\n'.join(out)


_TOK = re.compile(r"\s*(?:(?P<lit>'(?:\\.|[^'\\])*')|(?P<id>[A-Za-z_][A-Za-z_0-9]*)|(?P<set>\[(?:\\.|[^\]\\])*\])|(?P<op>[()|?*+~;:.]|->|\.\.))")


def _tokenize(body):
    toks, i = [], 0
    while i < len(body):
        m = _TOK.match(body, i)
        if not m:
            if body[i:].strip() == '':
                break
            raise AnalysisError(f'grammar: cannot tokenize near `{body[i:i + 30]}`')
        i = m.end()
        toks.append((m.lastgroup, m.group(m.lastgroup)))
    return toks


class _Parser:
    def __init__(self, toks):
        self.t, self.i = toks, 0

    def peek(self):
        return self.t[self.i] if self.i < len(self.t) else (None, None)

    def alts(self, stop=(')',)):
        out = [self.seq(stop)]
        while self.peek() == ('op', '|'):
            self.i += 1
            out.append(self.seq(stop))
        return out

    def seq(self, stop):
        out = []
        while True:
            k, v = self.peek()
            if k is None or (k == 'op' and (v == '|' or v in stop)):
                break
            if k == 'op' and v == '->':
                # lexer command: skip to the end
                self.i = len(self.t)
                break
            out.append(self.elem())
        return out

    def elem(self):
        k, v = self.peek()
        self.i += 1
        if k == 'op' and v == '(':
            a = self.alts()
            if self.peek() != ('op', ')'):
                raise AnalysisError('grammar: missing )')
            self.i += 1
            e = Elem('group', alts=a)
        elif k == 'op' and v == '~':
            k2, v2 = self.peek()
            self.i += 1
            if k2 == 'op' and v2 == '(':
                self.alts()
                self.i += 1
            e = Elem('notset', name='~' + str(v2))
        elif k == 'lit':
            e = Elem('literal', name=v[1:-1])
        elif k == 'set':
            e = Elem('charset', name=v)
        elif k == 'id':
            e = Elem('token' if v[0].isupper() else 'rule', name=v)
        elif k == 'op' and v == '.':
            e = Elem('notset', name='.')
        else:
            raise AnalysisError(f'grammar: unexpected `{v}`')
        k, v = self.peek()
        if k == 'op' and v in ('?', '*', '+'):
            e.quant = v
            self.i += 1
            if self.peek() == ('op', '?'):   # non-greedy
                self.i += 1
        return e


def parse_rules(text) -> Dict[str, List[List[Elem]]]:
    text = _strip_comments(text)
    text = re.sub(r'\b(options|tokens|channels)\s*\{[^}]*\}', '', text)
    text = re.sub(r'^\s*(parser|lexer)?\s*grammar\s+\w+\s*;', '', text, flags=re.M)
    rules = {}
    # split on ';' at top level (outside quotes)
    parts, cur, q, br = [], '', False, False
    i = 0
    while i < len(text):
        c = text[i]
        if c == "'" and not br and (i == 0 or text[i - 1] != '\\' or (i > 1 and text[i - 2] == '\\')):
            q = not q
        if not q and c == '[' and not br:
            br = True
        elif not q and c == ']' and br and text[i - 1] != '\\':
            br = False
        if c == ';' and not q and not br:
            parts.append(cur)
            cur = ''
        else:
            cur += c
        i += 1
    for part in parts:
        m = re.match(r'\s*(?:fragment\s+)?([A-Za-z_][A-Za-z_0-9]*)\s*:(.*)$', part, re.S)
        if not m:
            continue
        name, body = m.group(1), m.group(2)
        if name in ('options', 'tokens', 'channels', 'mode'):
            continue
        p = _Parser(_tokenize(body))
        rules[name] = p.alts(stop=())
    return rules


class Grammar:
    def __init__(self, parser_text: str, lexer_text: str):
        self.rules = parse_rules(parser_text)
        self.lexer = parse_rules(lexer_text)
        if 'start' not in self.rules:
            raise AnalysisError('grammar: start rule not found')

    # --- structure
    def flat(self, seq) -> List[Elem]:
        return list(seq)

    def children_rules(self, rule: str, include_optional=True) -> Set[str]:
        out = set()

        def walk(seq):
            for e in seq:
                if e.kind == 'rule':
                    out.add(e.name)
                elif e.kind == 'group':
                    for a in e.alts:
                        walk(a)
        for alt in self.rules[rule]:
            walk(alt)
        return out

    def reachable(self, rule: str) -> Set[str]:
        seen, todo = set(), [rule]
        while todo:
            r = todo.pop()
            if r in seen or r not in self.rules:
                continue
            seen.add(r)
            todo.extend(self.children_rules(r))
        return seen

    def guaranteed(self, assigning: Set[str]) -> Set[str]:
        """Least fixpoint: a rule guarantees a token if its handler assigns one, or every alternative has a
        mandatory element (rule reference outside ? and *) that guarantees."""
        G = set(a for a in assigning if a in self.rules)
        changed = True

        def seq_guarantees(seq):
            for e in seq:
                if e.optional:
                    continue
                if e.kind == 'rule' and e.name in G:
                    return True
                if e.kind == 'group' and all(seq_guarantees(a) for a in e.alts):
                    return True
            return False
        while changed:
            changed = False
            for r, alts in self.rules.items():
                if r not in G and alts and all(seq_guarantees(a) for a in alts):
                    G.add(r)
                    changed = True
        return G

    # --- alphabets
    def token_chars(self, tok: str, _seen=None) -> Set[str]:
        _seen = _seen or set()
        if tok in _seen or tok not in self.lexer:
            return {ANY}
        _seen = _seen | {tok}
        out = set()

        def walk(seq):
            for e in seq:
                if e.kind == 'literal':
                    out.update(_unescape(e.name))
                elif e.kind == 'token':
                    out.update(self.token_chars(e.name, _seen))
                elif e.kind == 'group':
                    for a in e.alts:
                        walk(a)
                elif e.kind in ('notset', 'charset'):
                    out.add(ANY)
        for alt in self.lexer[tok]:
            walk(alt)
        return out

    def alphabet(self, rule: str) -> Set[str]:
        out = set()
        for r in self.reachable(rule):
            def walk(seq):
                for e in seq:
                    if e.kind == 'token':
                        out.update(self.token_chars(e.name))
                    elif e.kind == 'literal':
                        out.update(_unescape(e.name))
                    elif e.kind == 'notset':
                        out.add(ANY)
                    elif e.kind == 'group':
                        for a in e.alts:
                            walk(a)
            for alt in self.rules[r]:
                walk(alt)
        return out

    def first_chars(self, rule: str, _depth=0) -> Set[str]:
        """Characters a derivation of `rule` can start with (tokens approximated by their first literal char)."""
        out = set()
        if _depth > 12:
            return {ANY}

        def seq_first(seq):
            res = set()
            for e in seq:
                if e.kind == 'rule':
                    res |= self.first_chars(e.name, _depth + 1)
                elif e.kind == 'token':
                    res |= self._token_first(e.name)
                elif e.kind == 'literal':
                    res.add(_unescape(e.name)[:1])
                elif e.kind == 'group':
                    for a in e.alts:
                        res |= seq_first(a)
                else:
                    res.add(ANY)
                if not e.optional:
                    break
            return res
        for alt in self.rules.get(rule, []):
            out |= seq_first(alt)
        return out

    def _token_first(self, tok, _seen=None):
        _seen = _seen or set()
        if tok in _seen or tok not in self.lexer:
            return {ANY}
        res = set()
        for alt in self.lexer[tok]:
            for e in alt:
                if e.kind == 'literal':
                    res.add(_unescape(e.name)[:1])
                elif e.kind == 'token':
                    res |= self._token_first(e.name, _seen | {tok})
                else:
                    res.add(ANY)
                if not e.optional:
                    break
        return res

    def sequence_rules(self, rule: str) -> List[Tuple[str, str]]:
        """Top-level elements of a single-alternative rule: [(rule-or-token name, quantifier)]; groups are flattened
        with their quantifier applied."""
        alts = self.rules[rule]
        if len(alts) != 1:
            raise AnalysisError(f'grammar: rule {rule} has {len(alts)} alternatives, expected a sequence')
        out = []

        def walk(seq, outer=''):
            for e in seq:
                q = e.quant or outer
                if e.kind in ('rule', 'token', 'literal'):
                    out.append((e.name, q))
                elif e.kind == 'group':
                    for a in e.alts:
                        walk(a, '?' if (len(e.alts) > 1 and not e.quant) else q)
        walk(alts[0])
        return out


def _unescape(s):
    return s.encode('utf-8').decode('unicode_escape') if '\\' in s else s


def load(ctx) -> Grammar:
    return Grammar(ctx.prog.read('kern/kernSpineParser.g4'), ctx.prog.read('kern/kernSpineLexer.g4'))
